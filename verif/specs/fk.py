"""FK_spec: MuJoCo's mj_kinematics semantics for brax link trees, transcribed from the MuJoCo documentation
(sequential joints of a body act in the body frame after the preceding joints), written over any scalar algebra.
Validated numerically against the MuJoCo binary in the bounded checks; never derived from brax source."""
from __future__ import annotations
from verif.specs import sx
from verif.specs.sx import X


def fk(A, ss, q, qd, with_vel=False):
  """ss: physsys.SymSys; returns per-link lists (pos[3], quat[4]) and, for links inside the velocity claim,
  (ang[3], vel[3]) else None"""
  sys = ss.concrete
  n = sys.num_links()
  xs = lambda v: [X(e, A) for e in v]
  pos, quat, angv, linv = [None] * n, [None] * n, [None] * n, [None] * n
  one, zero = X(1, A), X(0, A)
  qi = di = 0
  for i, t in enumerate(sys.link_types):
    p = sys.link_parents[i]
    if t == 'f':
      pos[i] = xs(q[qi:qi + 3])
      quat[i] = xs(q[qi + 3:qi + 7])
      if with_vel:
        linv[i] = xs(qd[di:di + 3])
        angv[i] = sx.qrot(quat[i], xs(qd[di + 3:di + 6]))          # free-joint angular velocity is expressed in the body frame
      qi, di = qi + 7, di + 6
      continue
    P, Q = ([zero] * 3, [one, zero, zero, zero]) if p == -1 else (pos[p], quat[p])
    xp = sx.vadd(P, sx.qrot(Q, xs(ss.tp[i])))
    xq = sx.qmul(Q, xs(ss.tr[i]))
    jpos = xs(ss.jp[i])
    nd = int(t)
    claim = with_vel and nd == 1 and all(isinstance(e, int) and e == 0 for e in ss.jp[i]) and (p == -1 or angv[p] is not None)
    for k in range(nd):
      ax = xs(ss.ang[di + k]) if ss.kinds[di + k] == 'h' else xs(ss.vel[di + k])
      if ss.kinds[di + k] == 'h':
        c, s = ss.half_angle(q[qi + k])
        anchor = sx.vadd(xp, sx.qrot(xq, jpos))
        xq = sx.qmul(xq, sx.axis_angle_quat(ax, X(c, A), X(s, A)))
        xp = sx.vsub(anchor, sx.qrot(xq, jpos))
      else:
        xp = sx.vadd(xp, sx.vscale(sx.qrot(xq, ax), X(q[qi + k], A)))
    pos[i], quat[i] = xp, xq
    if claim:
      wp, vp = ([zero] * 3, [zero] * 3) if p == -1 else (angv[p], linv[p])
      Pp = [zero] * 3 if p == -1 else pos[p]
      axw = sx.qrot(xq, xs(ss.ang[di]) if ss.kinds[di] == 'h' else xs(ss.vel[di]))
      base = sx.vadd(vp, sx.cross(wp, sx.vsub(xp, Pp)))
      if ss.kinds[di] == 'h':
        angv[i] = sx.vadd(wp, sx.vscale(axw, X(qd[di], A)))
        linv[i] = base
      else:
        angv[i] = wp
        linv[i] = sx.vadd(base, sx.vscale(axw, X(qd[di], A)))
    qi, di = qi + nd, di + nd
  return pos, quat, angv, linv
