"""Readable spec arithmetic: `X` wraps a scalar of any algebra with python operators, `V` is a list
of X with vector helpers.  Spec functions in this package are written from the textbook
definitions (Hamilton product, q v q*, spatial algebra), not from brax source."""
from __future__ import annotations
import numpy as np
from fractions import Fraction


class X:
  __slots__ = ('v', 'A')

  def __init__(self, v, A):
    self.v = v.v if isinstance(v, X) else v
    self.A = A

  def _o(self, o):
    if isinstance(o, X):
      return o.v
    if isinstance(o, float):
      return Fraction(o)
    return o

  def __add__(self, o): return X(self.A.add(self.v, self._o(o)), self.A)
  __radd__ = __add__
  def __sub__(self, o): return X(self.A.sub(self.v, self._o(o)), self.A)
  def __rsub__(self, o): return X(self.A.sub(self._o(o), self.v), self.A)
  def __mul__(self, o): return X(self.A.mul(self.v, self._o(o)), self.A)
  __rmul__ = __mul__
  def __truediv__(self, o): return X(self.A.div(self.v, self._o(o)), self.A)
  def __rtruediv__(self, o): return X(self.A.div(self._o(o), self.v), self.A)
  def __neg__(self): return X(self.A.neg(self.v), self.A)
  def __pow__(self, n): return X(self.A.ipow(self.v, n), self.A)


def xs(A, arr):
  """object array / list of scalars -> nested lists of X"""
  if isinstance(arr, np.ndarray):
    if arr.ndim == 0:
      return X(arr.item(), A)
    return [xs(A, a) for a in arr]
  if isinstance(arr, (list, tuple)):
    return [xs(A, a) for a in arr]
  return X(arr, A)


def raw(x):
  """nested lists of X -> object ndarray of scalars"""
  if isinstance(x, X):
    a = np.empty((), dtype=object)
    a[()] = x.v
    return a
  if isinstance(x, (list, tuple)):
    parts = [raw(e) for e in x]
    out = np.empty((len(parts),) + parts[0].shape, dtype=object)
    for i, p in enumerate(parts):
      out[i] = p
    return out
  a = np.empty((), dtype=object)
  a[()] = x
  return a


# ---- vectors ---------------------------------------------------------------------------------
def dot(a, b):
  s = a[0] * b[0]
  for x, y in zip(a[1:], b[1:]):
    s = s + x * y
  return s


def cross(a, b):
  return [a[1] * b[2] - a[2] * b[1], a[2] * b[0] - a[0] * b[2], a[0] * b[1] - a[1] * b[0]]


def vadd(a, b): return [x + y for x, y in zip(a, b)]
def vsub(a, b): return [x - y for x, y in zip(a, b)]
def vscale(a, k): return [x * k for x in a]
def vneg(a): return [-x for x in a]
def norm2(a): return dot(a, a)


def matvec(m, v): return [dot(r, v) for r in m]
def matmul(a, b): return [[dot(r, [b[k][j] for k in range(len(b))]) for j in range(len(b[0]))] for r in a]
def transpose(m): return [[m[i][j] for i in range(len(m))] for j in range(len(m[0]))]


# ---- quaternions (w, x, y, z), Hamilton convention ----------------------------------------------
def qmul(p, q):
  pw, pv, qw, qv = p[0], p[1:], q[0], q[1:]
  w = pw * qw - dot(pv, qv)
  v = vadd(vadd(vscale(qv, pw), vscale(pv, qw)), cross(pv, qv))
  return [w] + v


def qconj(q): return [q[0], -q[1], -q[2], -q[3]]


def qrot(q, v):
  """q (0,v) q*  -- for unit q the rotation of v; for any q it is |q|^2 times the rotation."""
  zero = v[0] * 0
  r = qmul(qmul(q, [zero] + list(v)), qconj(q))
  return r[1:]


def qmat(q):
  """rotation matrix of a UNIT quaternion (columns = images of the basis vectors)"""
  one = q[0] * 0 + 1
  zero = q[0] * 0
  cols = [qrot(q, [one if i == j else zero for j in range(3)]) for i in range(3)]
  return transpose(cols)


def axis_angle_quat(axis, c, s):
  """quaternion of a rotation about unit `axis` by the angle whose HALF-angle pair is (c, s)"""
  return [c, axis[0] * s, axis[1] * s, axis[2] * s]


# ---- SE(3) -----------------------------------------------------------------------------------------
def t_compose(pa, qa, pb, qb):
  """(pa,qa) o (pb,qb): apply b in the frame of a"""
  return vadd(pa, qrot(qa, pb)), qmul(qa, qb)
