"""C14 bounded stand-in (Engine B; NOT proof): generated MJCF documents through mjcf.loads + the three native inits."""
from __future__ import annotations
import re
import numpy as np
from verif.contracts.common import Obligation, Result, PROVED, REFUTED, UNDECIDED, ERROR, seed
from verif.bounded import modelgen

FEATURES = ['integrator', 'cone', 'wind', 'impratio', 'fluid', 'site-transmission', 'gaintype', 'biastype', 'joint-ref', 'ball', 'free-stiffness',
            'solmix', 'priority', 'cylinder', 'stack-anchor']


def inject(xml, feat, rng):
  """returns the modified document or None if the document has no eligible element"""
  def pick(pattern):
    ms = list(re.finditer(pattern, xml))
    return ms[int(rng.randint(0, len(ms)))] if ms else None
  if feat == 'integrator':
    return xml.replace('<option ', '<option integrator="RK4" ', 1)
  if feat == 'cone':
    return xml.replace('<option ', '<option cone="elliptic" ', 1)
  if feat == 'wind':
    return xml.replace('<option ', '<option wind="0.5 0 0" density="1.2" ', 1)
  if feat == 'impratio':
    return xml.replace('<option ', '<option impratio="2" ', 1)
  if feat in ('fluid', 'solmix', 'priority'):
    m = pick(r'<geom name="g\d+_\d+" ')
    if not m or (feat != 'fluid' and len(re.findall(r'<geom name="g', xml)) < 2):
      return None
    add = {'fluid': 'fluidshape="ellipsoid" ', 'solmix': 'solmix="3" ', 'priority': 'priority="2" '}[feat]
    out = xml[:m.end()] + add + xml[m.end():]
    if feat == 'fluid':
      out = out.replace('<option ', '<option density="1.2" viscosity="0.1" ', 1)
    return out
  if feat == 'cylinder':
    m = pick(r'<geom name="g\d+_\d+" type="\w+" size="[^"]*"')
    if not m:
      return None
    rest = xml[m.end():]
    rest = re.sub(r'contype="\d" conaffinity="\d"', 'contype="1" conaffinity="1"', rest, count=1)
    return xml[:m.start()] + re.sub(r'type="\w+" size="[^"]*"', 'type="cylinder" size="0.05 0.2"', m.group(0)) + rest
  if feat in ('joint-ref', 'ball', 'stack-anchor'):
    ms = list(re.finditer(r'<joint name="j(\d+)_(\d+)" type="(\w+)" axis="[^"]*" pos="([^"]*)"', xml))
    if not ms:
      return None
    if feat == 'joint-ref':
      m = ms[int(rng.randint(0, len(ms)))]
      return xml[:m.end()] + ' ref="0.3"' + xml[m.end():]
    if feat == 'ball':
      singles = [m for m in ms if sum(1 for k in ms if k.group(1) == m.group(1)) == 1]
      if not singles:
        return None
      m = singles[int(rng.randint(0, len(singles)))]
      line_end = xml.index('/>', m.end())
      return xml[:m.start()] + '<joint name="j%s_0" type="ball" pos="%s"' % (m.group(1), m.group(4)) + xml[line_end:]
    stacked = [m for m in ms if m.group(2) != '0']
    if not stacked:
      return None
    m = stacked[int(rng.randint(0, len(stacked)))]
    return xml[:m.start(4)] + '0.31 -0.07 0.02' + xml[m.end(4):]
  if feat == 'free-stiffness':
    m = pick(r'<freejoint name="(j\d+_f)"/>')
    if not m:
      return None
    return xml[:m.start()] + '<joint name="%s" type="free" stiffness="2.0"/>' % m.group(1) + xml[m.end():]
  if feat in ('site-transmission', 'gaintype', 'biastype'):
    mj_ = re.search(r'<joint name="(j\d+_\d+)"', xml)
    mb = re.search(r'<body name="b0"[^>]*>', xml)
    if feat == 'site-transmission':
      xml2 = xml[:mb.end()] + '<site name="s0" pos="0 0 0"/>' + xml[mb.end():]
      act = '<general site="s0" gear="1 0 0 0 0 0"/>'
    else:
      if not mj_:
        return None
      xml2 = xml
      act = ('<general joint="%s" gaintype="affine" gainprm="1 0.5 0"/>' % mj_.group(1)) if feat == 'gaintype' else \
            ('<general joint="%s" biastype="muscle" dyntype="none"/>' % mj_.group(1))
    if '<actuator>' in xml2:
      return xml2.replace('<actuator>', '<actuator>\n    ' + act, 1)
    return xml2.replace('</mujoco>', '  <actuator>\n    %s\n  </actuator>\n</mujoco>' % act)
  raise KeyError(feat)


def _try(xml):
  """'accepted' or the exception text, for each of load + 3 inits"""
  import jax.numpy as jp
  from brax.io import mjcf
  from brax.generalized import pipeline as g
  from brax.spring import pipeline as s
  from brax.positional import pipeline as p
  try:
    sys = mjcf.loads(xml)
  except Exception as e:      # noqa: BLE001
    return None, {'load': '%s: %s' % (type(e).__name__, str(e)[:80])}
  out = {}
  for nm, pl in (('generalized', g), ('spring', s), ('positional', p)):
    try:
      pl.init(sys, sys.init_q, jp.zeros(sys.qd_size()))
      out[nm] = 'accepted'
    except (NotImplementedError, RuntimeError) as e:
      out[nm] = '%s: %s' % (type(e).__name__, str(e)[:60])
    except Exception as e:      # noqa: BLE001
      out[nm] = 'CRASH %s: %s' % (type(e).__name__, str(e)[:60])
  return sys, out


def structural(sys, xml):
  """accepted model: counts, per-link joint types, parent-before-child, actuator ids, init_q vs the MuJoCo model compiled from the same XML"""
  import mujoco
  from brax.io import mjcf
  mj = mujoco.MjModel.from_xml_string(mjcf.fuse_bodies(xml))
  bad = []
  if sys.q_size() != mj.nq or sys.qd_size() != mj.nv:
    bad.append('nq/nv %s/%s vs %s/%s' % (sys.q_size(), sys.qd_size(), mj.nq, mj.nv))
  types = []
  for b in range(1, mj.nbody):
    js = [j for j in range(mj.njnt) if mj.jnt_bodyid[j] == b]
    types.append('f' if (len(js) == 1 and mj.jnt_type[js[0]] == 0) else str(len(js)))
  if ''.join(types) != sys.link_types:
    bad.append('link_types %s vs joints per body %s' % (sys.link_types, ''.join(types)))
  if any(p >= i for i, p in enumerate(sys.link_parents)):
    bad.append('parents not before children: %s' % (sys.link_parents,))
  if list(np.asarray(sys.link_parents)) != [int(mj.body_parentid[b]) - 1 for b in range(1, mj.nbody)]:
    bad.append('link_parents differ from body_parentid')
  if mj.nu:
    if list(np.asarray(sys.actuator.qd_id)) != [int(mj.jnt_dofadr[mj.actuator_trnid[i, 0]]) for i in range(mj.nu)]:
      bad.append('actuator qd_id')
    if list(np.asarray(sys.actuator.q_id)) != [int(mj.jnt_qposadr[mj.actuator_trnid[i, 0]]) for i in range(mj.nu)]:
      bad.append('actuator q_id')
  if not np.allclose(np.asarray(sys.init_q), mj.qpos0):
    bad.append('init_q != qpos0')
  return bad


def bounded(tier):
  def run():
    rng = np.random.RandomState(seed() + 41)
    n_clean, n_inj = (10, 30) if tier == 'quick' else (80, 300)
    evals = 0
    distinct = set()
    samples = []
    for k in range(n_clean):
      xml, meta = modelgen.generate(rng, modelgen.Spec())
      sys, out = _try(xml)
      evals += 1
      if sys is None or any(v != 'accepted' for v in out.values()):
        return Result(REFUTED, 'clean generator model rejected: %s' % out, witness={'xml': xml}, replay={'reproduced': True, 'outcome': out})
      bad = structural(sys, xml)
      if bad:
        return Result(REFUTED, 'accepted model inconsistent with source: %s' % bad, witness={'xml': xml}, replay={'reproduced': True, 'mismatch': bad})
      distinct.add(('clean', sys.link_types, meta['n_act']))
    tried = 0
    while evals < n_clean + n_inj and tried < 10 * n_inj:
      tried += 1
      xml, meta = modelgen.generate(rng, modelgen.Spec())
      feat = FEATURES[tried % len(FEATURES)]
      x2 = inject(xml, feat, rng)
      if x2 is None:
        continue
      sys, out = _try(x2)
      evals += 1
      acc = [k for k, v in out.items() if v == 'accepted' or v.startswith('CRASH')]
      if acc:
        return Result(REFUTED, 'feature %s injected but %s did not raise the unsupported-model error: %s' % (feat, acc, out),
                      witness={'feature': feat, 'xml': x2}, replay={'reproduced': True, 'outcome': out})
      distinct.add((feat, meta['n_links'], len(meta['joints'])))
      if len(samples) < 3:
        samples.append({'feature': feat, 'outcome': out})
    return Result(PROVED, 'bounded: %d documents (%d clean accepted + consistent, %d with one injected feature all rejected by load or by every init)'
                  % (evals, n_clean, evals - n_clean), stats={'evaluations': evals, 'distinct_nontrivial': len(distinct), 'samples': samples})
  return Obligation('C14/bounded/loads_init', 'brax.io.mjcf:loads,load_model + {generalized,spring,positional}.pipeline:init',
                    'BOUNDED: generated documents, clean => accepted by all three inits and nq, nv, link types, parent order, actuator ids, init_q agree with the '
                    'MuJoCo model; exactly one unsupported feature injected at a random eligible element => an error is raised (at load or at every init)',
                    run, backend='bounded', kind='bounded', budget=1500)


def obligations(tier):
  return [bounded(tier)]
