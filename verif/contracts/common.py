"""Shared helpers for contract files."""
from __future__ import annotations
import os
import time
from fractions import Fraction
import numpy as np

from verif.engine.alg import Z3Alg, RingAlg, FloatAlg, Unsupported, is_sym, isc, obj0, Poly
from verif.engine.oblig import (Obligation, Result, Sym, sym_call, smt_prove, smt_sat, ring_equal, eqs, combine,
                                PROVED, REFUTED, UNDECIDED, ERROR, jsonable)
from verif.engine.jaxsym import Interp
from verif.specs.sx import X, xs, raw


def seed():
  return int(os.environ.get('VERIF_SEED', '0') or 0)


def flat_leaves(tree):
  import jax
  out = []
  for l in jax.tree_util.tree_leaves(tree, is_leaf=lambda x: is_sym(x)):
    if isinstance(l, np.ndarray):
      out.append(l)
    else:
      out.append(np.asarray(l))
  return out


def flat_scalars(tree):
  out = []
  for l in flat_leaves(tree):
    out.extend(list(l.reshape(-1)))
  return out


def witness_arrays(wit, shapes, default=0.0):
  """model dict -> float arrays per input name"""
  out = {}
  for nm, shp in shapes.items():
    a = np.zeros(shp, dtype=float)
    for idx in np.ndindex(*shp):
      key = nm + ''.join('_%d' % i for i in idx)
      v = wit.get(key, default)
      a[idx] = float(v) if not isinstance(v, str) else default
    out[nm] = a
  return out


def rand_unit(rng, n):
  v = rng.normal(size=n)
  return v / np.linalg.norm(v)


def rational_unit(rng, n, bound=6):
  """exact rational point on the unit sphere S^(n-1) by stereographic projection"""
  t = [Fraction(int(rng.randint(-bound, bound + 1)), int(rng.randint(1, bound + 1))) for _ in range(n - 1)]
  s = sum(x * x for x in t)
  return [(s - 1) / (s + 1)] + [2 * x / (s + 1) for x in t]


def native_compare(fn, args, tol=1e-7):
  """run the law natively in float64: fn(*args) -> (lhs, rhs); returns (differs, lhs, rhs)"""
  import jax
  import jax.numpy as jnp
  lhs, rhs = fn(*[jnp.asarray(a) for a in args])
  l = np.concatenate([np.asarray(x, dtype=float).reshape(-1) for x in jax.tree_util.tree_leaves(lhs)])
  r = np.concatenate([np.asarray(x, dtype=float).reshape(-1) for x in jax.tree_util.tree_leaves(rhs)])
  if l.shape != r.shape:
    r = np.broadcast_to(r, l.shape) if r.size <= l.size else r
    l = np.broadcast_to(l, r.shape)
  scale = max(1.0, float(np.max(np.abs(l))) if l.size else 1.0, float(np.max(np.abs(r))) if r.size else 1.0)
  bad = bool(np.any(~np.isfinite(l)) or np.any(np.abs(l - r) > tol * scale))
  return bad, l, r


def law(oid, function, clause, fn, shapes, units=(), pre=None, backend='smt', kind='required', budget=120,
        tiers=('quick', 'thorough'), assumes=(), cuts=None, cut_targets=(), timeout=60, sampler=None,
        abstract_minmax=False, validate=True, ring_setup=None):
  """An obligation `lhs == rhs` where fn(*inputs) -> (lhs, rhs) is composed of REAL brax functions (and,
  for the right-hand side, possibly of spec arithmetic on the same inputs via `spec=`).

    shapes : {name: shape} float inputs, all symbolic
    units  : names constrained to the unit sphere
    pre    : (A, inputs: dict name->object array) -> list of extra preconditions (SMT only)
  """
  names = list(shapes)

  def sample(rng):
    vals = []
    for nm in names:
      if sampler and nm in sampler:
        vals.append(sampler[nm](rng))
      elif nm in units:
        vals.append(rand_unit(rng, int(np.prod(shapes[nm]))).reshape(shapes[nm]))
      else:
        vals.append(rng.uniform(-2, 2, shapes[nm]))
    return vals

  def run():
    from verif.engine.opaque import cut
    import contextlib
    rng = np.random.RandomState(seed() + 17)
    stats = {}
    with (cut(*cut_targets) if cut_targets else contextlib.nullcontext()):
      if backend == 'smt':
        A = Z3Alg(abstract_minmax=abstract_minmax)
        ins = {nm: A.arr(nm, shapes[nm]) for nm in names}
        P = []
        for u in units:
          P.append(sum_sq(A, ins[u]) == 1)
        if pre:
          P += list(pre(A, ins))
        I = Interp(A, cuts=cuts)
        t0 = time.time()
        lhs, rhs = sym_call(I, fn, *[Sym(ins[nm]) for nm in names])
        stats['interp_s'] = round(time.time() - t0, 3)
        stats['eqns'] = I.stats['eqns']
        goal = eqs(A, np.array(flat_scalars(lhs), dtype=object), np.array(flat_scalars(rhs), dtype=object))
        r = smt_prove(A, P, goal, timeout_s=timeout, seed=seed())
        r.stats.update(stats)
        if r.verdict == REFUTED and r.witness is not None:
          args = [witness_arrays(r.witness, {nm: shapes[nm]})[nm] for nm in names]
          try:
            bad, l, rr = native_compare(fn, args)
            r.replay = {'reproduced': bad, 'inputs': {nm: a.tolist() for nm, a in zip(names, args)},
                        'lhs': l.tolist(), 'rhs': rr.tolist()}
          except Exception as e:      # noqa: BLE001
            r.replay = {'reproduced': False, 'error': str(e)}
          if not r.replay.get('reproduced'):
            _search(r, fn, sample, rng)
        return r
      elif backend == 'ring':
        A = RingAlg()
        ins = {nm: A.arr(nm, shapes[nm]) for nm in names}
        for u in units:
          A.unit(list(ins[u].reshape(-1)))
        if ring_setup:
          ring_setup(A, ins)
        I = Interp(A, cuts=cuts)
        t0 = time.time()
        lhs, rhs = sym_call(I, fn, *[Sym(ins[nm]) for nm in names])
        stats['interp_s'] = round(time.time() - t0, 3)
        stats['eqns'] = I.stats['eqns']
        r = ring_equal(A, np.array(flat_scalars(lhs), dtype=object), np.array(flat_scalars(rhs), dtype=object), name=oid)
        r.stats.update(stats)
        if A.hints_used:
          r.stats['branch_hints'] = sorted({'%s := %s (%s)' % h for h in A.hints_used})
        if I.side_notes:
          r.stats['cut_side_conditions'] = sorted(set(I.side_notes))
        if r.verdict == REFUTED:
          _search(r, fn, sample, rng)
        return r
      raise ValueError(backend)

  def run_validated():
    r = run()
    if validate and r.verdict in (PROVED, REFUTED):
      ok, det = validate_interp(fn, [np.zeros(shapes[nm]) for nm in names], cut_targets)
      r.stats['self_validation'] = det
      if not ok:
        return Result(ERROR, 'interpreter self-validation failed: ' + det)
    return r

  return Obligation(oid, function, clause, run_validated, backend=backend, kind=kind, budget=budget, tiers=tiers,
                    assumes=tuple(assumes))


def _search(r, fn, sample, rng, tries=300):
  """bounded native search for a failing input on the constraint variety (DESIGN 6.3)"""
  for _ in range(tries):
    args = sample(rng)
    try:
      bad, l, rr = native_compare(fn, args)
    except Exception:      # noqa: BLE001
      continue
    if bad:
      r.replay = {'reproduced': True, 'inputs': [np.asarray(a).tolist() for a in args], 'lhs': l.tolist(),
                  'rhs': rr.tolist(), 'found_by': 'native search on the constraint variety'}
      return
  if r.replay is None:
    r.replay = {'reproduced': False}


def validate_interp(fn, example, cut_targets=(), k=2):
  """the interpreter, run with the float algebra, must agree with JAX's execution of the same code"""
  if cut_targets:
    return True, 'skipped (cut callees are not executable)'
  import jax
  from verif.engine.jaxsym import self_validate

  def flat(*a):
    return jax.tree_util.tree_leaves(fn(*a))
  try:
    return self_validate(flat, example, k=k, seed=seed())
  except Unsupported as e:
    return True, 'skipped: %s' % e


def sum_sq(A, arr):
  s = 0
  for e in np.asarray(arr, dtype=object).reshape(-1):
    s = A.add(s, A.mul(e, e))
  return s


def spec_rhs(A_of, fn_lhs, spec):
  """helper to build law functions whose rhs is spec arithmetic: not traceable, so handled by
  callers that compare sym_call output with spec(A, inputs) directly."""
  raise NotImplementedError


def smt_custom(oid, function, clause, body, kind='required', budget=120, tiers=('quick', 'thorough'), assumes=(),
               timeout=60, cut_targets=(), abstract_minmax=False, backend='smt', abstract=False, split_first=False):
  """body(A) -> (pre, goal) or (pre, goal, replay) with replay(witness) -> dict(reproduced=..., ...).
  `goal` may be a list of z3 formulas (conjunction)."""
  def run():
    from verif.engine.opaque import cut
    import contextlib
    with (cut(*cut_targets) if cut_targets else contextlib.nullcontext()):
      A = Z3Alg(abstract_minmax=abstract_minmax)
      t0 = time.time()
      out = body(A)
      pre, goal = out[0], out[1]
      rep = out[2] if len(out) > 2 else None
      ti = time.time() - t0
      r = smt_prove(A, pre, goal, timeout_s=timeout, seed=seed(), abstract=abstract, split_first=split_first)
      r.stats['interp_s'] = round(ti, 3)
    if r.verdict == REFUTED:          # native replay with the cuts removed
      if rep is not None:
        try:
          r.replay = rep(r.witness)
        except Exception as e:      # noqa: BLE001
          r.replay = {'reproduced': False, 'error': '%s: %s' % (type(e).__name__, e)}
      else:
        r.replay = {'reproduced': False}
    return r
  return Obligation(oid, function, clause, run, backend=backend, kind=kind, budget=budget, tiers=tiers, assumes=tuple(assumes))


def by_name(fn, names):
  """private helpers are called by parameter NAME (their argument order is not part of any contract): returns a function taking the arguments in the order of `names`
  and forwarding them as keywords when fn has exactly those parameters, positionally otherwise"""
  import inspect
  try:
    params = set(inspect.signature(fn).parameters)
  except (TypeError, ValueError):
    params = set()
  if set(names) <= params:
    def call(*args):
      return fn(**dict(zip(names, args)))
  else:
    def call(*args):
      return fn(*args)
  call.__name__ = getattr(fn, '__name__', 'fn')
  return call


def side_conditions(A):
  """definedness side conditions collected by the SMT algebra as one list of formulas"""
  return [c for _, c in A.side]


def fl(x):
  """Fraction/int -> float for replays"""
  return float(x)


import jax as _jax


@_jax.tree_util.register_pytree_node_class
class Stub:
  """pytree stand-in for `System`-like arguments: keyword children are pytree children, `static` entries are
  attributes closed over (callables allowed: sys.act_size() ...)."""

  def __init__(self, static=None, **children):
    self.__dict__['_children'] = dict(children)
    self.__dict__['_static'] = dict(static or {})
    self.__dict__.update(children)
    self.__dict__.update(self._static)

  def tree_flatten(self):
    keys = sorted(self._children)
    return [self._children[k] for k in keys], (tuple(keys), tuple(sorted(self._static.items(), key=lambda kv: kv[0])))

  @classmethod
  def tree_unflatten(cls, aux, children):
    keys, static = aux
    return cls(static=dict(static), **dict(zip(keys, children)))

  def replace(self, **kw):
    ch = dict(self._children)
    st = dict(self._static)
    for k, v in kw.items():
      (ch if k in ch else st)[k] = v
    return Stub(static=st, **ch)


def engine_selfcheck(oid, function, fn_builder, budget=600, k=2):
  """Interpreter self-validation on the very jaxprs a property relies on: the same Engine J interpreter, instantiated with the float algebra, is run on k random
  inputs and must agree with JAX's own execution of the real function.  A mismatch is an ENGINE ERROR (never a violation)."""
  def run():
    import jax
    from verif.engine.jaxsym import self_validate
    fn, example = fn_builder()

    def flat(*a):
      return jax.tree_util.tree_leaves(fn(*a))
    ok, det = self_validate(flat, example, k=k, seed=seed(), rtol=1e-7, atol=1e-9)
    if ok:
      return Result(PROVED, 'Engine J (float algebra) = JAX on %s: %s' % (function, det), stats={'samples': k})
    return Result(ERROR, 'interpreter self-validation failed on %s: %s' % (function, det))
  return Obligation(oid, function, 'ENGINE SELF-VALIDATION (not a property clause): the jaxpr interpreter run with floats reproduces JAX on this function', run, backend='float-interp', budget=budget)
