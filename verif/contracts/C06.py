"""C06 -- contacts and joint limits are inert until reached; contacts only push.  (contact helpers first; obligations below)"""
from __future__ import annotations
import numpy as np
import jax
import jax.numpy as jp
from verif.engine.oblig import Sym


class SymContact:
  pass


def sym_contact(A, n, link_idx, prefix='c'):
  """an arbitrary contact set of n contacts between the given links: the assumed contract of contact.get / mjx.collision"""
  from brax.base import Contact
  c = SymContact()
  c.dist, c.pos, c.frame = A.arr(prefix + 'dist', (n,)), A.arr(prefix + 'pos', (n, 3)), A.arr(prefix + 'frame', (n, 3, 3))
  c.friction, c.elasticity = A.arr(prefix + 'fric', (n, 5)), A.arr(prefix + 'el', (n,))
  c.obj = Contact(dist=Sym(c.dist), pos=Sym(c.pos), frame=Sym(c.frame), includemargin=jp.zeros((n,)), friction=Sym(c.friction),
                  solref=jp.zeros((n, 2)), solreffriction=jp.zeros((n, 2)), solimp=jp.zeros((n, 5)), dim=np.full((n,), 3), geom1=np.zeros((n,), dtype=int),
                  geom2=np.ones((n,), dtype=int), geom=np.zeros((n, 2), dtype=int), efc_address=np.zeros((n,), dtype=int),
                  link_idx=(jp.asarray(link_idx[0]), jp.asarray(link_idx[1])), elasticity=Sym(c.elasticity))
  c.pre = []
  for k in range(n):
    c.pre.append(sum(c.frame[k, 0, i] * c.frame[k, 0, i] for i in range(3)) == 1)
    c.pre += [c.friction[k, 0] >= 0, c.elasticity[k] >= 0]
  return c


def obligations(tier):
  return []
