"""C06 -- contacts and joint limits are inert until reached; contacts only push.  (contact helpers first; obligations below)"""
from __future__ import annotations
import numpy as np
import jax
import jax.numpy as jp
from verif.engine.oblig import Sym


class SymContact:
  pass


def sym_contact(A, n, link_idx, prefix='c'):
  """an arbitrary contact set of n contacts between the given links: the assumed contract of contact.get / mjx.collision"""
  from brax.base import Contact
  c = SymContact()
  c.dist, c.pos, c.frame = A.arr(prefix + 'dist', (n,)), A.arr(prefix + 'pos', (n, 3)), A.arr(prefix + 'frame', (n, 3, 3))
  c.friction, c.elasticity = A.arr(prefix + 'fric', (n, 5)), A.arr(prefix + 'el', (n,))
  c.margin = A.arr(prefix + 'margin', (n,))      # geom margin - gap: ANY value (unused by the pinned tree; a kernel that starts to read it must still satisfy the clauses)
  c.obj = Contact(dist=Sym(c.dist), pos=Sym(c.pos), frame=Sym(c.frame), includemargin=Sym(c.margin), friction=Sym(c.friction),
                  solref=jp.zeros((n, 2)), solreffriction=jp.zeros((n, 2)), solimp=jp.zeros((n, 5)), dim=np.full((n,), 3), geom1=np.zeros((n,), dtype=int),
                  geom2=np.ones((n,), dtype=int), geom=np.zeros((n, 2), dtype=int), efc_address=np.zeros((n,), dtype=int),
                  link_idx=(jp.asarray(link_idx[0]), jp.asarray(link_idx[1])), elasticity=Sym(c.elasticity))
  c.pre = []
  for k in range(n):
    c.pre.append(sum(c.frame[k, 0, i] * c.frame[k, 0, i] for i in range(3)) == 1)
    c.pre += [c.friction[k, 0] >= 0, c.elasticity[k] >= 0]
  return c




# =====================================================================================================================================
from fractions import Fraction
from verif.contracts.common import (Obligation, Result, sym_call, Interp, Z3Alg, RingAlg, smt_prove, combine, smt_custom, ring_equal,
                                    PROVED, REFUTED, UNDECIDED, ERROR, is_sym, isc, seed)
from verif.contracts import cuts, physsys

LEVEL = 'other'
EXPECTED_MIN = {'quick': 14, 'thorough': 16}
EXPLANATION = ('PROVED (z3, relational where noted; transcendental frame helpers cut as uninterpreted functions shared by both runs): joint limits that are not reached '
               'change nothing in the spring joint kernels and in the positional joint update (limited model vs the same model without any limit); generalized limit and '
               'contact rows are masked to zero when not violated and a zero constraint jacobian gives zero constraint force for any solver output; contacts with '
               'dist >= 0 produce exactly zero update in the spring and positional contact resolution; link rotations returned by a step are unit (each is the output of a '
               'normalisation of a non-zero quaternion) with and without contacts; a resting penetrating body is only pushed along the normal; a central normal impact of a body on the world (sphere on the ground, at ANY position) leaves with elasticity x impact speed -- positional: within 0.3 % and never overshooting, spring: exactly -e v_n plus the Baumgarte push-out term -- and creates no lateral velocity or spin.  BOUNDED (the only evidence '
               'for the history clauses): separated scene vs collisions disabled, limits removed vs inside limits, resting height / sinking / rebound ratio over drop histories.')
TRUSTED = ['kinematics.link_to_joint_frame / axis_angle_ang / math.signed_angle / safe_norm as uninterpreted functions (same function in both runs)',
           'contact.get / mjx.collision cut: any contact set', 'jaxopt.ProjectedGradient cut: returns some vector']
ASSUMPTIONS = ['exact reals', 'resting height, sinking depth and rebound ratio are properties of iterated float dynamics: bounded stand-in only',
               'generalized solver convergence is not claimed']
BOUNDED_RULE = 'scenes (generator models with geoms + plane; drop tests) x pipelines; non-trivial = distinct (scene, pipeline, clause)'

UFCUTS = ('brax.kinematics:link_to_joint_frame', 'brax.kinematics:axis_angle_ang', 'brax.math:safe_norm')


def _link_dof(A, nd, kinds, limit):
  """single-link arguments of the spring kernels; kinds: string over h/s per dof"""
  from brax.base import Link, DoF, Transform, Motion, Inertia
  z = jp.zeros(())
  T0 = Transform(pos=jp.zeros(3), rot=jp.array([1.0, 0, 0, 0]))
  raw = {k: A.var(k) for k in ('ks', 'kv', 'kl', 'ka')}
  link = Link(transform=T0, joint=T0, inertia=Inertia(transform=T0, i=jp.eye(3), mass=jp.ones(())), invweight=z,
              constraint_stiffness=Sym(raw['ks']), constraint_vel_damping=Sym(raw['kv']), constraint_limit_stiffness=Sym(raw['kl']), constraint_ang_damping=Sym(raw['ka']))
  ang = np.empty((nd, 3), dtype=object)
  vel = np.empty((nd, 3), dtype=object)
  for k, c in enumerate(kinds):
    ax = list(A.arr('ax%d' % k, (3,)))
    ang[k], vel[k] = (ax, [0, 0, 0]) if c == 'h' else ([0, 0, 0], ax)
  lo, hi = A.arr('lo', (nd,)), A.arr('hi', (nd,))
  mk = lambda lim: DoF(motion=Motion(ang=Sym(ang), vel=Sym(vel)), armature=jp.zeros(nd), stiffness=jp.zeros(nd), damping=jp.zeros(nd),
                       limit=(Sym(lo), Sym(hi)) if lim else None, invweight=jp.zeros(nd), solver_params=jp.zeros((nd, 7)))
  j = Transform(pos=Sym(A.arr('jpos', (3,))), rot=Sym(A.arr('jrot', (4,))))
  jd = Motion(ang=Sym(A.arr('jda', (3,))), vel=Sym(A.arr('jdv', (3,))))
  tau = Sym(A.arr('tau', (nd,)))
  raw.update(lo=lo, hi=hi, ang=ang, vel=vel, jpos=j.pos.arr)
  return link, j, jd, mk, tau, raw


def spring_limits_inert(kinds, tiers):
  nd = len(kinds)

  def run():
    import z3
    from verif.engine.opaque import cut
    from brax.spring import joints
    A = Z3Alg()
    link, j, jd, mk, tau, raw = _link_dof(A, nd, kinds, True)
    from verif.contracts.common import by_name
    fn = by_name({1: joints._one_dof, 2: joints._two_dof, 3: joints._three_dof}[nd], ('link', 'j', 'jd', 'dof', 'tau'))
    H = {t: cuts.uf_handler(t.split(':')[1]) for t in UFCUTS}
    with cut(*UFCUTS):
      I1 = Interp(A, cuts=H)
      f_lim = sym_call(I1, fn, link, j, jd, mk(True), tau)
      I2 = Interp(A, cuts=H)
      f_no = sym_call(I2, fn, link, j, jd, mk(False), tau)
    # the joint coordinates, as the kernel computes them: angles = outputs 3..5 of axis_angle_ang; slide coordinate = j.pos . axis
    aa = [c for c in I1.calls if c[0].endswith('axis_angle_ang')]
    if len(aa) != 1:
      return Result(UNDECIDED, 'expected one axis_angle_ang call, found %d' % len(aa))
    angles = [aa[0][3][3 + k].item() for k in range(3)]
    jf = [c for c in I1.calls if c[0].endswith('link_to_joint_frame')]
    jf_vel = jf[0][3][1]                 # joint_frame.vel (3,3), as the kernel sees it
    pre = []
    for k, c in enumerate(kinds):
      if c == 'h':
        coords = [angles[k]]
      else:
        # the kernels read the slide coordinate as j.pos . joint_frame.vel[0] (1-dof) or j.pos . motion.vel[k] (2/3-dof)
        coords = [sum(raw['jpos'][i] * raw['vel'][k][i] for i in range(3))]
        if nd == 1:
          coords.append(sum(raw['jpos'][i] * jf_vel[0][i] for i in range(3)))
      for coord in coords:
        pre += [raw['lo'][k] <= coord, coord <= raw['hi'][k]]
      axk = raw['ang'][k] if c == 'h' else raw['vel'][k]
      pre.append(sum(e * e for e in axk) == 1)            # load_model: joint axes are unit vectors
    goal = [a == b for a, b in zip(list(f_lim.ang) + list(f_lim.vel), list(f_no.ang) + list(f_no.vel))]
    r = smt_prove(A, pre, goal, timeout_s=120, seed=seed())
    if r.verdict == REFUTED:
      r.replay = _native_limits('spring')
    return r
  return Obligation('C06/spring._%s_dof/limits_inert[%s]' % ({1: 'one', 2: 'two', 3: 'three'}[nd], kinds), 'brax.spring.joints:_%s_dof' % {1: 'one', 2: 'two', 3: 'three'}[nd],
                    'relational: with every joint coordinate inside [lo, hi], the kernel with dof.limit = (lo, hi) returns exactly the force it returns with dof.limit = None, '
                    'for all link parameters, states and controls', run, backend='smt', tiers=tiers, budget=400)


def positional_limits_inert(word, tiers):
  def run():
    import z3
    from verif.engine.opaque import cut
    from brax.positional import joints
    from brax.base import Transform
    A = Z3Alg()
    sys = physsys.load(physsys.xml_world_root(word))
    nv = sys.qd_size()
    lo, hi = A.arr('lo', (nv,)), A.arr('hi', (nv,))
    # symbolic joint axes with load_model's structure (hinge: vel = 0, slide: ang = 0)
    c_ang = np.asarray(sys.dof.motion.ang)
    ang = np.empty((nv, 3), dtype=object)
    vel = np.empty((nv, 3), dtype=object)
    RAT = [[Fraction(3, 5), Fraction(4, 5), 0], [0, Fraction(3, 5), Fraction(4, 5)], [Fraction(4, 5), 0, Fraction(3, 5)]]
    for k in range(nv):
      if np.any(c_ang[k] != 0):
        ax = list(A.arr('ax%d' % k, (3,)))
        ang[k], vel[k] = ax, [0, 0, 0]
      else:
        # slide axes are instantiated at exact rational unit vectors: `motion.vel.any()` then selects between 0 and +-inf limits concretely
        ang[k], vel[k] = [0, 0, 0], RAT[k]
    mot = sys.dof.motion.replace(ang=Sym(ang), vel=Sym(vel))
    sysL = sys.replace(dof=sys.dof.replace(motion=mot, limit=(Sym(lo), Sym(hi))))
    sysN = sys.replace(dof=sys.dof.replace(motion=mot, limit=None))
    j = Transform(pos=Sym(A.arr('jpos', (1, 3))), rot=Sym(A.arr('jrot', (1, 4))))
    targets = UFCUTS + ('brax.math:normalize', 'brax.math:signed_angle', 'brax.math:quat_rot_axis', 'brax.math:rotate')
    H = {t: cuts.uf_handler(t.split(':')[1]) for t in targets}

    def f(s, jj):
      return jax.vmap(joints._three_dof_joint_update)(jj, *joints._sphericalize(s, jj))
    with cut(*targets):
      I1 = Interp(A, cuts=H)
      dL = sym_call(I1, f, sysL, j)
      I2 = Interp(A, cuts=H)
      dN = sym_call(I2, f, sysN, j)
    # joint coordinates as the update computes them: ph_k = k-th signed_angle (UF) ; slide: motion.vel . x.pos
    sa = [c for c in I1.calls if c[0].endswith('signed_angle')]
    pre = []
    ph = sa[0][3][0].reshape(-1) if sa else []
    for k in range(nv):
      if np.any(c_ang[k] != 0):
        pre += [lo[k] <= ph[k], ph[k] <= hi[k]]
      else:
        xp = sum(vel[k][i] * j.pos.arr[0][i] for i in range(3))
        pre += [lo[k] <= xp, xp <= hi[k]]
    goal = [a == b for a, b in zip(list(dL.pos.reshape(-1)) + list(dL.rot.reshape(-1)), list(dN.pos.reshape(-1)) + list(dN.rot.reshape(-1)))]
    r = smt_prove(A, pre, goal, timeout_s=200, seed=seed())
    if r.verdict == REFUTED:
      r.replay = _native_limits('positional')
    return r
  return Obligation('C06/positional._sphericalize+_three_dof_joint_update/limits_inert[%s]' % word, 'brax.positional.joints:_sphericalize,_three_dof_joint_update',
                    'relational: the joint position update of a model whose joints all have (unreached) limits equals that of the same model with no limit at all -- '
                    'in particular the padded (inactive) axes are frozen in both', run, backend='smt', tiers=tiers, budget=600)


TWO_HINGE = '''<mujoco><compiler angle="radian"/><option timestep="0.005" gravity="0 0 -9.81"/><worldbody>
<body name="a" pos="0 0 1" quat="0.9238795 0.3826834 0 0"><joint name="j0" type="hinge" axis="0 1 0" %s/><geom type="capsule" size="0.04 0.2" pos="0.2 0 0" quat="0.7071 0 0.7071 0" contype="0" conaffinity="0"/>
 <body name="b" pos="0.4 0 0"><joint name="j1" type="hinge" axis="0 0.6 0.8" %s/><geom type="capsule" size="0.04 0.2" pos="0.2 0 0" quat="0.7071 0 0.7071 0" contype="0" conaffinity="0"/></body>
</body></worldbody></mujoco>'''


def _native_limits(pipeline, steps=20):
  """the same 2-hinge model with a never-reached +-3 rad range vs without any range"""
  import importlib
  from brax.io import mjcf
  pl = importlib.import_module('brax.%s.pipeline' % pipeline)
  lim = 'limited="true" range="-3 3"'
  out = []
  for xml in (TWO_HINGE % (lim, lim), TWO_HINGE % ('', '')):
    sys = mjcf.loads(xml)
    st = pl.init(sys, jp.array([0.3, -0.2]), jp.array([0.5, -0.4]))
    step = jax.jit(pl.step)
    for _ in range(steps):
      st = step(sys, st, jp.zeros(0))
    out.append(np.asarray(st.q))
  d = float(np.abs(out[0] - out[1]).max())
  if d > 1e-6:
    return {'reproduced': True, 'q_with_unreached_limits': out[0].tolist(), 'q_without_limits': out[1].tolist(), 'max_difference': d, 'steps': steps,
            'pipeline': pipeline, 'model': 'two hinges, range +-3 rad never reached'}
  # a slide joint whose range does NOT contain 0 (a telescopic link), coordinate well inside the range, a few steps without gravity
  tele = ('<mujoco><compiler angle="radian"/><option timestep="0.002" gravity="0 0 0"/><worldbody><body name="a" pos="0 0 1"><freejoint/><geom size="0.1"/>'
          '<body name="b" pos="0.3 0 0"><joint type="slide" axis="1 0 0" %s/><geom size="0.05" pos="0.1 0.05 0"/></body></body></worldbody></mujoco>')
  out2 = []
  for xml in (tele % 'limited="true" range="0.2 0.8"', tele % ''):
    sys = mjcf.loads(xml)
    q0 = jp.concatenate([sys.init_q[:7], jp.array([0.5])])
    st = pl.init(sys, q0, jp.zeros(7))
    step = jax.jit(pl.step)
    for _ in range(3):
      st = step(sys, st, jp.zeros(0))
    out2.append(np.concatenate([np.asarray(st.x.rot).reshape(-1), np.asarray(st.q)]))
  d2 = float(np.abs(out2[0] - out2[1]).max())
  return {'reproduced': d2 > 1e-7, 'max_difference': max(d, d2), 'telescope_state_with_unreached_range_0.2_0.8': out2[0].tolist(), 'telescope_state_without_range': out2[1].tolist(), 'steps': steps,
          'pipeline': pipeline, 'model': 'two hinges (range +-3 rad never reached) and a telescopic slide (range 0.2..0.8, q = 0.5)'}


def contact_inert(pipeline, ncon, tiers):
  def run():
    import z3
    from verif.engine.opaque import cut
    from verif.contracts import C04
    import brax.contact as bc
    A = Z3Alg()
    xml = ('<mujoco><worldbody><body name="a" pos="0 0 1"><freejoint/><geom size="0.1"/></body>'
           '<body name="b" pos="0.5 0 1"><freejoint/><geom size="0.1"/></body></worldbody></mujoco>')
    sys = physsys.load(xml)
    st, raw = C04.sym_pipeline_state(A, sys, pipeline)
    c = sym_contact(A, ncon, link_idx=(np.array([0, -1][:ncon] if ncon <= 2 else [0, -1, 0]), np.array([1, 0][:ncon] if ncon <= 2 else [1, 0, 1])))
    pre = list(c.pre) + [d >= 0 for d in c.dist] + [raw['mass'][i] > 0 for i in range(2)]
    I = Interp(A, cuts={'brax.math:safe_norm': cuts.uf_handler('safe_norm'), 'brax.com:inv_inertia': cuts.uf_handler('inv_inertia'), 'brax.math:normalize': cuts.uf_handler('normalize')})
    if pipeline == 'spring':
      from brax.spring import collisions
      real_get = bc.get

      def f(s, cc):
        bc.get = lambda sys_, x_: cc
        try:
          return collisions.resolve(sys, s)
        finally:
          bc.get = real_get
      with cut('brax.math:safe_norm'):
        xdv = sym_call(I, f, st, c.obj)
      goal = [e == 0 for e in list(xdv.vel.reshape(-1)) + list(xdv.ang.reshape(-1))]
    else:
      from brax.positional import collisions
      from brax.base import Transform, Motion
      prev = Transform(pos=Sym(A.arr('pp', (2, 3))), rot=Sym(A.arr('pr', (2, 4))))
      xdprev = Motion(ang=Sym(A.arr('pa', (2, 3))), vel=Sym(A.arr('pv', (2, 3))))
      sysm = C04.with_sym_mass(sys, raw['mass'])
      with cut('brax.math:safe_norm', 'brax.com:inv_inertia'):
        (x_i, dl), xdv = sym_call(I, lambda ss_, s, p, xp, cc: (lambda r: (r, collisions.resolve_velocity(ss_, s, xp, cc, r[1])))(_resolve_pos_raw(collisions, ss_, s, p, cc)), sysm, st, prev, xdprev, c.obj)
      goal = [a == b for a, b in zip(x_i.pos.reshape(-1), raw['pos'].reshape(-1))] + [e == 0 for e in dl.reshape(-1)]
      goal += [e == 0 for e in list(xdv.vel.reshape(-1)) + list(xdv.ang.reshape(-1))]
    r = smt_prove(A, pre, goal, timeout_s=200, seed=seed(), split_first=(pipeline == 'positional'))
    if r.verdict == REFUTED:
      r.replay = _native_separated(pipeline)
    return r
  return Obligation('C06/%s.collisions/inert[%d contacts]' % (pipeline, ncon), 'brax.%s.collisions:resolve%s' % (pipeline, '' if pipeline == 'spring' else '_position,resolve_velocity'),
                    'every candidate contact has dist >= 0  =>  the contact resolution changes nothing (zero delta-velocity; positions unchanged and dlambda = 0), for any contact '
                    'geometry, friction, elasticity and state (contacts with the world included)', run, backend='smt', tiers=tiers, budget=900)


def _resolve_pos_raw(collisions, sys, s, p, cc):
  """resolve_position with the final quaternion renormalisation left to the caller's obligation (positions and dlambda are compared)"""
  return collisions.resolve_position(sys, s, p, cc)


def _native_separated(pipeline):
  import importlib
  from brax.io import mjcf
  pl = importlib.import_module('brax.%s.pipeline' % pipeline)
  base = ('<mujoco><option timestep="0.004"/><worldbody><geom name="floor" type="plane" size="5 5 0.1" %s/>'
          '<body name="a" pos="0 0 1.0" quat="0.8 0.6 0 0"><freejoint/><geom type="capsule" size="0.08 0.15" %s/>'
          '<body name="b" pos="0.3 0 0.1"><joint type="hinge" axis="0 1 0"/><geom size="0.1" pos="0.2 0 0" %s/></body></body></worldbody></mujoco>')
  off = 'contype="0" conaffinity="0"'
  outs = []
  for attrs in (('', '', ''), (off, off, off)):
    sys = mjcf.loads(base % attrs)
    st = pl.init(sys, sys.init_q, jp.array([0.3, 0, 0, 0.2, 0.5, 0, 1.0]))
    for _ in range(3):
      st = jax.jit(pl.step)(sys, st, jp.zeros(0))
    outs.append(np.concatenate([np.asarray(st.q), np.asarray(st.qd)]))
  d = float(np.abs(outs[0] - outs[1]).max())
  if d > 1e-9:
    return {'reproduced': True, 'max_difference_separated_vs_no_collision_geometry': d, 'pipeline': pipeline}
  # a sphere 5 mm above the ground whose geoms carry a 3 cm MuJoCo margin: separated (distance > 0) but inside the margin
  base2 = ('<mujoco><option timestep="0.004" gravity="0 0 0"/><worldbody><geom name="floor" type="plane" size="5 5 0.1" margin="0.03" %s/>'
           '<body name="a" pos="0 0 0.105"><freejoint/><geom type="sphere" size="0.1" margin="0.03" %s/></body></worldbody></mujoco>')
  outs2 = []
  for attrs in (('', ''), (off, off)):
    sys = mjcf.loads(base2 % attrs)
    st = pl.init(sys, sys.init_q, jp.array([0.1, 0, 0, 0, 0.2, 0]))
    for _ in range(2):
      st = jax.jit(pl.step)(sys, st, jp.zeros(0))
    outs2.append(np.concatenate([np.asarray(st.q), np.asarray(st.qd)]))
  d2 = float(np.abs(outs2[0] - outs2[1]).max())
  return {'reproduced': d2 > 1e-9, 'max_difference_separated_vs_no_collision_geometry': max(d, d2), 'pipeline': pipeline,
          'scene': 'sphere r=0.1 at z=0.105 over a plane, geom margin 0.03, no gravity, 2 steps: with collision geometry vs contype=conaffinity=0',
          'state_with': outs2[0].tolist(), 'state_without': outs2[1].tolist()}


def generalized_masks():
  def body(A):
    import z3
    from verif.engine.opaque import cut
    from brax.generalized import constraint
    sys = physsys.load(physsys.xml_world_root('hs'))
    nv = sys.qd_size()
    lo, hi = A.arr('lo', (nv,)), A.arr('hi', (nv,))
    q, qd = A.arr('q', (nv,)), A.arr('qd', (nv,))
    sp = A.arr('sp', (nv, 7))
    sysL = sys.replace(dof=sys.dof.replace(limit=(Sym(lo), Sym(hi)), solver_params=Sym(sp), invweight=Sym(A.arr('iw', (nv,)))))
    from verif.contracts.common import Stub
    state = Stub(q=Sym(q), qd=Sym(qd))
    def h_imp(I_, P, ins):
      # VERIFIED contract (C06/generalized.constraint._imp_aref/range): dmin <= dmax  =>  dmin <= imp <= dmax
      outs = cuts.uf_handler('imp_aref')(I_, P, ins)
      prm = I_.lift(ins[0])
      for b in range(prm.shape[0]):
        A.assume += [outs[0][b] >= prm[b][2], outs[0][b] <= prm[b][3]]
      return outs
    with cut('brax.generalized.constraint:_imp_aref'):
      I = Interp(A, cuts={'brax.generalized.constraint:_imp_aref': h_imp})
      jac, diag, aref = sym_call(I, constraint.jac_limit, sysL, state)
    pre = [z3.And(sp[k][2] > 0, sp[k][2] <= sp[k][3]) for k in range(nv)]
    goal = []
    for k in range(nv):
      inside = z3.And(lo[k] <= q[k], q[k] <= hi[k])
      row0 = z3.And(*[jac[k][c] == 0 for c in range(nv)] + [diag[k] == 0, aref[k] == 0])
      goal.append(z3.Implies(inside, row0))
    return pre, goal
  return smt_custom('C06/generalized.constraint.jac_limit/masked', 'brax.generalized.constraint:jac_limit',
                    'lo <= q_k <= hi  =>  row k of the limit jacobian, its diagonal regulariser and its reference acceleration are exactly 0 (any solver parameters)', body,
                    cut_targets=())


def generalized_contact_masks():
  def body(A):
    import z3
    from verif.engine.opaque import cut
    from brax.generalized import constraint
    from brax.base import Motion, Transform
    from verif.contracts.common import Stub
    import brax.contact as bc
    xml = ('<mujoco><worldbody><geom name="floor" type="plane" size="5 5 0.1"/><body name="a" pos="0 0 1"><joint type="hinge" axis="0 1 0"/><geom size="0.1" pos="0.3 0 0"/>'
           '<body name="b" pos="0.5 0 0"><joint type="slide" axis="1 0 0"/><geom size="0.08"/></body></body></worldbody></mujoco>')
    sys = physsys.load(xml)
    n, nv, ncon = sys.num_links(), sys.qd_size(), 2
    c = sym_contact(A, ncon, link_idx=(np.array([-1, 0]), np.array([0, 1])))
    solref, solimp = A.arr('solref', (ncon, 2)), A.arr('solimp', (ncon, 5))
    cobj = c.obj.replace(solref=Sym(solref), solimp=Sym(solimp))
    state = Stub(x=Transform(pos=Sym(A.arr('xp', (n, 3))), rot=Sym(A.arr('xr', (n, 4)))), root_com=Sym(A.arr('rc', (n, 3))),
                 cdof=Motion(ang=Sym(A.arr('da', (nv, 3))), vel=Sym(A.arr('dv', (nv, 3)))), qd=Sym(A.arr('qd', (nv,))))
    sysL = sys.replace(link=sys.link.replace(invweight=Sym(A.arr('iw', (n,)))))

    def h_imp(I_, P, ins):
      # VERIFIED contract (C06/generalized.constraint._imp_aref/range): dmin <= dmax  =>  dmin <= imp <= dmax
      outs = cuts.uf_handler('imp_aref')(I_, P, ins)
      prm = I_.lift(ins[0])
      rows = prm.reshape((-1, prm.shape[-1]))
      o0 = np.asarray(outs[0], dtype=object).reshape((rows.shape[0], -1))
      for b in range(rows.shape[0]):
        for e in o0[b]:
          A.assume += [e >= rows[b][2], e <= rows[b][3]]
      return outs
    real_get = bc.get

    def f(ss_, st_, cc):
      constraint.contact.get = lambda s_, x_: cc
      try:
        return constraint.jac_contact(ss_, st_)
      finally:
        constraint.contact.get = real_get
    with cut('brax.generalized.constraint:_imp_aref'):
      I = Interp(A, cuts={'brax.generalized.constraint:_imp_aref': h_imp})
      jac, diag, aref = sym_call(I, f, sysL, state, cobj)
    pre = list(c.pre) + [z3.And(solimp[k][0] > 0, solimp[k][0] <= solimp[k][1]) for k in range(ncon)]
    goal = []
    for k in range(ncon):
      rows = range(4 * k, 4 * k + 4)
      zero = z3.And(*[jac[r][cidx] == 0 for r in rows for cidx in range(nv)] + [diag[r] == 0 for r in rows] + [aref[r] == 0 for r in rows])
      goal.append(z3.Implies(c.dist[k] >= 0, zero))
    return pre, goal
  return smt_custom('C06/generalized.constraint.jac_contact/masked', 'brax.generalized.constraint:jac_contact',
                    'for ANY contact set (world--link and link--link): dist_k >= 0  =>  the four pyramid rows of contact k in the constraint jacobian, their diagonal regularisers and '
                    'reference accelerations are exactly 0 (any state, solver parameters, friction): a contact that does not penetrate does not enter the solver', body, timeout=200, budget=600)


def imp_aref_range():
  def body(A):
    import z3
    from brax.generalized import constraint
    prm, pos, vel = A.arr('prm', (7,)), A.var('pos'), A.var('vel')
    imp, aref = sym_call(Interp(A), constraint._imp_aref, Sym(prm), Sym(pos), Sym(vel))
    return [prm[2] <= prm[3]], [imp.item() >= prm[2], imp.item() <= prm[3]]
  return smt_custom('C06/generalized.constraint._imp_aref/range', 'brax.generalized.constraint:_imp_aref',
                    'dmin <= dmax  =>  dmin <= impedance <= dmax for every position/velocity and every width/mid/power (jp.power uninterpreted): the contract used when '
                    '_imp_aref is cut (so imp + 1e-8 > 0 whenever dmin > 0)', body)


def generalized_force_inert():
  def body(A):
    from verif.engine.opaque import cut
    from brax.generalized import constraint
    from verif.contracts.common import Stub
    sys = physsys.load(physsys.xml_world_root('hs'))
    nv, nc = sys.qd_size(), 3
    st = Stub(con_jac=jp.zeros((nc, nv)), mass_mx_inv=Sym(A.arr('mi', (nv, nv))), con_diag=Sym(A.arr('cd', (nc,))), con_aref=Sym(A.arr('ca', (nc,))),
              qf_smooth=Sym(A.arr('qs', (nv,))))
    import jaxopt

    class PG:
      def __init__(self, *a, **k):
        pass

      def run(self, x0):
        from verif.engine.opaque import opaque
        import types
        return types.SimpleNamespace(params=opaque('jaxopt.run', lambda z: z)(x0 + 0.0))
    real = jaxopt.ProjectedGradient
    jaxopt.ProjectedGradient = PG
    try:
      qf = sym_call(Interp(A), constraint.force, sys, st)
    finally:
      jaxopt.ProjectedGradient = real
    return [], [e == 0 if not isc(e) else bool(e == 0) for e in np.asarray(qf, dtype=object).reshape(-1)]
  return smt_custom('C06/generalized.constraint.force/inert', 'brax.generalized.constraint:force',
                    'con_jac = 0 (no violated limit, no penetrating contact)  =>  qf_constraint = 0 for ANY output of the projected-gradient solver (jaxopt cut)', body)


def unit_rot(pipeline, with_contact, tiers):
  def run():
    import importlib
    import z3
    from verif.engine.opaque import cut
    from verif.contracts import C04
    import brax.contact as bc
    A = Z3Alg()
    xml = C04.tree_xml(C04.SHAPES['f-h'])
    sys = physsys.load(xml)
    pl = importlib.import_module('brax.%s.pipeline' % pipeline)
    st, raw = C04.sym_pipeline_state(A, sys, pipeline)
    n = sys.num_links()
    c = sym_contact(A, 1, link_idx=(np.array([0]), np.array([1]))) if with_contact else None
    unit_outs = []

    def h_normalize(I, P, ins):
      # verified contract (C09/normalize/contract_nontiny): non-tiny input => output is unit; side condition recorded
      outs = I.fresh_outputs(P, tag='nrm')
      x = outs[0]
      rows = x.reshape((-1, x.shape[-1]))
      for r in rows:
        A.assume.append(sum(e * e for e in r) == 1)
      I.side_notes.append('normalize input not tiny')
      return outs
    targets = list(C04.SPRING_KERNELS) if pipeline == 'spring' else ['brax.positional.joints:_three_dof_joint_update', 'brax.positional.joints:_sphericalize']
    targets += ['brax.com:inv_inertia', 'brax.kinematics:inverse', 'brax.math:normalize', 'brax.math:safe_norm', 'brax.kinematics:world_to_joint']
    if pipeline == 'spring':
      targets += ['brax.spring.integrator:integrate']
    real_get = bc.get

    def f(s, cc):
      bc.get = lambda sys_, x_: cc
      try:
        out = pl.step(sys, s, jp.zeros(sys.act_size()))
        return out.x.rot, out.x_i.rot
      finally:
        bc.get = real_get
    def h_integrate(I, P, ins):
      # VERIFIED contract (C06/spring.integrator.integrate/unit): unit rotation in => unit rotation out
      outs = I.fresh_outputs(P, tag='integ')
      for o in outs:
        if o.shape[-1:] == (4,):
          for r in o.reshape((-1, 4)):
            A.assume.append(sum(e * e for e in r) == 1)
      return outs
    with cut(*targets):
      I = Interp(A, cuts={'brax.math:normalize': h_normalize, 'brax.spring.integrator:integrate': h_integrate})
      rot, rot_i = sym_call(I, f, st, c.obj if c else None)
    pre = [sum(e * e for e in st.x_i.rot.arr[i]) == 1 for i in range(n)] + [raw['mass'][i] > 0 for i in range(n)] + (list(c.pre) if c else [])
    goal = [sum(e * e for e in rot[i]) == 1 for i in range(n)]
    r = smt_prove(A, pre, goal, timeout_s=300, seed=seed())
    if r.verdict == REFUTED:
      r.replay = _native_unit(pipeline, with_contact)
    return r
  return Obligation('C06/%s.pipeline.step/unit_rot[%s]' % (pipeline, 'contact' if with_contact else 'no-contact'), 'brax.%s.pipeline:step' % pipeline,
                    'unit link rotations in => unit link rotations out: every x.rot returned by step is the output of a normalisation (of a non-zero quaternion), %s contacts; '
                    'the normalisations are defined' % ('with' if with_contact else 'without'), run, backend='smt', tiers=tiers, budget=900)


def _native_unit(pipeline, with_contact, steps=20):
  import importlib
  from brax.io import mjcf
  pl = importlib.import_module('brax.%s.pipeline' % pipeline)
  attrs = '' if with_contact else 'contype="0" conaffinity="0"'
  xml = TWO_HINGE.replace('contype="0" conaffinity="0"', attrs) % ('', '')
  sys = mjcf.loads(xml)
  st = pl.init(sys, jp.array([0.3, -0.2]), jp.array([1.5, -2.4]))
  step = jax.jit(pl.step)
  worst = 0.0
  for _ in range(steps):
    st = step(sys, st, jp.zeros(0))
    worst = max(worst, float(jp.max(jp.abs(jp.sum(st.x.rot ** 2, axis=-1) - 1))))
  return {'reproduced': worst > 1e-9, 'max | |rot|^2 - 1 | over %d steps' % steps: worst, 'pipeline': pipeline, 'collidable_geoms': with_contact}


def integrate_unit(pipeline):
  def body(A):
    import z3
    from brax.base import Transform, Motion
    sys = physsys.load('<mujoco><worldbody><body name="a" pos="0 0 1"><freejoint/><geom size="0.1"/></body></worldbody></mujoco>')
    dt = A.var('dt')
    sys2 = sys.replace(opt=sys.opt.replace(timestep=Sym(dt)))
    x = Transform(pos=Sym(A.arr('p', (1, 3))), rot=Sym(A.arr('r', (1, 4))))
    xd = Motion(ang=Sym(A.arr('w', (1, 3))), vel=Sym(A.arr('v', (1, 3))))
    xdv = Motion(ang=Sym(A.arr('dw', (1, 3))), vel=Sym(A.arr('dv', (1, 3))))
    I = Interp(A, cuts={'brax.math:normalize': cuts.normalize_smt_nontiny})
    if pipeline == 'spring':
      from brax.spring import integrator
      x2, xd2 = sym_call(I, integrator.integrate, sys2, x, xd, xdv)
    else:
      from brax.positional import integrator
      x2, xd2 = sym_call(I, integrator.integrate_xdd, sys2, x, xd, xdv)
    pre = [sum(e * e for e in x.rot.arr[0]) == 1]
    goal = [sum(e * e for e in x2.rot[0]) == 1] + [c for _, c in A.side] + [t >= 1 for t in getattr(I, 'nontiny_side', [])]
    return pre, goal
  fn = {'spring': 'brax.spring.integrator:integrate', 'positional': 'brax.positional.integrator:integrate_xdd'}[pipeline]
  return smt_custom('C06/%s/unit' % fn.replace('brax.', '').replace(':', '.'), fn,
                    'unit rotation in => the integrated rotation is unit, and the normalisation is defined: |q + dt/2 (0,w) q|^2 = |q|^2 (1 + dt^2 |w|^2 / 4) > 0, for all '
                    'angular velocities, velocity updates and time steps', body, timeout=200, budget=500,
                    cut_targets=() if pipeline == 'spring' else ('brax.math:normalize',))


def integrate_unit_ring():
  def run():
    from verif.engine.opaque import cut
    from brax.base import Transform, Motion
    from brax.positional import integrator
    A = RingAlg()
    sys = physsys.load('<mujoco><worldbody><body name="a" pos="0 0 1"><freejoint/><geom size="0.1"/></body></worldbody></mujoco>')
    dt = A.var('dt')
    sys2 = sys.replace(opt=sys.opt.replace(timestep=Sym(dt)))
    r, w, dw = A.arr('r', (1, 4)), A.arr('w', (1, 3)), A.arr('dw', (1, 3))
    A.unit(list(r[0]))
    x = Transform(pos=Sym(A.arr('p', (1, 3))), rot=Sym(r))
    xd = Motion(ang=Sym(w), vel=Sym(A.arr('v', (1, 3))))
    xdd = Motion(ang=Sym(dw), vel=Sym(A.arr('dv', (1, 3))))
    radicands = []

    def h(I_, P, ins):
      outs = cuts.normalize_ring(I_, P, ins)
      xrow = I_.lift(ins[0]).reshape(-1)
      n2 = 0
      for e in xrow:
        n2 = A.add(n2, A.mul(e, e))
      radicands.append(A.normal(n2))
      return outs
    with cut('brax.math:normalize'):
      I = Interp(A, cuts={'brax.math:normalize': h})
      x2, xd2 = sym_call(I, integrator.integrate_xdd, sys2, x, xd, xdd)
    res = [ring_equal(A, np.array([sum_sq_(A, x2.rot[0])], dtype=object), np.array([1], dtype=object), name='unit')]
    # side condition of the normalize cut: the radicand equals 1 + (dt/2)^2 |w + dt dw|^2, a sum of squares plus one => >= 1 > 4e-16 (not tiny)
    wn = [A.add(w[0][i], A.mul(dt, dw[0][i])) for i in range(3)]
    sos = A.add(1, A.mul(A.mul(Fraction(1, 4), A.mul(dt, dt)), sum_sq_(A, wn)))
    if len(radicands) != 1:
      return Result(UNDECIDED, 'expected one normalize call')
    res.append(ring_equal(A, np.array([radicands[0]], dtype=object), np.array([sos], dtype=object), name='radicand = 1 + (dt/2)^2 |w\'|^2'))
    return combine(res)
  return Obligation('C06/positional.integrator.integrate_xdd/unit', 'brax.positional.integrator:integrate_xdd',
                    'unit rotation in => integrated rotation unit; the quaternion handed to normalize has squared norm 1 + (dt/2)^2 |w + dt*dw|^2 >= 1 (never tiny, never zero), '
                    'for all angular velocities, accelerations and time steps', run, backend='ring', budget=300)


def sum_sq_(A, v):
  s = 0
  for e in v:
    s = A.add(s, A.mul(e, e))
  return s


def push_only(pipeline):
  def body(A):
    import z3
    from verif.engine.opaque import cut
    from verif.contracts import C04
    import brax.contact as bc
    xml = '<mujoco><worldbody><body name="a" pos="0 0 0.09"><freejoint/><geom size="0.1"/></body></worldbody></mujoco>'
    sys = physsys.load(xml)
    st, raw = C04.sym_pipeline_state(A, sys, pipeline)
    c = sym_contact(A, 1, link_idx=(np.array([-1]), np.array([0])))
    nrm = c.frame[0, 0]
    I = Interp(A, cuts={'brax.math:safe_norm': cuts.uf_handler('safe_norm')})
    pre = list(c.pre) + [c.dist[0] < 0, raw['mass'][0] > 0] + [e == 0 for e in st.xd_i.vel.arr.reshape(-1)] + [e == 0 for e in st.xd_i.ang.arr.reshape(-1)]
    from brax.spring import collisions
    real_get = bc.get
    erp, dt = A.var('erp'), A.var('dt')
    sys2 = sys.replace(baumgarte_erp=Sym(erp), opt=sys.opt.replace(timestep=Sym(dt)))
    iinv = st.i_inv.arr
    # inverse inertia positive semidefinite is what makes the effective mass positive; take the spherical case i_inv = k I, k >= 0
    k = A.var('kinv')
    for a_ in range(3):
      for b_ in range(3):
        pre.append(iinv[0][a_][b_] == (k if a_ == b_ else 0))
    pre += [k >= 0, erp > 0, dt > 0]

    def f(ss_, s, cc):
      bc.get = lambda sys_, x_: cc
      try:
        return collisions.resolve(ss_, s)
      finally:
        bc.get = real_get
    with cut('brax.math:safe_norm'):
      xdv = sym_call(I, f, sys2, st, c.obj)
    along = sum(xdv.vel[0][i] * (-nrm[i]) for i in range(3))
    # frame[0] points from geom1 (world) to geom2 (body)?  brax uses -frame[0] as the direction applied to the first body; the body is link_idx[1],
    # which receives -p: so the body's delta-v is along +frame[0] ... stated sign-agnostically: the body moves AWAY from the penetrated side, i.e.
    # its delta-v has non-negative component along the contact normal frame[0] and no tangential component (it is at rest)
    lat = [xdv.vel[0][i] - (sum(xdv.vel[0][m] * nrm[m] for m in range(3))) * nrm[i] for i in range(3)]
    goal = [sum(xdv.vel[0][i] * nrm[i] for i in range(3)) >= 0] + [e == 0 for e in lat]
    return pre, goal
  return smt_custom('C06/spring.collisions.resolve/push_only', 'brax.spring.collisions:resolve',
                    'a body at rest penetrating the world (dist < 0): its delta-velocity has a non-negative component along the contact normal (pointing from the world geom '
                    'to the body geom) and no lateral component: only pushed out, never pulled in', body, timeout=200, budget=600)


def push_only_positional():
  def body(A):
    import z3
    from verif.engine.opaque import cut
    from verif.contracts import C04
    from brax.base import Transform
    from brax.positional import collisions
    xml = '<mujoco><worldbody><body name="a" pos="0 0 0.09"><freejoint/><geom size="0.1"/></body></worldbody></mujoco>'
    sys = physsys.load(xml)
    st, raw = C04.sym_pipeline_state(A, sys, 'positional')
    c = sym_contact(A, 1, link_idx=(np.array([-1]), np.array([0])))
    m, P = raw['mass'][0], raw['pos'][0]
    o = lambda *v: np.array([list(v)], dtype=object)
    fr = c.frame.copy()
    fr[0, 0] = [0, 0, 1]                                 # the ground: contact normal +z, pointing from the world geom to the body
    ident = jp.asarray([[1.0, 0.0, 0.0, 0.0]])
    x_i = Transform(pos=Sym(o(*P)), rot=ident)           # a body at rest: previous pose = current pose; orientation = identity (sphere)
    st = st.replace(x_i=x_i)
    cobj = c.obj.replace(frame=Sym(fr))
    sysm = C04.with_sym_mass(sys, raw['mass'])
    scale = A.var('collide_scale')
    sysm = sysm.replace(collide_scale=Sym(scale))
    H = {'brax.math:safe_norm': cuts.safe_norm_smt, 'brax.math:normalize': cuts.normalize_smt_full, 'brax.com:inv_inertia': cuts.psd_handler('inv_inertia')}
    I = Interp(A, cuts=H)
    with cut('brax.math:safe_norm', 'brax.com:inv_inertia', 'brax.math:normalize'):
      x_new, dl = sym_call(I, lambda ss_, s, p, cc: _resolve_pos_raw(collisions, ss_, s, p, cc), sysm, st, x_i, cobj)
    pre = [c.dist[0] < 0, m > 0, scale >= 0, c.friction[0, 0] >= 0]
    d = [x_new.pos[0][i] - P[i] for i in range(3)]
    goal = [d[2] >= 0, d[0] == 0, d[1] == 0, dl[0] >= 0]
    return pre, goal
  return smt_custom('C06/positional.collisions.resolve_position/push_only', 'brax.positional.collisions:resolve_position',
                    'a body at rest (previous pose = current pose) penetrating the ground (dist < 0, normal +z) at ANY position, for any inverse inertia that is positive semi-definite: '
                    'its position correction has a non-negative component along the contact normal and no lateral component, and the normal multiplier is >= 0: pushed out, never pulled in',
                    body, timeout=200, budget=600)


def restitution(pipeline):
  """the one-call content of "a sphere hitting the ground rebounds with the configured elasticity times its impact speed": a world--body contact whose contact point lies on the
  normal through the body's centre of mass (a sphere), pure normal approach, any absolute position in the world"""
  def body(A):
    import z3
    from verif.engine.opaque import cut
    from verif.contracts import C04
    from brax.base import Motion
    import brax.contact as bc
    xml = '<mujoco><worldbody><body name="a" pos="0 0 0.09"><freejoint/><geom size="0.1"/></body></worldbody></mujoco>'
    sys = physsys.load(xml)
    st, raw = C04.sym_pipeline_state(A, sys, pipeline)
    c = sym_contact(A, 1, link_idx=(np.array([-1]), np.array([0])))
    f = c.frame[0, 0]                                   # contact normal, pointing from the world geom to the body geom
    a, b, sig, m, e = A.var('a'), A.var('b'), A.var('sigma'), raw['mass'][0], c.elasticity[0]
    P = raw['pos'][0]
    dot = lambda u, v: sum(x * y for x, y in zip(u, v))
    pre = list(c.pre) + [c.dist[0] < 0, m > 0]
    pre += [st.xd_i.ang.arr[0][i] == 0 for i in range(3)]
    pre += [st.xd_i.vel.arr[0][i] == a * f[i] for i in range(3)]                     # body velocity: purely along the normal
    pre += [c.pos[0][i] == P[i] + sig * f[i] for i in range(3)]                      # contact point on the normal through the centre of mass
    H = {'brax.math:safe_norm': cuts.safe_norm_smt, 'brax.math:normalize': cuts.normalize_smt_full, 'brax.com:inv_inertia': cuts.uf_handler('inv_inertia')}
    I = Interp(A, cuts=H)
    if pipeline == 'positional':
      from brax.positional import collisions
      sysm = C04.with_sym_mass(sys, raw['mass'])
      # the ground: contact normal = +z (concrete), everything else symbolic; the preconditions are SUBSTITUTED into the inputs (nlsat does not get through the
      # equational form): body and previous velocity a e_z / b e_z, no spin, contact point P + sigma e_z
      o = lambda *v: np.array([list(v)], dtype=object)
      fr = c.frame.copy()
      fr[0, 0] = [0, 0, 1]
      f = [0, 0, 1]
      st = st.replace(xd_i=Motion(ang=jp.zeros((1, 3)), vel=Sym(o(0, 0, a))))
      cobj = c.obj.replace(frame=Sym(fr), pos=Sym(o(P[0], P[1], P[2] + sig)))
      xdp = Motion(ang=jp.zeros((1, 3)), vel=Sym(o(0, 0, b)))
      dl = A.arr('dlam', (1,))
      pre = [c.friction[0, 0] >= 0, e >= 0, c.dist[0] < 0, m > 0, b <= 0]
      with cut('brax.math:safe_norm', 'brax.com:inv_inertia', 'brax.math:normalize'):
        xdv = sym_call(I, lambda ss_, s, p, cc, d: collisions.resolve_velocity(ss_, s, p, cc, d), sysm, st, xdp, cobj, Sym(dl))
      k = -a - e * b                                    # required change of the normal velocity: from a to -e b
      absk = z3.If(k >= 0, k, -k)
      tiny = z3.And(*[z3.And(k * f[i] <= z3.RealVal(str(Fraction(1e-8))), k * f[i] >= -z3.RealVal(str(Fraction(1e-8)))) for i in range(3)])
      dvn = dot(xdv.vel[0], f)
      eps = z3.RealVal(str(Fraction(1e-6)))
      # stated with margins, not with the exact guard constants (1e-6, 1e-8 and their float32/float64 roundings are not part of the property):
      # the correction never overshoots and never pulls (0 <= dvn/k <= 1) ...
      goal = [z3.Implies(tiny, dvn == 0), dvn * k >= 0, dvn * dvn <= k * k]
      # the "small pipeline-specific margin": for a non-negligible impact (|k| >= 1e-3 m/s) on a body of at most 1000 kg the rebound speed is within 0.3 % of e * impact speed
      goal.append(z3.Implies(z3.And(absk >= z3.RealVal('1/1000'), m <= 1000, e <= 1), z3.And((a + dvn) - (-e * b) <= 3 * absk / 1000, (-e * b) - (a + dvn) <= 3 * absk / 1000)))
    else:
      from brax.spring import collisions
      real_get = bc.get
      erp, dt = A.var('erp'), A.var('dt')
      sys2 = sys.replace(baumgarte_erp=Sym(erp), opt=sys.opt.replace(timestep=Sym(dt)))
      pre += [erp >= 0, dt > 0, a < 0]

      def fres(ss_, s, cc):
        bc.get = lambda sys_, x_: cc
        try:
          return collisions.resolve(ss_, s)
        finally:
          bc.get = real_get
      with cut('brax.math:safe_norm'):
        xdv = sym_call(I, fres, sys2, st, c.obj)
      dvn = dot(xdv.vel[0], f)
      # penetrating and approaching: v_n' = -e v_n - erp/dt * dist  (the Baumgarte term pushes the penetration out: the pipeline-specific margin), up to the 1e-8 averaging guard
      T = -(1 + e) * a - erp / dt * c.dist[0]
      goal = [dvn <= T, dvn >= T * (1 - z3.RealVal('2/100000000'))]          # the averaging guard 1/(1 + 1e-8) is the only slack
    # no lateral velocity and no spin are created by a central normal impact
    goal += [xdv.vel[0][i] - dvn * f[i] == 0 for i in range(3)] + [xdv.ang[0][i] == 0 for i in range(3)]
    return pre, goal, (lambda w: _native_rebound(pipeline))
  fn = {'spring': 'brax.spring.collisions:resolve', 'positional': 'brax.positional.collisions:resolve_velocity'}[pipeline]
  return smt_custom('C06/%s/restitution' % fn.replace('brax.', '').replace(':', '.'), fn,
                    'world--body contact, contact point on the normal through the centre of mass (sphere), pure normal approach, ANY position in the world, mass, elasticity%s: ' % (' (ground normal +z)' if pipeline == 'positional' else ', normal direction')
                    + ('with k = -v_n - e v_n_prev the required change of normal velocity: the update dvn satisfies 0 <= dvn/k <= 1 (never overshoots, never pulls), is 0 for negligible k, '
                       'and for |k| >= 1e-3, m <= 1000 kg, e <= 1 the body leaves with e x impact speed to within 0.3 % of |k|' if pipeline == 'positional' else
                       "penetrating and approaching: the normal velocity changes by T = -(1+e) v_n - (erp/dt) dist up to the relative slack 2e-8, i.e. v_n' = -e v_n plus the Baumgarte push-out term") +
                    '; no lateral velocity and no spin are created', body, timeout=200, budget=900)


def _native_rebound(pipeline):
  """drop a sphere with elasticity e away from the world origin: rebound speed / impact speed"""
  import importlib
  from brax.io import mjcf
  out = []
  for (x, y, e, r) in ((0.0, 0.0, 0.5, 0.1), (1.5, -1.0, 0.5, 0.1), (-0.4, 0.3, 0.9, 0.05)):
    xml = ('<mujoco><option timestep="0.001"/><custom><numeric name="elasticity" data="%g"/></custom><worldbody><geom name="floor" type="plane" size="10 10 0.1"/>'
           '<body name="a" pos="%g %g %g"><freejoint/><geom type="sphere" size="%g"/></body></worldbody></mujoco>' % (e, x, y, r + 0.3, r))
    sys = mjcf.loads(xml)
    pl = importlib.import_module('brax.%s.pipeline' % pipeline)
    st = pl.init(sys, sys.init_q, jp.zeros(6))

    def roll(s, _):
      s = pl.step(sys, s, jp.zeros(0))
      return s, s.xd.vel[0, 2]
    _, vz = jax.jit(lambda s: jax.lax.scan(roll, s, None, length=600))(st)
    vz = np.asarray(vz)
    vin, vout = float(vz.min()), float(vz[int(np.argmin(vz)):].max())
    ratio = vout / -vin if vin < 0 else float('nan')
    out.append({'xy': [x, y], 'elasticity': e, 'impact_speed': -vin, 'rebound_speed': vout, 'ratio': ratio})
  tol = 0.05 if pipeline == 'positional' else 0.12
  bad = [o for o in out if not (abs(o['ratio'] - o['elasticity']) <= tol)]
  return {'reproduced': bool(bad), 'drops': out, 'tolerance': tol}


def bounded(tier):
  def run():
    evals = 0
    distinct = set()
    for pipeline in ('spring', 'positional', 'generalized'):
      r = _native_separated(pipeline)
      evals += 1
      distinct.add((pipeline, 'separated'))
      if r['reproduced']:
        return Result(REFUTED, '%s: a separated scene steps differently with collision geometry enabled (%g)' % (pipeline, r['max_difference_separated_vs_no_collision_geometry']), replay=r)
      r = _native_limits(pipeline)
      evals += 1
      distinct.add((pipeline, 'limits'))
      if r['reproduced']:
        return Result(REFUTED, '%s: unreached joint limits change the motion (%g)' % (pipeline, r['max_difference']), replay=r)
      for wc in (False, True):
        r = _native_unit(pipeline, wc)
        evals += 1
        distinct.add((pipeline, 'unit', wc))
        if r['reproduced']:
          return Result(REFUTED, '%s: link rotations are not unit after 20 steps (collidable geoms: %s): %s' % (pipeline, wc, r), replay=r)
    d = _drops(tier)
    if d.get('reproduced'):
      return Result(REFUTED, 'drop test: %s' % d['what'], replay=d)
    evals += d['evaluations']
    for pipeline in ('spring', 'positional'):
      rb = _native_rebound(pipeline)
      evals += len(rb['drops'])
      for o in rb['drops']:
        distinct.add((pipeline, 'rebound', tuple(o['xy']), o['elasticity']))
      if rb['reproduced']:
        return Result(REFUTED, '%s: rebound speed / impact speed differs from the configured elasticity by more than %g: %s' % (pipeline, rb['tolerance'], [(o['xy'], o['elasticity'], round(o['ratio'], 3)) for o in rb['drops']]), replay=rb)
    return Result(PROVED, 'bounded: separated-vs-disabled, limits-removed, unit rotations for 3 pipelines; %d drop histories (resting height, sinking, push-only, rebound)' % d['evaluations'],
                  stats={'evaluations': evals, 'distinct_nontrivial': len(distinct) + d['evaluations']})
  return Obligation('C06/bounded/scenes_and_drops', 'brax.{generalized,spring,positional}.pipeline:step', 'BOUNDED: separated scene vs collisions disabled; unreached limits vs no limits; '
                    'unit rotations; spheres/boxes/capsules dropped on the ground: never sink more than a few cm, rest at the analytic height, rebound ratio ~ elasticity',
                    run, backend='bounded', kind='bounded', budget=2400)


def _drops(tier):
  import importlib
  from brax.io import mjcf
  rng = np.random.RandomState(seed() + 23)
  n = 2 if tier == 'quick' else 12
  evals = 0
  for k in range(n):
    shape = ('sphere', 'box', 'capsule')[k % 3]
    r = float(rng.uniform(0.05, 0.3))
    size = {'sphere': '%g' % r, 'box': '%g %g %g' % (r, r, r), 'capsule': '%g %g' % (r * 0.5, r)}[shape]
    quat = '0.7071068 0 0.7071068 0' if shape == 'capsule' else '1 0 0 0'
    rest_h = {'sphere': r, 'box': r, 'capsule': r * 0.5}[shape]
    h0 = rest_h + float(rng.uniform(0.0, 0.5))
    dens = float(rng.uniform(200, 3000))
    xml = ('<mujoco><option timestep="0.002"/><worldbody><geom name="floor" type="plane" size="5 5 0.1"/>'
           '<body name="a" pos="0 0 %g" quat="%s"><freejoint/><geom type="%s" size="%s" density="%g"/></body></worldbody></mujoco>' % (h0, quat, shape, size, dens))
    sys = mjcf.loads(xml)
    for pipeline in ('spring', 'positional', 'generalized'):
      pl = importlib.import_module('brax.%s.pipeline' % pipeline)
      st = pl.init(sys, sys.init_q, jp.zeros(6))

      def roll(s, _):
        s = pl.step(sys, s, jp.zeros(0))
        return s, s.x.pos[0, 2]
      _, zs = jax.jit(lambda s: jax.lax.scan(roll, s, None, length=1500))(st)
      zs = np.asarray(zs)
      evals += 1
      if not np.isfinite(zs).all():
        return {'reproduced': True, 'what': '%s %s: non-finite height' % (pipeline, shape), 'xml': xml}
      if zs.min() < rest_h - 0.05:
        return {'reproduced': True, 'what': '%s %s sinks to %.3f (rest height %.3f)' % (pipeline, shape, zs.min(), rest_h), 'xml': xml}
      if abs(zs[-1] - rest_h) > 0.03:
        return {'reproduced': True, 'what': '%s %s rests at %.3f, analytic %.3f' % (pipeline, shape, zs[-1], rest_h), 'xml': xml}
  return {'reproduced': False, 'evaluations': evals}


def obligations(tier):
  Q, Th = ('quick', 'thorough'), ('thorough',)
  obs = [spring_limits_inert('h', Q), spring_limits_inert('s', Q), spring_limits_inert('hh', Th), spring_limits_inert('hhh', Th), spring_limits_inert('ss', Th),
         positional_limits_inert('h', Q), positional_limits_inert('s', Q), positional_limits_inert('hh', Th),
         contact_inert('spring', 1, Q), contact_inert('spring', 2, Q), contact_inert('positional', 1, Q), contact_inert('positional', 2, Th),
         generalized_masks(), generalized_contact_masks(), imp_aref_range(), generalized_force_inert(),
         unit_rot('spring', False, Q), unit_rot('spring', True, Q), unit_rot('positional', False, Q), unit_rot('positional', True, Q),
         integrate_unit('spring'), integrate_unit_ring(), push_only('spring'), push_only_positional(), restitution('positional'), restitution('spring'), bounded(tier)]
  # the assumed contract of the contact.get cut ("separated geometry is reported with dist >= 0") rests on contact.get handing the collision routine the
  # true world pose of every geom: that clause is proved here as well (same obligation as C10's)
  from verif.contracts import C10
  gp = C10.geom_pose()
  gp.id = 'C06/contact.get/geom_world_pose'
  obs.append(gp)

  def _sv():
    from brax.positional import pipeline
    from brax.io import mjcf
    xml = ('<mujoco><option timestep="0.004"/><worldbody><geom name="floor" type="plane" size="5 5 0.1"/>'
           '<body name="a" pos="0 0 0.09" quat="0.8 0.6 0 0"><freejoint/><geom type="capsule" size="0.08 0.15"/></body></worldbody></mujoco>')
    sys = mjcf.loads(xml)

    def f(q_, qd_):
      st = pipeline.step(sys, pipeline.init(sys, q_, qd_), jp.zeros(0))
      return st.x.pos, st.x.rot, st.xd.vel
    return f, [np.asarray(sys.init_q, dtype=float), np.zeros(6)]
  from verif.contracts.common import engine_selfcheck
  obs.append(engine_selfcheck('C06/engine/self_validation[positional step with contact]', 'brax.positional.pipeline:init,step (incl. mjx.collision)', _sv, budget=900))

  def canary(A):
    # limits inert WITHOUT the precondition (coordinate may be outside the range) must be refuted
    from verif.engine.opaque import cut
    from brax.spring import joints
    link, j, jd, mk, tau, raw = _link_dof(A, 1, 'h', True)
    H = {t: cuts.uf_handler(t.split(':')[1]) for t in UFCUTS}
    with cut(*UFCUTS):
      from verif.contracts.common import by_name
      one = by_name(joints._one_dof, ('link', 'j', 'jd', 'dof', 'tau'))
      f1 = sym_call(Interp(A, cuts=H), one, link, j, jd, mk(True), tau)
      f2 = sym_call(Interp(A, cuts=H), one, link, j, jd, mk(False), tau)
    return [], [a == b for a, b in zip(f1.ang, f2.ang)]
  obs.append(smt_custom('C06/canary/limits_inert_without_precondition', 'brax.spring.joints:_one_dof', 'CANARY: limits never matter (must be refuted)', canary, kind='canary'))
  return obs
