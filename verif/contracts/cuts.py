"""Reusable contract handlers for cut callees (see engine/opaque.py).

A handler receives the interpreter, the opaque equation's params and the (lifted) inputs, and returns
the outputs prescribed by the callee's contract.  Each handler names whether the callee's contract is
VERIFIED against its body elsewhere (obligation id) or ASSUMED (external library)."""
from __future__ import annotations
import numpy as np
from verif.engine.alg import Unsupported, isc, is_sym


def _rows(x, inner_ndim):
  x = x if isinstance(x, np.ndarray) else np.asarray(x)
  lead = x.shape[:x.ndim - inner_ndim]
  return x.reshape((-1,) + x.shape[x.ndim - inner_ndim:]), lead


def det_cofactor(interp, P, ins):
  """ASSUMED: jnp.linalg.det on (...,3,3) computes the determinant (cofactor expansion)."""
  A = interp.alg
  m = interp.lift(ins[0])
  rows, lead = _rows(m, 2)
  out = np.empty((rows.shape[0],), dtype=object)
  for k, a in enumerate(rows):
    def mn(i, j, p, q):
      return A.sub(A.mul(a[i, j], a[p, q]), A.mul(a[i, q], a[p, j]))
    d = A.mul(a[0, 0], mn(1, 1, 2, 2))
    d = A.sub(d, A.mul(a[0, 1], mn(1, 0, 2, 2)))
    d = A.add(d, A.mul(a[0, 2], mn(1, 0, 2, 1)))
    out[k] = d
  return [out.reshape(lead)]


def _positive(A, x):
  from verif.engine.alg import RBool
  c = A.cmp('gt', x, 0)
  if isinstance(c, RBool):
    try:
      return A.truth(c)
    except Unsupported:
      return False
  return bool(c)


def normalize_ring(interp, P, ins):
  """VERIFIED (C09/normalize/contract_*): brax.math.normalize(x) -> (n, norm), last axis.
       (i)   x.x = 1                 =>  n = x, norm = 1
       (ii)  some |x_i| > 1e-8       =>  norm = sqrt(x.x), n = x / norm
       (iii) x = 0 identically       =>  n = 0, norm = 0
     Clause (ii) is used with the side condition `x not tiny` recorded on the interpreter; the caller's
     contract must discharge or state it."""
  A = interp.alg
  x = interp.lift(ins[0])
  rows, lead = _rows(x, 1)
  out = np.empty(rows.shape, dtype=object)
  nrm = np.empty((rows.shape[0],), dtype=object)
  for k, row in enumerate(rows):
    n2 = 0
    for e in row:
      n2 = A.add(n2, A.mul(e, e))
    n2 = A.normal(n2) if not isc(n2) else n2
    c = n2 if isc(n2) else n2.const_value()
    if c is not None and c == 1:
      out[k] = row
      nrm[k] = 1
    elif c is not None and c == 0 and all(isc(e) and e == 0 for e in row):
      out[k] = row
      nrm[k] = 0
    elif all(isc(e) and e == 0 for e in row[1:]) and _positive(A, row[0]):
      # x = (x0, 0, ..., 0) with x0 > 0 (branch hint from the caller's precondition): norm = x0, n = e_0
      out[k] = [1] + [0] * (len(row) - 1)
      nrm[k] = row[0]
      interp.side_notes.append('normalize: (x0,0,..,0) with x0 > 0 and not tiny (x0 = %s)' % A.show(A.P(row[0]), 3))
    else:
      g = A.sqrt(n2)
      interp.side_notes.append('normalize: input not tiny (some |x_i| > 1e-8), x.x = %s' % (A.show(n2, 4) if not isc(n2) else n2))
      for j, e in enumerate(row):
        out[k, j] = A.div(e, g)
      nrm[k] = g
  return [out.reshape(x.shape), nrm.reshape(lead)]


def normalize_smt(interp, P, ins):
  """VERIFIED (C09/normalize/contract_*), weak form for SMT callers: x identically 0 => (n, norm) = (0, 0) [clause iii];
  otherwise n, norm are arbitrary with norm >= 0 (the callers' proofs may not depend on more)."""
  A = interp.alg
  x = interp.lift(ins[0])
  rows, lead = _rows(x, 1)
  out = np.empty(rows.shape, dtype=object)
  nrm = np.empty((rows.shape[0],), dtype=object)
  k0 = len(interp.calls)
  for k, row in enumerate(rows):
    if all(isc(e) and e == 0 for e in row):
      out[k] = [0] * len(row)
      nrm[k] = 0
    else:
      for j in range(len(row)):
        out[k, j] = A.var('nrmz!%d!%d_%d' % (k0, k, j))
      nrm[k] = A.var('nrmz!%d!n%d' % (k0, k))
      A.assume.append(nrm[k] >= 0)
  return [out.reshape(x.shape), nrm.reshape(lead)]


def uf_handler(tag):
  """cut with an UNINTERPRETED FUNCTION contract: every output element is F_tag_i(all inputs of that batch element).  Two calls with equal
  inputs give equal outputs (congruence) -- used by relational (two-run) obligations so that both runs see the same callee."""
  def h(interp, P, ins):
    A = interp.alg
    batch = tuple(P['batch'])
    lifted = [interp.lift(x) for x in ins]
    nb = int(np.prod(batch)) if batch else 1
    outs = []
    for oi, (sh, dt) in enumerate(zip(P['out_shapes'], P['out_dtypes'])):
      full = np.empty((nb,) + tuple(sh), dtype=object)
      for b in range(nb):
        args, consts = [], []
        for x in lifted:
          xb = x.reshape((nb,) + x.shape[len(batch):])[b] if batch else x
          for e in np.asarray(xb, dtype=object).reshape(-1):
            if isc(e):
              consts.append(repr(e))          # concrete inputs select the function (hashed into its name): they need not be finite
            else:
              args.append(e)
        import hashlib
        hname = hashlib.md5('|'.join(consts).encode()).hexdigest()[:8]
        for idx in (np.ndindex(*sh) if sh else [()]):
          if args:
            full[(b,) + idx] = A.uf('%s#%s!o%d%s' % (tag, hname, oi, ''.join('_%d' % i for i in idx)), *args)
          else:
            full[(b,) + idx] = A.var('%s#%s!o%d%s!b%d' % (tag, hname, oi, ''.join('_%d' % i for i in idx), b))
      outs.append(full.reshape(batch + tuple(sh)))
    return outs
  return h


def normalize_smt_nontiny(interp, P, ins):
  """VERIFIED (C09/normalize/contract_nontiny): for a NON-TINY input, (n, norm) satisfy norm >= 0, norm^2 = x.x, n*norm = x.
  The caller must prove the side condition x.x > 4e-16 (=> some |x_i| > 1e-8); the radicands are appended to interp.nontiny_side."""
  A = interp.alg
  x = interp.lift(ins[0])
  rows, lead = _rows(x, 1)
  out = np.empty(rows.shape, dtype=object)
  nrm = np.empty((rows.shape[0],), dtype=object)
  k0 = len(interp.calls)
  if not hasattr(interp, 'nontiny_side'):
    interp.nontiny_side = []
  for k, row in enumerate(rows):
    xx = 0
    for e in row:
      xx = A.add(xx, A.mul(e, e))
    nrm[k] = A.var('nrmz!%d!n%d' % (k0, k))
    A.assume += [nrm[k] >= 0, nrm[k] * nrm[k] == xx]
    for j in range(len(row)):
      out[k, j] = A.var('nrmz!%d!%d_%d' % (k0, k, j))
      A.assume.append(out[k, j] * nrm[k] == row[j])
    interp.nontiny_side.append(xx)
  return [out.reshape(x.shape), nrm.reshape(lead)]


_TINY = None


def _tiny_formula(row):
  import z3
  from fractions import Fraction
  t = z3.RealVal(str(Fraction(1e-8)))
  return z3.And(*[z3.And(e <= t, e >= -t) for e in row if not isc(e)] + [bool(abs(e) <= Fraction(1e-8)) for e in row if isc(e)])


def safe_norm_smt(interp, P, ins):
  """VERIFIED (C09/safe_norm/contract_{tiny,nontiny}): brax.math.safe_norm(x) (whole-array norm, axis=None):
       all |x_i| <= 1e-8  =>  n = 0 ;   otherwise  n >= 0 and n^2 = x.x"""
  import z3
  A = interp.alg
  batch = tuple(P['batch'])
  x = interp.lift(ins[0])
  nb = int(np.prod(batch)) if batch else 1
  rows = x.reshape((nb, -1))
  k0 = len(interp.calls)
  out = np.empty((nb,), dtype=object)
  for k, row in enumerate(rows):
    if all(isc(e) and e == 0 for e in row):
      out[k] = 0
      continue
    n = A.var('snorm!%d!%d' % (k0, k))
    xx = 0
    for e in row:
      xx = A.add(xx, A.mul(e, e))
    tiny = _tiny_formula(row)
    A.assume += [n >= 0, z3.Implies(tiny, n == 0), z3.Implies(z3.Not(tiny), n * n == xx)]
    out[k] = n
  return [out.reshape(batch)]


def normalize_smt_full(interp, P, ins):
  """VERIFIED (C09/normalize/contract_{tiny,nontiny}): brax.math.normalize(x) -> (n, norm), last axis:
       all |x_i| <= 1e-8  =>  norm = 0 and n = x / 1e-6 ;   otherwise  norm >= 0, norm^2 = x.x, n * norm = x"""
  import z3
  from fractions import Fraction
  A = interp.alg
  x = interp.lift(ins[0])
  rows, lead = _rows(x, 1)
  out = np.empty(rows.shape, dtype=object)
  nrm = np.empty((rows.shape[0],), dtype=object)
  k0 = len(interp.calls)
  big = z3.RealVal(str(1 / Fraction(1e-6)))
  for k, row in enumerate(rows):
    if all(isc(e) and e == 0 for e in row):
      out[k] = [0] * len(row)
      nrm[k] = 0
      continue
    xx = 0
    for e in row:
      xx = A.add(xx, A.mul(e, e))
    tiny = _tiny_formula(row)
    nrm[k] = A.var('nrmf!%d!n%d' % (k0, k))
    A.assume += [nrm[k] >= 0, z3.Implies(tiny, nrm[k] == 0), z3.Implies(z3.Not(tiny), nrm[k] * nrm[k] == xx)]
    for j in range(len(row)):
      out[k, j] = A.var('nrmf!%d!%d_%d' % (k0, k, j))
      A.assume += [z3.Implies(tiny, out[k, j] == row[j] * big), z3.Implies(z3.Not(tiny), out[k, j] * nrm[k] == row[j])]
  return [out.reshape(x.shape), nrm.reshape(lead)]


def psd_handler(tag):
  """cut with the contract "returns SOME symmetric positive semi-definite matrix per batch element" (M = L L^T for fresh L): what brax.com.inv_inertia returns for
  every physical link (R diag(1/i) R^T with positive principal moments: C09/com.inv_inertia/inverse); callers may rely on x.Mx >= 0 only."""
  def h(interp, P, ins):
    A = interp.alg
    batch = tuple(P['batch'])
    nb = int(np.prod(batch)) if batch else 1
    k0 = len(interp.calls)
    outs = []
    for oi, sh in enumerate(P['out_shapes']):
      sh = tuple(sh)
      lead, n = sh[:-2], sh[-1]
      nl = int(np.prod(lead)) if lead else 1
      full = np.empty((nb * nl, n, n), dtype=object)
      for b in range(nb * nl):
        L = [[A.var('%s!%d!L%d_%d_%d' % (tag, k0, b, i, j)) if j <= i else 0 for j in range(n)] for i in range(n)]
        for i in range(n):
          for j in range(n):
            acc = 0
            for k in range(n):
              acc = A.add(acc, A.mul(L[i][k], L[j][k]))
            full[b, i, j] = acc
      outs.append(full.reshape(batch + sh))
    return outs
  return h
