"""Reusable contract handlers for cut callees (see engine/opaque.py).

A handler receives the interpreter, the opaque equation's params and the (lifted) inputs, and returns
the outputs prescribed by the callee's contract.  Each handler names whether the callee's contract is
VERIFIED against its body elsewhere (obligation id) or ASSUMED (external library)."""
from __future__ import annotations
import numpy as np
from verif.engine.alg import Unsupported, isc, is_sym


def _rows(x, inner_ndim):
  x = x if isinstance(x, np.ndarray) else np.asarray(x)
  lead = x.shape[:x.ndim - inner_ndim]
  return x.reshape((-1,) + x.shape[x.ndim - inner_ndim:]), lead


def det_cofactor(interp, P, ins):
  """ASSUMED: jnp.linalg.det on (...,3,3) computes the determinant (cofactor expansion)."""
  A = interp.alg
  m = interp.lift(ins[0])
  rows, lead = _rows(m, 2)
  out = np.empty((rows.shape[0],), dtype=object)
  for k, a in enumerate(rows):
    def mn(i, j, p, q):
      return A.sub(A.mul(a[i, j], a[p, q]), A.mul(a[i, q], a[p, j]))
    d = A.mul(a[0, 0], mn(1, 1, 2, 2))
    d = A.sub(d, A.mul(a[0, 1], mn(1, 0, 2, 2)))
    d = A.add(d, A.mul(a[0, 2], mn(1, 0, 2, 1)))
    out[k] = d
  return [out.reshape(lead)]


def normalize_ring(interp, P, ins):
  """VERIFIED (C09/normalize/contract_*): brax.math.normalize(x) -> (n, norm), last axis.
       (i)   x.x = 1                 =>  n = x, norm = 1
       (ii)  some |x_i| > 1e-8       =>  norm = sqrt(x.x), n = x / norm
       (iii) x = 0 identically       =>  n = 0, norm = 0
     Clause (ii) is used with the side condition `x not tiny` recorded on the interpreter; the caller's
     contract must discharge or state it."""
  A = interp.alg
  x = interp.lift(ins[0])
  rows, lead = _rows(x, 1)
  out = np.empty(rows.shape, dtype=object)
  nrm = np.empty((rows.shape[0],), dtype=object)
  for k, row in enumerate(rows):
    n2 = 0
    for e in row:
      n2 = A.add(n2, A.mul(e, e))
    n2 = A.normal(n2) if not isc(n2) else n2
    c = n2 if isc(n2) else n2.const_value()
    if c is not None and c == 1:
      out[k] = row
      nrm[k] = 1
    elif c is not None and c == 0 and all(isc(e) and e == 0 for e in row):
      out[k] = row
      nrm[k] = 0
    else:
      g = A.sqrt(n2)
      interp.side_notes.append('normalize: input not tiny (some |x_i| > 1e-8), x.x = %s' % (A.show(n2, 4) if not isc(n2) else n2))
      for j, e in enumerate(row):
        out[k, j] = A.div(e, g)
      nrm[k] = g
  return [out.reshape(x.shape), nrm.reshape(lead)]
