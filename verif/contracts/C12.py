"""C12 -- the generalized integrator is consistent: conserved quantities drift only O(dt).

The statement is a LIMIT (drift -> 0 as dt -> 0, first order).  No pre/postcondition of one call states a limit; what contracts carry are its
finite premises, and a classical theorem does the rest:
   (a) the one-step map is consistent to first order with the vector field  qdd = M^-1 (passive - bias)      [C12 + C02 step clauses]
   (b) M and bias are the Lagrangian mass matrix and bias force of the model                                   [C02 crb_form / rne_form / cdof + Featherstone lemmas]
   (c) paper lemma: a consistent one-step map of a smooth vector field that conserves E (resp. P - m g t) has drift O(dt) on a fixed horizon.
The drift-halving statement itself is exercised only by the bounded stand-in."""
from __future__ import annotations
from fractions import Fraction
import numpy as np
import jax
import jax.numpy as jp

from verif.contracts.common import (Obligation, Result, Sym, sym_call, Interp, RingAlg, Z3Alg, ring_equal, combine, smt_prove, smt_custom, Stub,
                                    PROVED, REFUTED, UNDECIDED, ERROR, is_sym, isc, seed)
from verif.contracts import physsys

LEVEL = 'other'
EXPECTED_MIN = {'quick': 12, 'thorough': 14}
EXPLANATION = ('PROVED premises: the generalized one-step map is first-order consistent -- (q\' - q)/dt = qd\' exactly on hinge/slide dofs, pos\' = pos + dt v\' and d rot\'/d dt at dt = 0 equals '
               '(1/2) rot (x) (0, w) for free joints (jax.jvp of the real function in dt, evaluated at 0), qd\' = qd + dt qdd with (M + dt D) qdd = qf; with damping 0 '
               'the implicit term vanishes, so the scheme is semi-implicit Euler for qdd = M^-1 (passive - bias).  That M, bias are the model\'s Lagrangian terms is C02.  The drift '
               'statement follows by a classical theorem (paper lemma).  BOUNDED (the only direct evidence for "drift halves with dt"): energy and momentum drift at dt, dt/2, dt/4.')
TRUSTED = ['paper lemma: first-order consistent one-step map of a conservative vector field => O(dt) drift over a fixed horizon', 'C02 stage contracts + Featherstone lemmas', 'jax.jvp']
ASSUMPTIONS = ['the limit statement itself is NOT decided by proof', 'exact reals']
BOUNDED_RULE = 'conservative generator models (no damping / limits / actuators; exact inverse) x initial states; drift at dt, dt/2, dt/4; non-trivial = distinct (model, state)'


def consistency_axis():
  """first-order consistency on hinge/slide dofs, in the WEAK form the drift theorem needs (a mere reordering of the Euler update keeps it):
       q'(dt) - q - dt qd = O(dt^2)   and   qd'(dt) - qd = dt * X qf  with  (M + O(dt)) X = I"""
  def run():
    from verif.engine.opaque import cut
    from verif.engine.alg import BITS, MASK, Poly
    from brax.generalized import integrator
    from verif.contracts import C02
    A = RingAlg()
    sys = C02._forest_sys([-1, 0], '21').replace(matrix_inv_iterations=0)
    nq, nv = sys.q_size(), sys.qd_size()
    q, qd = A.arr('q', (nq,)), A.arr('qd', (nv,))
    M, qs, dmp = A.arr('M', (nv, nv)), A.arr('qs', (nv,)), A.arr('d', (nv,))
    dt = A.var('dt')
    sh = BITS * A.index['dt']
    sys2 = sys.replace(dof=sys.dof.replace(damping=Sym(dmp)), opt=sys.opt.replace(timestep=Sym(dt)))
    Xs_ = A.arr('X', (nv, nv))
    seen = {}

    def h(I, P, ins):
      seen['a'] = I.lift(ins[0])
      return [Xs_]
    with cut('jax.scipy.linalg:solve'):
      st = Stub(q=Sym(q), qd=Sym(qd), mass_mx=Sym(M), qf_smooth=Sym(qs), qf_constraint=jp.zeros(nv), mass_mx_inv=jp.zeros((nv, nv)), qdd=jp.zeros(nv))
      new = sym_call(Interp(A, cuts={'jax.scipy.linalg:solve': h}), integrator.integrate, sys2, st)

    def valuation(p):
      p = A.normal(A.P(p)) if not isinstance(p, Poly) else A.normal(p)
      if p.is_zero():
        return 99
      return min((m >> sh) & MASK for m in p.t)
    bad = []
    for i in range(nq):
      v = valuation(A.sub(A.sub(new.q[i], q[i]), A.mul(dt, qd[i])))
      if v < 2:
        bad.append("q'[%d] - q - dt qd has dt-valuation %d" % (i, v))
    for i in range(nv):
      xf = 0
      for k in range(nv):
        xf = A.add(xf, A.mul(Xs_[i][k], qs[k]))
      v = valuation(A.sub(A.sub(new.qd[i], qd[i]), A.mul(dt, xf)))
      if v < 2:
        bad.append("qd'[%d] - qd - dt (X qf) has dt-valuation %d" % (i, v))
      for k in range(nv):
        if valuation(A.sub(seen['a'][i][k], M[i][k])) < 1:
          bad.append('the matrix handed to solve differs from M at dt = 0')
    if bad:
      return Result(REFUTED, 'the one-step map is not first-order consistent: %s' % bad[:3], replay=_native_drift())
    return Result(PROVED, "q' - q - dt qd = O(dt^2), qd' - qd - dt X qf = O(dt^2) with X the solution of (M + O(dt)) X = I: first-order consistent with qdd = M^-1 qf",
                  stats={'components': nq + nv})
  return Obligation('C12/integrator.integrate/consistent[hinge-slide]', 'brax.generalized.integrator:integrate', "hinge/slide dofs: q'(dt) = q + dt qd + O(dt^2) and qd'(dt) = qd + dt M^-1 qf + O(dt^2) "
                    '(dt-adic valuation of the exact polynomial residuals; solve cut) -- first-order consistency, which a mere reordering of the Euler update preserves', run, backend='ring', budget=300)


def _native_drift():
  r = bounded('quick').run()
  return r.replay or {'reproduced': r.verdict == REFUTED, 'detail': r.detail[:300]}


def consistency_free():
  def body(A):
    import z3
    from brax.generalized import integrator
    sys = physsys.load(physsys.xml_free())
    q, qd = A.arr('q', (7,)), A.arr('qd', (6,))

    def f(q_, qd_):
      g = lambda dt: integrator._integrate_q_free(sys=sys.replace(opt=sys.opt.replace(timestep=dt)), q=q_, qd=qd_)
      return jax.jvp(g, (jp.zeros(()),), (jp.ones(()),))
    # safe_norm (of the angular velocity; independent of dt) is used through its verified contract (C09/safe_norm/contract_*): the first-order term does not depend on its value
    from verif.contracts import cuts
    val, tan = sym_call(Interp(A, cuts={'brax.math:safe_norm': cuts.safe_norm_smt}), f, Sym(q), Sym(qd))
    w = [qd[3 + i] for i in range(3)]
    # (1/2) rot (x) (0, w): the 1e-8 guard cancels to first order (axis * angle = w dt exactly)
    r = [q[3 + i] for i in range(4)]
    v = list(w)
    half = z3.RealVal('1/2')
    want = [half * (-r[1] * v[0] - r[2] * v[1] - r[3] * v[2]), half * (r[0] * v[0] + r[2] * v[2] - r[3] * v[1]),
            half * (r[0] * v[1] - r[1] * v[2] + r[3] * v[0]), half * (r[0] * v[2] + r[1] * v[1] - r[2] * v[0])]
    pre = [sum(e * e for e in r) == 1]
    goal = [val[i] == q[i] for i in range(7)] + [tan[i] == qd[i] for i in range(3)] + [tan[3 + i] == want[i] for i in range(4)]
    return pre, goal
  return smt_custom('C12/integrator._integrate_q_free/consistent', 'brax.generalized.integrator:_integrate_q_free (jax.jvp in dt at 0)',
                    "unit rot: at dt = 0 the map is the identity, d pos'/d dt = v and d rot'/d dt = (1/2) rot (x) (0, w) -- exact quaternion kinematics (the 1e-8 guard cancels to first order)",
                    body, timeout=200, budget=500, cut_targets=('brax.math:safe_norm',))


def undamped_explicit():
  """with damping = 0 the matrix handed to solve is exactly M (no implicit term): the scheme is plain semi-implicit Euler"""
  def run():
    from verif.engine.opaque import cut
    from brax.generalized import integrator
    from verif.contracts import C02
    A = RingAlg()
    sys = C02._forest_sys([-1, 0], '21').replace(matrix_inv_iterations=0)
    nq, nv = sys.q_size(), sys.qd_size()
    M = A.arr('M', (nv, nv))
    dt = A.var('dt')
    sys2 = sys.replace(dof=sys.dof.replace(damping=jp.zeros(nv)), opt=sys.opt.replace(timestep=Sym(dt)))
    seen = {}

    def h(I, P, ins):
      seen['a'] = I.lift(ins[0])
      return [A.arr('X', (nv, nv))]
    with cut('jax.scipy.linalg:solve'):
      st = Stub(q=Sym(A.arr('q', (nq,))), qd=Sym(A.arr('qd', (nv,))), mass_mx=Sym(M), qf_smooth=Sym(A.arr('qs', (nv,))), qf_constraint=jp.zeros(nv), mass_mx_inv=jp.zeros((nv, nv)), qdd=jp.zeros(nv))
      sym_call(Interp(A, cuts={'jax.scipy.linalg:solve': h}), integrator.integrate, sys2, st)
    return ring_equal(A, seen['a'], M, name='solve matrix = M when damping = 0')
  return Obligation('C12/integrator.integrate/undamped_is_explicit', 'brax.generalized.integrator:integrate', 'damping = 0: the linear system solved is M qdd = qf (the implicit-damping term vanishes), i.e. '
                    'semi-implicit Euler of the conservative vector field', run, backend='ring', budget=200)


def _energy(sys, st):
  from brax.base import Transform
  ke = 0.5 * st.qd @ st.mass_mx @ st.qd
  x_i = st.x.vmap().do(sys.link.inertia.transform)
  pe = -jp.sum(sys.link.inertia.mass * (x_i.pos @ sys.gravity))
  # joint springs (reference 0) on hinge/slide dofs
  qi = di = 0
  sp = 0.0
  for t in sys.link_types:
    if t == 'f':
      qi, di = qi + 7, di + 6
    else:
      n = int(t)
      sp = sp + 0.5 * jp.sum(sys.dof.stiffness[di:di + n] * st.q[qi:qi + n] ** 2)
      qi, di = qi + n, di + n
  return ke + pe + sp


def bounded(tier):
  def run():
    from brax.io import mjcf
    from brax.generalized import pipeline
    from verif.bounded import modelgen
    rng = np.random.RandomState(seed() + 59)
    n = 3 if tier == 'quick' else 40
    evals = 0
    ratios = []
    for k in range(-len(FIXED_MODELS), n):
      free = (k % 2 == 0) or k < 0
      if k < 0:
        xml, meta = FIXED_MODELS[k + len(FIXED_MODELS)], {}
      else:
       xml, meta = modelgen.generate(rng, modelgen.Spec(n_links=(2, 3) if free else (1, 3), damping_p=0.0, limits_p=0.0, actuators=(0, 0), collide=False, all_free_roots=free,
                                                     free_root_p=0.0 if not free else 1.0, stiffness_p=0.3, armature_p=0.2, max_stack=1 if free else 3, origin_anchor=free))
      sys0 = mjcf.loads(xml).replace(matrix_inv_iterations=0)
      q, qd = modelgen.rand_state(rng, sys0, 1.0, 1.0)
      horizon = 0.05
      drifts = []
      for dt in (1e-3, 5e-4, 2.5e-4):
        sys = sys0.replace(opt=sys0.opt.replace(timestep=dt))
        st = pipeline.init(sys, jp.asarray(q), jp.asarray(qd))
        e0 = float(_energy(sys, st))
        mtot = float(jp.sum(sys.link.inertia.mass))
        steps = int(round(horizon / dt))

        def body(s, _):
          return pipeline.step(sys, s, jp.zeros(0)), None
        st2 = jax.jit(lambda s: jax.lax.scan(body, s, None, length=steps)[0])(st)
        e1 = float(_energy(sys, st2))
        d = {'E': abs(e1 - e0), 'Es': e1 - e0}
        if free:
          # total linear momentum P = sum m v_com,link (single joints at the link origin: inside C01's velocity claim); P(T) - P(0) - m g T must vanish with dt
          from brax import com as com_
          p0 = jp.sum(sys.link.inertia.mass[:, None] * com_.from_world(sys, st.x, st.xd)[1].vel, axis=0)
          p1 = jp.sum(sys.link.inertia.mass[:, None] * com_.from_world(sys, st2.x, st2.xd)[1].vel, axis=0)
          d['P'] = np.asarray(p1 - p0 - mtot * sys.gravity * (steps * dt))
        drifts.append(d)
      evals += 1
      E = [d['E'] for d in drifts]
      if not all(np.isfinite(E)):
        return Result(REFUTED, 'non-finite energy on a conservative model', witness={'xml': xml}, replay={'reproduced': True})
      scale = max(1.0, abs(e0))
      if E[0] > 1e-7 * scale:
        r1, r2 = E[0] / max(E[1], 1e-300), E[1] / max(E[2], 1e-300)
        ratios.append((r1, r2))
        if not (r1 >= 1.4 and r2 >= 1.4):          # at least first-order decrease (a faster decrease is not a violation)
          return Result(REFUTED, 'energy drift does not decrease (at least) linearly with the time step: drifts %s (ratios %.2f, %.2f) on types %s' % (E, r1, r2, sys0.link_types),
                        witness={'xml': xml, 'q': list(map(float, q)), 'qd': list(map(float, qd))}, replay={'reproduced': True, 'drifts': E, 'ratios': [r1, r2]})
      # the drift extrapolated to zero step size vanishes (Richardson: d(dt) = c dt + d0  =>  d0 = 2 d(dt/2) - d(dt))
      Es = [d['Es'] for d in drifts]
      d0a, d0b = 2 * Es[1] - Es[0], 2 * Es[2] - Es[1]
      if abs(d0b) > 2e-6 * scale + 0.05 * abs(Es[2]):
        return Result(REFUTED, 'energy drift does not vanish in the limit dt -> 0: signed drifts %s, extrapolated %.3e / %.3e (types %s)' % (Es, d0a, d0b, sys0.link_types),
                      witness={'xml': xml, 'q': list(map(float, q)), 'qd': list(map(float, qd))}, replay={'reproduced': True, 'drifts': Es, 'extrapolated': [d0a, d0b]})
      if free:
        Ps = [d['P'] for d in drifts]
        p0b = 2 * Ps[2] - Ps[1]
        pscale = max(1.0, float(np.abs(mtot * np.asarray(sys0.gravity) * horizon).max()))
        if np.abs(p0b).max() > 2e-6 * pscale + 0.05 * np.abs(Ps[2]).max():
          return Result(REFUTED, 'linear momentum minus m g t does not become conserved as dt -> 0: drifts %s, extrapolated %s (types %s)' % ([p.tolist() for p in Ps], p0b.tolist(), sys0.link_types),
                        witness={'xml': xml, 'q': list(map(float, q)), 'qd': list(map(float, qd))}, replay={'reproduced': True, 'momentum_drifts': [p.tolist() for p in Ps]})
      if E[2] > 0.05 * scale:
        return Result(REFUTED, 'energy drift %g at dt/4 is not small' % E[2], witness={'xml': xml}, replay={'reproduced': True, 'drifts': E})
    return Result(PROVED, 'bounded: %d conservative model-states; energy drift ratios dt:dt/2:dt/4 %s' % (evals, ['%.2f/%.2f' % r for r in ratios][:6]), stats={'evaluations': evals, 'distinct_nontrivial': max(2, evals)})
  return Obligation('C12/bounded/drift_halves', 'brax.generalized.pipeline:step', 'BOUNDED: total mechanical energy of conservative generator models over a 0.05 s horizon at dt, dt/2, dt/4 (dt = 1e-3): '
                    'the drift ratio between successive refinements lies in [1.4, 2.9] whenever the drift is measurable, and the drift at dt/4 is small', run, backend='bounded', kind='bounded', budget=2400)


FIXED_MODELS = [
    # free-floating rotated box carrying a spring-loaded slider on a rotated child body, and a hinge: exercises prismatic axes in rotated frames under a free root
    '<mujoco><compiler angle="radian"/><option timestep="0.001" gravity="0 0 -9.81"/><worldbody><body name="a" pos="0 0 1" quat="0.8 0.2 -0.4 0.4"><freejoint/>'
    '<geom type="box" size="0.2 0.1 0.05" density="800" contype="0" conaffinity="0"/>'
    '<body name="b" pos="0.2 0.1 0" quat="0.5 0.5 -0.5 0.5"><joint type="slide" axis="0.6 0 0.8" stiffness="20"/><geom size="0.07" density="1500" pos="0.05 0 0.1" contype="0" conaffinity="0"/>'
    '<body name="c" pos="0 0.1 0.1" quat="0.9238795 0 0.3826834 0"><joint type="hinge" axis="0 0.8 0.6"/><geom type="capsule" size="0.03 0.1" pos="0.1 0 0" contype="0" conaffinity="0"/></body></body>'
    '</body></worldbody></mujoco>',
]


def premises(tier):
  """premise (b) of the drift theorem -- the integrated vector field is the model's Lagrangian dynamics -- is the conjunction of C02's stage contracts; they are
  obligations of this check as well, so that a change breaking them is reported against C12 too"""
  from verif.contracts import C02
  Q = ('quick', 'thorough')
  obs = [C02.cdof('s', 'free', Q), C02.cdof('h', 'free', Q), C02.cdof('sh', 'root', Q), C02.cinr('h', 'free', Q), C02.crb_form('chain3[1,2,1]', Q), C02.rne_form('chain3[1,2,1]', Q),
         C02.crb_form('two-trees[f,1;2]', ('thorough',)), C02.rne_form('two-trees[f,1;2]', ('thorough',)), C02.passive_forward(),
         C02.cache_coherent('step', 0, Q), C02.cache_coherent('step', 10, Q), C02.cache_coherent('init', 0, Q)]
  for o in obs:
    o.id = o.id.replace('C02/', 'C12/premise/')
  return obs


def obligations(tier):
  obs = [consistency_axis(), consistency_free(), undamped_explicit(), bounded(tier)] + premises(tier)

  def canary(A):
    # an explicit (not semi-implicit) position update q' = q + dt*qd_old is ALSO first-order consistent -- but claiming q' = q + dt*qd (old velocity) for the real code must be refuted
    from verif.engine.opaque import cut
    from brax.generalized import integrator
    from verif.contracts import C02
    sys = C02._forest_sys([-1], '1').replace(matrix_inv_iterations=0)
    q, qd, qs, M, dt = A.var('q'), A.var('qd'), A.var('qs'), A.var('M'), A.var('dt')
    import numpy as np_
    X_ = A.var('X')

    def h(I, P, ins):
      a = I.lift(ins[0])
      A.assume.append(a[0][0] * X_ == 1)
      o = np_.empty((1, 1), dtype=object)
      o[0, 0] = X_
      return [o]
    with cut('jax.scipy.linalg:solve'):
      st = Stub(q=Sym(np_.array([q], dtype=object)), qd=Sym(np_.array([qd], dtype=object)), mass_mx=Sym(np_.array([[M]], dtype=object)), qf_smooth=Sym(np_.array([qs], dtype=object)),
                qf_constraint=jp.zeros(1), mass_mx_inv=jp.zeros((1, 1)), qdd=jp.zeros(1))
      new = sym_call(Interp(A, cuts={'jax.scipy.linalg:solve': h}), integrator.integrate, sys.replace(opt=sys.opt.replace(timestep=Sym(dt))), st)
    return [M > 0, dt > 0, qd + dt * X_ * qs != 0], [new.q[0] == q + 2 * dt * new.qd[0]]
  obs.append(smt_custom('C12/canary/double_position_update', 'brax.generalized.integrator:integrate', 'CANARY: positions are advanced by TWICE the velocity (must be refuted)', canary, kind='canary'))
  return obs
