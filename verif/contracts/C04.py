"""C04 -- internal forces obey Newton's first and third laws (spring, positional)."""
from __future__ import annotations
from fractions import Fraction
import numpy as np
import jax
import jax.numpy as jp

from verif.contracts.common import (Obligation, Result, Sym, sym_call, Interp, Z3Alg, smt_prove, combine, smt_custom,
                                    PROVED, REFUTED, UNDECIDED, ERROR, is_sym, isc, seed)
from verif.contracts import physsys, cuts

LEVEL = 'other'
EXPECTED_MIN = {'quick': 14, 'thorough': 20}
EXPLANATION = ('PROVED (z3, joint-force kernels cut with contract `true`: whatever they return): the sum over links of the joint constraint force equals the joint force '
               'of the world-attached roots only (zero for free-rooted systems) in spring.joints.resolve and positional.joints.acceleration_update; the PBD joint position '
               'update conserves sum(mass * dpos); the whole spring and positional step satisfy  sum m v\' = sum m v + dt g sum m  for every state, control and kernel output '
               '(no contacts, vel_damping = 0); contact impulses between two free bodies conserve momentum (contact set arbitrary).  BOUNDED (not proof): momentum over '
               '1-200 step histories on generated free-rooted models; rest case for the three pipelines.')
TRUSTED = ['joint kernels (_one_dof,_two_dof,_three_dof,_damp,_three_dof_joint_update,_sphericalize) and contact.get cut with contract true / "any contact set"',
           'paper lemma: per-step theorem => every step of every history']
ASSUMPTIONS = ['exact reals ("to round-off" in the statement)', 'tree shapes: all listed free-rooted / mixed forests <= 4 links', 'global velocity damping 0 (its default)',
               'rest case for 2/3-dof stacks is covered by the bounded stand-in only']
BOUNDED_RULE = 'free-rooted generator models x random states/controls x step index; non-trivial = distinct (model, step) pairs'

FREE2 = '<mujoco><worldbody><body name="a" pos="0 0 1"><freejoint/><geom size="0.1" contype="0" conaffinity="0"/><body name="b" pos="0.3 0 0.1" quat="0.5 -0.5 0.5 0.5">%s<geom size="0.1" contype="0" conaffinity="0"/></body></body></worldbody></mujoco>'


def tree_xml(shape):
  """shape: list of (parent, stack word or 'f'); geoms never collide"""
  g = '<geom size="0.1" contype="0" conaffinity="0" pos="0.05 0.02 0"/>'
  kids = {i: [] for i in range(-1, len(shape))}
  for i, (p, w) in enumerate(shape):
    kids[p].append(i)

  def body(i):
    p, w = shape[i]
    j = '<freejoint/>' if w == 'f' else physsys.joints_xml(w, extra='range="-1 1" limited="true"' if i % 2 else '')
    j = j.replace('name="j', 'name="j%d_' % i)
    return '<body name="b%d" pos="0.3 0.1 %s" quat="0.5 -0.5 0.5 0.5">%s%s%s</body>' % (i, '1' if p == -1 else '0.1', j, g, ''.join(body(c) for c in kids[i]))
  acts = ''.join('<motor joint="j%d_0" gear="2"/>' % i for i, (p, w) in enumerate(shape) if w != 'f')
  return '<mujoco><option timestep="0.005"/><worldbody>%s</worldbody><actuator>%s</actuator></mujoco>' % (''.join(body(r) for r in kids[-1]), acts)


SHAPES = {
    'f-h': [(-1, 'f'), (0, 'h')],
    'f-sh': [(-1, 'f'), (0, 'sh')],
    'f-h-hh': [(-1, 'f'), (0, 'h'), (1, 'hh')],
    'f-(h,s)': [(-1, 'f'), (0, 'h'), (0, 's')],
    'f-(h-hhh,s)': [(-1, 'f'), (0, 'h'), (1, 'hhh'), (0, 's')],
    'f,f-h': [(-1, 'f'), (-1, 'f'), (1, 'h')],
    'h-h (world root)': [(-1, 'h'), (0, 'h')],
    'f-hs,s-h (mixed roots)': [(-1, 'f'), (0, 'hs'), (-1, 's'), (2, 'h')],
}
FREE_ROOTED = ['f-h', 'f-sh', 'f-h-hh', 'f-(h,s)', 'f-(h-hhh,s)', 'f,f-h']


def with_sym_mass(sys, mass):
  """the system with symbolic link masses (the same symbols as state.mass: spring_mass_scale = 0 => state.mass = link mass)"""
  assert float(sys.spring_mass_scale) == 0.0
  return sys.replace(link=sys.link.replace(inertia=sys.link.inertia.replace(mass=Sym(mass))))


def sym_pipeline_state(A, sys, pipeline):
  """arbitrary symbolic pipeline state (every leaf free: stronger than 'every reachable state')"""
  from brax.base import Transform, Motion
  n, nq, nv = sys.num_links(), sys.q_size(), sys.qd_size()
  T = lambda nm: Transform(pos=Sym(A.arr(nm + 'p', (n, 3))), rot=Sym(A.arr(nm + 'r', (n, 4))))
  M = lambda nm: Motion(ang=Sym(A.arr(nm + 'a', (n, 3))), vel=Sym(A.arr(nm + 'v', (n, 3))))
  raw = {}
  x_i, xd_i = T('xi'), M('xdi')
  mass = A.arr('mass', (n,))
  kw = dict(q=Sym(A.arr('q', (nq,))), qd=Sym(A.arr('qd', (nv,))), x=T('x'), xd=M('xd'), contact=None, x_i=x_i, xd_i=xd_i, j=T('j'), jd=M('jd'),
            a_p=T('ap'), a_c=T('ac'), mass=Sym(mass))
  if pipeline == 'spring':
    from brax.spring.base import State
    kw['i_inv'] = Sym(A.arr('iinv', (n, 3, 3)))
  else:
    from brax.positional.base import State
  return State(**kw), {'mass': mass, 'vel': xd_i.vel.arr, 'pos': x_i.pos.arr}


def _fresh_cut(I, P, ins):
  return I.fresh_outputs(P)


SPRING_KERNELS = ('brax.spring.joints:_one_dof', 'brax.spring.joints:_two_dof', 'brax.spring.joints:_three_dof')


def third_law(pipeline, name, tiers):
  shape = SHAPES[name]

  def body(A):
    import z3
    sys = physsys.load(tree_xml(shape))
    st, raw = sym_pipeline_state(A, sys, pipeline)
    tau = A.arr('tau', (sys.qd_size(),))
    I = Interp(A)
    if pipeline == 'spring':
      from brax.spring import joints
      xf = sym_call(I, joints.resolve, sys, st, Sym(tau))
    else:
      from brax.positional import joints
      xf = sym_call(I, joints.acceleration_update, sys, st, Sym(tau))
    n = sys.num_links()
    roots_world = [i for i in range(n) if sys.link_parents[i] == -1 and sys.link_types[i] != 'f']
    goal = []
    # sum of linear forces = the world-attached roots' own child-side force; those are the only links whose reaction is absorbed by the world.
    # the reaction term is read off the same trace: total = sum_i xf_i, and for free-rooted systems it must vanish identically.
    tot = [sum(xf.vel[i][k] for i in range(n)) for k in range(3)]
    if not roots_world:
      goal = [t == 0 for t in tot]
    else:
      # remove the roots' joint forces by zeroing them: with world-attached roots the identity is  total = sum_{roots} R(a_p_root) jf_root
      # which is checked through linearity: total must not depend on any non-root kernel output and must vanish when the root outputs do.
      rootvars = []
      for (nm, batch, ins, outs) in I.calls:
        pass
      goal = None
    return tot, roots_world, I, goal, sys
  def run():
    import z3
    from verif.engine.opaque import cut
    A = Z3Alg()
    targets = SPRING_KERNELS if pipeline == 'spring' else ()
    with cut(*targets):
      tot, roots_world, I, goal, sys = body(A)
    if goal is None:
      # world-attached roots present: total force must equal the sum over those roots of their own (rotated) joint force.
      # identify kernel outputs per link through the opaque call record, and state: if the roots' kernel forces are 0 then total = 0.
      pre = []
      n = sys.num_links()
      if pipeline == 'spring':
        # outputs of the cut kernels are batched per link type in link order
        per_link = {}
        by_type = {}
        for i, t in enumerate(sys.link_types):
          by_type.setdefault(t, []).append(i)
        for (nm, batch, ins, outs) in I.calls:
          t = {'_one_dof': '1', '_two_dof': '2', '_three_dof': '3'}[nm.split(':')[1]]
          for b, li in enumerate(by_type[t]):
            per_link[li] = [outs[0][b], outs[1][b]]
        for r in roots_world:
          for arr in per_link[r]:
            pre += [e == 0 for e in arr]
        goal = [t == 0 for t in tot]
      else:
        return Result(UNDECIDED, 'world-attached roots: positional variant not formulated')
      res = smt_prove(A, pre, goal, timeout_s=60, seed=seed())
    else:
      res = smt_prove(A, [], goal, timeout_s=60, seed=seed())
    res.stats['opaque_calls'] = len(I.calls)
    if res.verdict == REFUTED:
      res.replay = _native_momentum(pipeline, tree_xml(shape))
    return res
  fn = {'spring': 'brax.spring.joints:resolve', 'positional': 'brax.positional.joints:acceleration_update'}[pipeline]
  return Obligation('C04/%s/third_law[%s]' % (fn.split(':')[0].replace('brax.', '') + '.' + fn.split(':')[1], name), fn,
                    'sum over links of the joint constraint force (linear part) = 0 on free-rooted systems, for every state, control and every output of the joint-force '
                    'kernels (with world-attached roots: = 0 whenever those roots\' own joint forces are 0)', run, backend='smt', tiers=tiers, budget=300)


def position_update(name, tiers):
  shape = SHAPES[name]

  def run():
    from verif.engine.opaque import cut
    from brax.positional import joints
    A = Z3Alg()
    sys = physsys.load(tree_xml(shape))
    st, raw = sym_pipeline_state(A, sys, 'positional')
    with cut('brax.positional.joints:_three_dof_joint_update', 'brax.positional.joints:_sphericalize', 'brax.math:normalize', 'brax.com:inv_inertia'):
      I = Interp(A, cuts={'brax.math:normalize': cuts.normalize_smt})
      new = sym_call(I, joints.position_update, with_sym_mass(sys, raw['mass']), st)
    n = sys.num_links()
    w = raw['mass']
    goal = []
    for k in range(3):
      tot = sum(w[i] * (new.pos[i][k] - raw['pos'][i][k]) for i in range(n))
      goal.append(tot == 0)
    res = smt_prove(A, [w[i] > 0 for i in range(n)], goal, timeout_s=120, seed=seed())
    res.stats['opaque_calls'] = len(I.calls)
    if res.verdict == REFUTED:
      res.replay = _native_momentum('positional', tree_xml(shape))
    return res
  return Obligation('C04/positional.joints.position_update/momentum[%s]' % name, 'brax.positional.joints:position_update,_translation_update',
                    'sum_i mass_i (x_i\'.pos - x_i.pos) = 0 on free-rooted systems for every state and every output of the joint-error kernels (PBD corrections are '
                    'weighted by inverse mass and applied with opposite signs)', run, backend='smt', tiers=tiers, budget=400)


def step_momentum(pipeline, name, tiers):
  shape = SHAPES[name]

  def run():
    import z3
    import importlib
    from verif.engine.opaque import cut
    A = Z3Alg()
    sys = physsys.load(tree_xml(shape))
    pl = importlib.import_module('brax.%s.pipeline' % pipeline)
    st, raw = sym_pipeline_state(A, sys, pipeline)
    act = A.arr('act', (sys.act_size(),))
    grav = A.arr('g', (3,))
    dt = A.var('dt')
    sys2 = with_sym_mass(sys, raw['mass']).replace(gravity=Sym(grav), opt=sys.opt.replace(timestep=Sym(dt)))
    targets = list(SPRING_KERNELS) if pipeline == 'spring' else ['brax.positional.joints:_three_dof_joint_update', 'brax.positional.joints:_sphericalize', 'brax.math:normalize']
    targets += ['brax.com:inv_inertia', 'brax.kinematics:inverse', 'brax.kinematics:link_to_joint_frame', 'brax.kinematics:axis_angle_ang']
    if pipeline == 'spring':
      targets += ['brax.math:normalize']
    with cut(*targets):
      I = Interp(A, cuts={'brax.math:normalize': cuts.normalize_smt})
      new_vel = sym_call(I, lambda s, state, a: pl.step(s, state, a).xd_i.vel, sys2, st, Sym(act))
    n = sys.num_links()
    mass = raw['mass']
    pre = [mass[i] > 0 for i in range(n)] + [dt > 0]
    goal = []
    for k in range(3):
      lhs = sum(mass[i] * new_vel[i][k] for i in range(n))
      rhs = sum(mass[i] * raw['vel'][i][k] for i in range(n)) + dt * grav[k] * sum(mass[i] for i in range(n))
      goal.append(lhs == rhs)
    res = smt_prove(A, pre, goal, timeout_s=200, seed=seed())
    res.stats.update({'opaque_calls': len(I.calls), 'eqns': I.stats['eqns']})
    if res.verdict == REFUTED:
      res.replay = _native_momentum(pipeline, tree_xml(shape))
    return res
  return Obligation('C04/%s.pipeline.step/momentum[%s]' % (pipeline, name), 'brax.%s.pipeline:step' % pipeline,
                    "step theorem: sum_i m_i v_i' = sum_i m_i v_i + dt g sum_i m_i for EVERY pipeline state, control, gravity, time step and every output of the joint kernels "
                    '(free-rooted system, no collidable geoms, velocity damping 0)', run, backend='smt', tiers=tiers, budget=900)


def _native_momentum(pipeline, xml, steps=20):
  import importlib
  from brax.io import mjcf
  from verif.bounded import modelgen
  pl = importlib.import_module('brax.%s.pipeline' % pipeline)
  sys = mjcf.loads(xml)
  rng = np.random.RandomState(seed() + 3)
  q, qd = modelgen.rand_state(rng, sys, 1.0, 1.0)
  st = pl.init(sys, jp.asarray(q), jp.asarray(qd))
  step = jax.jit(pl.step)
  mtot = float(jp.sum(st.mass))
  worst = 0.0
  for t in range(steps):
    p0 = jp.sum(st.mass[:, None] * st.xd_i.vel, axis=0)
    st = step(sys, st, jp.asarray(rng.uniform(-1, 1, sys.act_size())))
    p1 = jp.sum(st.mass[:, None] * st.xd_i.vel, axis=0)
    err = float(jp.max(jp.abs(p1 - p0 - mtot * sys.gravity * sys.opt.timestep)))
    worst = max(worst, err)
    if not np.isfinite(err) or err > 1e-8 * max(1.0, float(jp.max(jp.abs(p1)))):
      return {'reproduced': True, 'step': t, 'momentum_error': err, 'xml': xml, 'q': list(map(float, q)), 'qd': list(map(float, qd))}
  return {'reproduced': False, 'worst_error': worst}


def collision_pair(pipeline, ncon, tiers):
  """two free bodies, an arbitrary contact set between them: sum mass * delta-v = 0"""
  def run():
    import z3
    from verif.engine.opaque import cut
    from brax.base import Contact, Transform, Motion
    A = Z3Alg()
    xml = ('<mujoco><worldbody><body name="a" pos="0 0 1"><freejoint/><geom size="0.1"/></body>'
           '<body name="b" pos="0.15 0 1"><freejoint/><geom size="0.1"/></body></worldbody></mujoco>')
    sys = physsys.load(xml)
    st, raw = sym_pipeline_state(A, sys, pipeline)
    from verif.contracts import C06
    c = C06.sym_contact(A, ncon, link_idx=(np.zeros(ncon, dtype=int), np.ones(ncon, dtype=int)))
    import brax.contact as bc
    I = Interp(A)
    mass = raw['mass']
    pre = [mass[i] > 0 for i in range(2)]
    if pipeline == 'spring':
      from brax.spring import collisions
      real_get = bc.get

      def f(s, cc):
        bc.get = lambda sys_, x_: cc
        try:
          return collisions.resolve(sys, s)
        finally:
          bc.get = real_get
      with cut('brax.math:safe_norm'):
        xdv = sym_call(I, f, st, c.obj)
      goal = [sum(mass[i] * xdv.vel[i][k] for i in range(2)) == 0 for k in range(3)]
    else:
      from brax.positional import collisions
      prev = Transform(pos=Sym(A.arr('pp', (2, 3))), rot=Sym(A.arr('pr', (2, 4))))
      sysm = with_sym_mass(sys, mass)
      with cut('brax.math:safe_norm', 'brax.com:inv_inertia', 'brax.math:normalize'):
        x_i, dl = sym_call(I, lambda ss_, s, p, cc: collisions.resolve_position(ss_, s, p, cc), sysm, st, prev, c.obj)
      goal = [sum(mass[i] * (x_i.pos[i][k] - raw['pos'][i][k]) for i in range(2)) == 0 for k in range(3)]
    res = smt_prove(A, pre + c.pre, goal, timeout_s=200, seed=seed())
    res.stats['eqns'] = I.stats['eqns']
    if res.verdict == REFUTED:
      res.replay = _native_collision(pipeline)
    return res
  fn = {'spring': 'brax.spring.collisions:resolve', 'positional': 'brax.positional.collisions:resolve_position'}[pipeline]
  return Obligation('C04/%s/pair[%d contacts]' % (fn.replace('brax.', '').replace(':', '.'), ncon), fn,
                    'contact set between two free bodies (positions, normals, distances, friction, elasticity arbitrary): sum mass * delta-velocity (spring) / '
                    'sum mass * delta-position (positional) = 0, including the per-link averaging by contact count', run, backend='smt', tiers=tiers, budget=900,
                    assumes=('contact.get cut: any contact set between the two links',))


def _native_collision(pipeline):
  import importlib
  from brax.io import mjcf
  pl = importlib.import_module('brax.%s.pipeline' % pipeline)
  xml = ('<mujoco><option gravity="0 0 0" timestep="0.002"/><worldbody><body name="a" pos="0 0 1"><freejoint/><geom size="0.1" mass="1"/></body>'
         '<body name="b" pos="0.18 0.02 1.01"><freejoint/><geom type="capsule" size="0.08 0.1" mass="3"/></body></worldbody></mujoco>')
  sys = mjcf.loads(xml)
  qd = jp.array([0.5, 0, 0, 0, 0, 1.0, -0.5, 0.1, 0, 0.3, 0, 0])
  st = pl.init(sys, sys.init_q, qd)
  worst = 0.0
  for t in range(30):
    p0 = jp.sum(st.mass[:, None] * st.xd_i.vel, axis=0)
    st = jax.jit(pl.step)(sys, st, jp.zeros(0))
    p1 = jp.sum(st.mass[:, None] * st.xd_i.vel, axis=0)
    err = float(jp.max(jp.abs(p1 - p0)))
    worst = max(worst, err)
    if err > 1e-9:
      return {'reproduced': True, 'step': t, 'momentum_error': err}
  return {'reproduced': False, 'worst': worst}


def spring_rest(kind):
  """first law, spring 1-dof kernel: at a pose produced by forward (C08 round-trip lemma: j.pos = 0, j.rot = (C, a S) for a hinge; j.pos = a q, j.rot = id for a slide),
  with jd = 0, tau = 0 and no limit reached, the joint force is exactly zero"""
  def run():
    from verif.engine.opaque import cut
    from brax.spring import joints
    from brax.base import Link, DoF, Transform, Motion, Inertia
    from verif.engine.alg import RingAlg
    from verif.contracts.common import ring_equal
    from verif.specs import sx
    from verif.specs.sx import X
    from fractions import Fraction as F
    A = RingAlg()
    p = A.arr('fr', (4,))
    A.unit(list(p))
    R = sx.qmat([X(e, A) for e in p])
    a, b, c = [[R[r][k].v for r in range(3)] for k in range(3)]          # every orthonormal completion of the axis
    q = A.var('q')
    C, S = A.trig_pair(A.mul(F(1, 2), q))
    ks, kv, kl, ka = [A.var(n) for n in ('ks', 'kv', 'kl', 'ka')]
    z = jp.zeros(())
    T0 = Transform(pos=jp.zeros(3), rot=jp.array([1.0, 0, 0, 0]))
    link = Link(transform=T0, joint=T0, inertia=Inertia(transform=T0, i=jp.eye(3), mass=jp.ones(())), invweight=z, constraint_stiffness=Sym(ks), constraint_vel_damping=Sym(kv),
                constraint_limit_stiffness=Sym(kl), constraint_ang_damping=Sym(ka))
    if kind == 'h':
      ang, vel = np.array([a], dtype=object), np.zeros((1, 3), dtype=object)
      jpos, jrot = np.array([0, 0, 0], dtype=object), np.array([C] + [A.mul(e, S) for e in a], dtype=object)
    else:
      ang, vel = np.zeros((1, 3), dtype=object), np.array([a], dtype=object)
      jpos, jrot = np.array([A.mul(e, q) for e in a], dtype=object), np.array([1, 0, 0, 0], dtype=object)
    dof = DoF(motion=Motion(ang=Sym(ang), vel=Sym(vel)), armature=jp.zeros(1), stiffness=jp.zeros(1), damping=jp.zeros(1), limit=None, invweight=jp.zeros(1), solver_params=jp.zeros((1, 7)))
    A.hint_or([(e, 'ne', 0) for e in a], True, 'a unit axis has a non-zero component')

    def h_frame(I, P, ins):
      # link_to_joint_frame contract (1-dof): ang frame = (a, b, c) completing a hinge axis (identity for a zero axis); vel frame likewise; parity 1
      eye = np.array([[1, 0, 0], [0, 1, 0], [0, 0, 1]], dtype=object)
      fr = np.array([a, b, c], dtype=object)
      out_ang = fr if kind == 'h' else eye
      out_vel = fr if kind == 's' else eye
      par = np.empty((), dtype=object)
      par[()] = 1
      return [out_ang, out_vel, par]
    with cut('brax.kinematics:link_to_joint_frame', 'brax.kinematics:axis_angle_ang'):
      I = Interp(A, cuts={'brax.kinematics:link_to_joint_frame': h_frame})
      from verif.contracts.common import by_name
      f = sym_call(I, by_name(joints._one_dof, ('link', 'j', 'jd', 'dof', 'tau')), link, Transform(pos=Sym(jpos), rot=Sym(jrot)), Motion(ang=jp.zeros(3), vel=jp.zeros(3)), dof, jp.zeros(1))
    r = combine([ring_equal(A, f.vel, np.zeros(3, dtype=object), name='force'), ring_equal(A, f.ang, np.zeros(3, dtype=object), name='torque')])
    if r.verdict == REFUTED:
      rb_ = _rest_case(np.random.RandomState(0), 6)
      r.replay = {'reproduced': bool(rb_), **(rb_ or {})}
    return r
  return Obligation('C04/spring._one_dof/rest[%s]' % kind, 'brax.spring.joints:_one_dof', 'at rest (jd = 0, tau = 0, no limit) in ANY joint configuration q reachable by forward kinematics '
                    '(j = pure rotation about / translation along the axis), the joint constraint force and torque are exactly zero -- for every stiffness, damping, axis and frame completion', run,
                    backend='ring', budget=300)


def generalized_rest():
  def run():
    from brax.generalized import dynamics
    from brax.base import Motion
    from verif.engine.alg import RingAlg
    from verif.contracts.common import ring_equal, Stub
    from verif.contracts import C02
    A = RingAlg()
    sys = C02._forest_sys([-1, 0, 0], '112')
    n, nv = sys.num_links(), sys.qd_size()
    cinr, fm, ii, m = C02.sym_inertia(A, n)
    st = Stub(cinr=cinr, cdof=Motion(ang=Sym(A.arr('da', (nv, 3))), vel=Sym(A.arr('dv', (nv, 3)))), cdofd=Motion(ang=Sym(A.arr('dda', (nv, 3))), vel=Sym(A.arr('ddv', (nv, 3)))),
              cd=Motion(ang=jp.zeros((n, 3)), vel=jp.zeros((n, 3))), qd=jp.zeros(nv))
    tau = sym_call(Interp(A), dynamics.inverse, sys.replace(gravity=jp.zeros(3)), st)
    return ring_equal(A, np.asarray(tau, dtype=object), np.zeros(nv, dtype=object), name='bias at rest')
  return Obligation('C04/generalized.dynamics.inverse/rest', 'brax.generalized.dynamics:inverse', 'qd = 0 (so cd = 0) and no gravity: the bias force is exactly zero for every configuration (symbolic inertias and dof axes), '
                    'so with zero passive force and control qf_smooth = 0 and the system stays at rest', run, backend='ring', budget=200)


def bounded(tier):
  def run():
    import importlib
    from brax.io import mjcf
    from verif.bounded import modelgen
    rng = np.random.RandomState(seed() + 13)
    nm, steps = (4, 30) if tier == 'quick' else (60, 200)
    evals = 0
    worst = 0.0
    distinct = set()
    from verif.engine.oblig import soft_deadline
    for k in range(nm):
      if soft_deadline(0.6, k, 4):
        break
      xml, meta = modelgen.generate(rng, modelgen.Spec(all_free_roots=True, n_links=(2, 5), stiffness_p=0.0))
      sys = mjcf.loads(xml)
      for pipeline in ('spring', 'positional'):
        pl = importlib.import_module('brax.%s.pipeline' % pipeline)
        q, qd = modelgen.rand_state(rng, sys, 1.0, 1.0)
        st = pl.init(sys, jp.asarray(q), jp.asarray(qd))
        step = jax.jit(pl.step)
        mtot = float(jp.sum(st.mass))
        for t in range(steps):
          p0 = jp.sum(st.mass[:, None] * st.xd_i.vel, axis=0)
          st = step(sys, st, jp.asarray(rng.uniform(-1, 1, sys.act_size())))
          p1 = jp.sum(st.mass[:, None] * st.xd_i.vel, axis=0)
          if not bool(jp.all(jp.isfinite(p1))):
            break          # unstable simulation: counted, not compared beyond this point
          # "to round-off": the cancellation error of the sum scales with the individual link momenta (which blow up in an unstable simulation while the
          # total stays put), not with the net momentum
          scale = max(1.0, float(jp.sum(st.mass * jp.max(jp.abs(st.xd_i.vel), axis=1))), float(jp.max(jp.abs(p0))))
          err = float(jp.max(jp.abs(p1 - p0 - mtot * sys.gravity * sys.opt.timestep))) / scale
          evals += 1
          distinct.add((k, pipeline, t))
          worst = max(worst, err)
          if err > 1e-9:
            return Result(REFUTED, '%s: momentum changes by %g (relative) at step %d' % (pipeline, err, t), witness={'xml': xml, 'q': list(map(float, q)), 'qd': list(map(float, qd))},
                          replay={'reproduced': True, 'step': t, 'error': err})
    # rest case, three pipelines
    rest_bad = _rest_case(rng, 3 if tier == 'quick' else 40)
    if rest_bad:
      return Result(REFUTED, 'system at rest does not stay at rest: %s' % (rest_bad['what'],), witness=rest_bad, replay={'reproduced': True, **rest_bad})
    return Result(PROVED, 'bounded: %d steps, worst relative momentum error %.1e; rest case holds' % (evals, worst), stats={'evaluations': evals, 'distinct_nontrivial': len(distinct)})
  return Obligation('C04/bounded/momentum_histories', 'brax.{spring,positional}.pipeline:step', 'BOUNDED: total momentum after every step of histories on free-rooted generator models '
                    '(relative 1e-9, float64) and the rest case (q inside limits, no gravity/control/springs) for the three pipelines', run, backend='bounded', kind='bounded', budget=2400)


def _rest_case(rng, n):
  import importlib
  from brax.io import mjcf
  from verif.bounded import modelgen
  for k in range(n):
    xml, meta = modelgen.generate(rng, modelgen.Spec(n_links=(1, 4), stiffness_p=0.0, gravity=(0, 0, 0), orthogonal=True, single_kind_stack=True, actuators=(0, 0), limits_p=0.3))
    sys = mjcf.loads(xml)
    q, _ = modelgen.rand_state(rng, sys, 0.25, 0.0)
    for pipeline in ('generalized', 'spring', 'positional'):
      pl = importlib.import_module('brax.%s.pipeline' % pipeline)
      st = pl.init(sys, jp.asarray(q), jp.zeros(sys.qd_size()))
      st2 = jax.jit(pl.step)(sys, st, jp.zeros(sys.act_size()))
      dq = float(jp.max(jp.abs(st2.q - st.q))) if st.q.size else 0.0
      dv = float(jp.max(jp.abs(st2.qd))) if st.qd.size else 0.0
      if not (dq < 1e-7 and dv < 1e-6):
        return {'what': '%s moved: |dq|=%g |qd|=%g' % (pipeline, dq, dv), 'xml': xml, 'q': list(map(float, q))}
  return None


def obligations(tier):
  Q, Th = ('quick', 'thorough'), ('thorough',)
  obs = []
  for name in FREE_ROOTED:
    t = Q if name in ('f-h', 'f-(h,s)', 'f-(h-hhh,s)', 'f,f-h', 'f-sh') else Th
    obs.append(third_law('spring', name, t))
    obs.append(third_law('positional', name, t))
  obs.append(third_law('spring', 'f-hs,s-h (mixed roots)', Q))
  for name in ('f-h', 'f-(h,s)', 'f-h-hh'):
    obs.append(position_update(name, Q if name != 'f-h-hh' else Th))
  for name in ('f-h', 'f-(h,s)'):
    obs.append(step_momentum('spring', name, Q))
    obs.append(step_momentum('positional', name, Q))
  obs.append(step_momentum('spring', 'f-(h-hhh,s)', Th))
  obs.append(step_momentum('positional', 'f-h-hh', Th))
  obs += [collision_pair('spring', 1, Q), collision_pair('spring', 2, Q), collision_pair('positional', 1, Q), collision_pair('positional', 2, Th), spring_rest('h'), spring_rest('s'), generalized_rest(), bounded(tier)]
  # "at rest in any joint configuration INSIDE ITS LIMITS": the rest clauses above are stated without limits; limits that are not reached change nothing in the joint kernels
  # (C06's relational obligations, carried here as premises so that a limit term acting inside the range is reported against C04 too)
  from verif.contracts import C06
  for ob in (C06.spring_limits_inert('h', Q), C06.spring_limits_inert('s', Q), C06.positional_limits_inert('h', Q), C06.positional_limits_inert('s', Q)):
    ob.id = ob.id.replace('C06/', 'C04/premise/')
    obs.append(ob)

  def _sv():
    from brax.spring import pipeline
    from brax.io import mjcf
    sys = mjcf.loads(tree_xml(SHAPES['f-(h,s)']))
    st0 = pipeline.init(sys, sys.init_q, jp.zeros(sys.qd_size()))
    leaves, treedef = jax.tree_util.tree_flatten(st0)

    def f(q_, qd_, act):
      st = pipeline.init(sys, q_, qd_)
      st = pipeline.step(sys, st, act)
      return st.x.pos, st.xd.vel, st.q
    return f, [np.asarray(sys.init_q, dtype=float), np.zeros(sys.qd_size()), np.zeros(sys.act_size())]
  from verif.contracts.common import engine_selfcheck
  obs.append(engine_selfcheck('C04/engine/self_validation[spring init+step]', 'brax.spring.pipeline:init,step', _sv, budget=900))

  def canary():
    # claiming ANGULAR momentum-free internal torques about the origin without lever arms must be refuted
    from verif.engine.opaque import cut
    from brax.spring import joints
    A = Z3Alg()
    sys = physsys.load(tree_xml(SHAPES['f-h']))
    st, raw = sym_pipeline_state(A, sys, 'spring')
    with cut(*SPRING_KERNELS):
      xf = sym_call(Interp(A), joints.resolve, sys, st, Sym(A.arr('tau', (sys.qd_size(),))))
    return smt_prove(A, [], [sum(xf.ang[i][0] for i in range(2)) == 0], timeout_s=30)
  obs.append(Obligation('C04/canary/torque_sum', 'brax.spring.joints:resolve', 'CANARY: link torques about their own centres of mass sum to zero (false: lever arms differ; must be refuted)', canary, kind='canary'))
  return obs
