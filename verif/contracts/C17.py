"""C17 -- replay buffers behave as bounded FIFO queues with faithful sampling.

Representation invariant  wf(state): 0 <= sp <= ip <= N  (cyclic: 0 <= sp < max(ip,1)), data.shape = (N,d).
Abstract view: view(state) = data[0:ip] in insertion order; unsampled = view[sp:].
Every public operation gets  requires wf(old)  ensures wf(new) & view(new) = op_spec(view(old), args)  over the WHOLE
view, plus a frame clause (key / untouched fields).  FIFO behaviour over any history follows by induction.
"""
from __future__ import annotations
import numpy as np
import jax
import jax.numpy as jp

from verif.contracts.common import (smt_custom, Obligation, Result, Sym, sym_call, Interp, Z3Alg, eqs, smt_prove, combine,
                                    PROVED, REFUTED, UNDECIDED, ERROR, is_sym, isc, witness_arrays, seed)
from verif.engine import pathexec as px

LEVEL = 'proof'
EXPECTED_MIN = {'quick': 30, 'thorough': 60}
EXPLANATION = ('insert_internal is verified with SYMBOLIC cursors and contents against the whole-view contract (z3, ints + reals); the sampling '
               'methods are verified for every cursor position of the finite cursor domain with symbolic contents (and symbolic PRNG output for '
               'the uniform queue); the host-side guards are executed path-exhaustively on the real methods for 1-4 shards (per-shard capacity, count and batch, as the sharded wrappers call them); the host counter invariant that '
               'discharges the sampling preconditions is a lemma over those contracts.  Histories: induction over wf + view.')
TRUSTED = ['paper lemma: wf + whole-view postconditions of insert/sample imply bounded-FIFO semantics over any operation history (induction on the history)',
           'jax.random.randint(key, shape, lo, hi) returns integers in [lo, hi) and jax.random.split is a function of the key (assumed contracts, cut)',
           'flatten_util.ravel_pytree / its unflatten are inverse (d=record width; records are flat vectors here)']
ASSUMPTIONS = ['int32 cursors treated as mathematical integers (capacities far below 2^31)', 'capacity N <= 6 (quick: N <= 4), batch <= N, record width 1-2',
               'sharded wrappers: relational proof on forced host devices for enumerated/sampled cursor combinations (contents symbolic); PmapWrapper.size (psum) natively only']


def _rb():
  from brax.training import replay_buffers as rb
  return rb


def _mk(cls, N, d, b, **kw):
  rb = _rb()
  return getattr(rb, cls)(N, jp.zeros((d,)), b, **kw)


KEY = np.array([7, 11], dtype=np.uint32)


def insert_view(N, k, d, tiers):
  def body(A):
    import z3
    rb = _rb()
    q = _mk('Queue', N, d, 1)
    data, upd = A.arr('data', (N, d)), A.arr('upd', (k, d))
    ip, sp = A.var('ip', 'I'), A.var('sp', 'I')
    st = rb.ReplayBufferState(data=Sym(data), insert_position=Sym(ip, np.int32), sample_position=Sym(sp, np.int32), key=KEY)
    new = sym_call(Interp(A), q.insert_internal, st, Sym(upd))
    pre = [0 <= sp, sp <= ip, ip <= N]
    nip, nsp = new.insert_position.item(), new.sample_position.item()
    ev = z3.If(ip + k - N > 0, ip + k - N, 0)
    goal = [nip == z3.If(ip + k < N, ip + k, N), nsp == z3.If(sp - ev > 0, sp - ev, 0), 0 <= nsp, nsp <= nip, nip <= N]
    for ip0 in range(N + 1):
      cat = [data[j] for j in range(ip0)] + [upd[j] for j in range(k)]
      nip0 = min(N, ip0 + k)
      off = ip0 + k - nip0
      rows = []
      for j in range(nip0):
        rows += [new.data[j][c] == cat[off + j][c] for c in range(d)]
      goal.append(z3.Implies(ip == ip0, z3.And(*rows)))
    if not (isinstance(new.key, np.ndarray) and not is_sym(new.key) and np.array_equal(new.key, KEY)):
      goal.append(False)
    goal += [c for _, c in A.side]

    def replay(w):
      import collections
      ipv, spv = int(w.get('ip', 0)), int(w.get('sp', 0))
      dv = witness_arrays(w, {'data': (N, d)})['data']
      uv = witness_arrays(w, {'upd': (k, d)})['upd']
      s = rb.ReplayBufferState(data=jp.asarray(dv), insert_position=jp.asarray(ipv, jp.int32), sample_position=jp.asarray(spv, jp.int32), key=jp.asarray(KEY))
      n = q.insert_internal(s, jp.asarray(uv))
      view = list(dv[:ipv]) + list(uv)
      want = view[-N:]
      nipv = int(n.insert_position)
      got = [np.asarray(n.data[j]) for j in range(nipv)]
      ev_ = max(0, ipv + k - N)
      bad = (nipv != min(N, ipv + k) or int(n.sample_position) != max(0, spv - ev_)
             or any(not np.allclose(g, w_) for g, w_ in zip(got, want)))
      return {'reproduced': bool(bad), 'inputs': {'ip': ipv, 'sp': spv, 'data': dv.tolist(), 'batch': uv.tolist()},
              'observed': {'ip': nipv, 'sp': int(n.sample_position), 'view': [g.tolist() for g in got]},
              'expected': {'ip': min(N, ipv + k), 'sp': max(0, spv - ev_), 'view': [np.asarray(x).tolist() for x in want]}}
    return pre, goal, replay
  return smt_custom('C17/QueueBase.insert_internal/view[N=%d,k=%d,d=%d]' % (N, k, d), 'brax.training.replay_buffers:QueueBase.insert_internal',
                    "wf(old): ip' = min(N, ip+k); view' = last N of (view ++ batch) (every slot below ip'); sp' = max(0, sp - evicted), evicted = max(0, ip+k-N); "
                    "wf(new); key untouched; for ALL cursors and contents", body, tiers=tiers, timeout=100, budget=240)


def _cases_noncyclic(N, b):
  return [(ip, sp) for ip in range(N + 1) for sp in range(ip + 1) if ip - sp >= b]


def _cases_cyclic(N):
  return [(ip, sp) for ip in range(1, N + 1) for sp in range(ip)]


def queue_sample(N, b, cyclic, d, tiers):
  tag = 'cyclic' if cyclic else 'fifo'

  def run():
    rb = _rb()
    q = _mk('Queue', N, d, b, cyclic=cyclic)
    cases = _cases_cyclic(N) if cyclic else _cases_noncyclic(N, b)
    if not cases:
      return Result(ERROR, 'no cursor case satisfies the precondition (vacuous)')
    bad = []
    for ip, sp in cases:
      A = Z3Alg()
      data = A.arr('data', (N, d))
      st = rb.ReplayBufferState(data=Sym(data), insert_position=np.int32(ip), sample_position=np.int32(sp), key=KEY)
      new, batch = sym_call(Interp(A), q.sample_internal, st)
      want_rows = [data[(sp + i) % ip] for i in range(b)] if cyclic else [data[sp + i] for i in range(b)]
      want_sp = (sp + b) % ip if cyclic else sp + b
      ok = int(new.sample_position) == want_sp and int(new.insert_position) == ip
      ok = ok and _same(batch, want_rows) and _same(new.data, data) and np.array_equal(new.key, KEY)
      size = q.size(new)
      ok = ok and int(size) == (ip if cyclic else ip - want_sp)
      if not ok:
        bad.append((ip, sp))
    if bad:
      ip, sp = bad[0]
      return Result(REFUTED, 'cursor cases violating the sample contract: %s' % bad[:5], witness={'ip': ip, 'sp': sp},
                    replay=_replay_sample(q, N, d, b, ip, sp, cyclic))
    return Result(PROVED, 'all %d cursor cases, contents symbolic: batch / cursors / frame as specified' % len(cases),
                  stats={'cases': len(cases)})
  clause = ("requires ip >= 1: batch_i = view[(sp+i) mod ip], sp' = (sp+b) mod ip, size = ip" if cyclic else
            "requires ip - sp >= b: batch = view[sp:sp+b] (oldest unsampled first), sp' = sp+b, size = ip - sp'") + '; data, ip, key untouched'
  return Obligation('C17/Queue.sample_internal/%s[N=%d,b=%d]' % (tag, N, b), 'brax.training.replay_buffers:Queue.sample_internal,Queue.size',
                    clause, run, backend='case-split+normal-form', tiers=tiers, budget=300)


def _same(got, want):
  g = np.asarray(got, dtype=object)
  w = np.asarray(want, dtype=object).reshape(g.shape)
  for a, b in zip(g.reshape(-1), w.reshape(-1)):
    if a is b:
      continue
    try:
      if a.eq(b):
        continue
    except AttributeError:
      if isc(a) and isc(b) and a == b:
        continue
    return False
  return True


def _replay_sample(q, N, d, b, ip, sp, cyclic):
  rb = _rb()
  dv = np.arange(N * d, dtype=float).reshape(N, d) + 1
  s = rb.ReplayBufferState(data=jp.asarray(dv), insert_position=jp.asarray(ip, jp.int32), sample_position=jp.asarray(sp, jp.int32), key=jp.asarray(KEY))
  n, batch = q.sample_internal(s)
  want = [dv[(sp + i) % ip] for i in range(b)] if cyclic else [dv[sp + i] for i in range(b)]
  bad = not np.allclose(np.asarray(batch), np.asarray(want)) or int(n.sample_position) != ((sp + b) % ip if cyclic else sp + b)
  return {'reproduced': bool(bad), 'inputs': {'ip': ip, 'sp': sp, 'data': dv.tolist()}, 'observed': np.asarray(batch).tolist(),
          'expected': np.asarray(want).tolist(), 'observed_sp': int(n.sample_position)}


def uniform_sample(N, b, d, tiers):
  def run():
    import z3
    from verif.engine.opaque import cut
    rb = _rb()
    q = _mk('UniformSamplingQueue', N, d, b)
    cases = [(ip, sp) for ip in range(1, N + 1) for sp in range(ip)]
    results = []
    r = _uniform_inner(rb, q, cases, N, b, d, results)
    if r is not None:
      if r.verdict == REFUTED and r.witness and 'ip' in r.witness:
        r.replay = _replay_uniform(q, N, d, b, r.witness['ip'], r.witness['sp'])      # native replay, cuts removed
      return r
    r = combine(results)
    r.stats['cases'] = len(cases)
    if r.verdict == PROVED:
      r.detail = 'all %d cursor cases (sp < ip), contents and PRNG output symbolic' % len(cases)
    return r
  return Obligation('C17/UniformSamplingQueue.sample_internal/range[N=%d,b=%d]' % (N, b),
                    'brax.training.replay_buffers:UniformSamplingQueue.sample_internal',
                    "requires sp < ip: every returned row is data[j] for some sp <= j < ip (a held record) whatever bits the PRNG returns; key' = split(key)[0]; "
                    'data and cursors untouched; pure function of (state, key)', run, backend='smt', tiers=tiers, budget=400,
                    assumes=('jax.random.randint / split cut with assumed contracts',))


def _uniform_inner(rb, q, cases, N, b, d, results):
    import z3
    from verif.engine.opaque import cut
    with cut('jax.random:randint', 'jax.random:split'):
      for ip, sp in cases:
        A = Z3Alg()
        data = A.arr('data', (N, d))
        key = A.arr('key', (2,), 'I')
        calls = []

        def h_split(I, P, ins, A=A):
          outs = I.fresh_outputs(P, tag='split')
          calls.append(('split', ins))
          return outs

        def h_randint(I, P, ins, A=A, ip=ip, sp=sp):
          from verif.engine.opaque import arg
          outs = I.fresh_outputs(P, tag='randint')
          lo, hi = arg(P, ins, 'minval'), arg(P, ins, 'maxval')
          lo = lo.item() if is_sym(lo) else int(np.asarray(lo))
          hi = hi.item() if is_sym(hi) else int(np.asarray(hi))
          for e in outs[0].reshape(-1):
            A.assume += [e >= lo, e < hi]          # ASSUMED contract of jax.random.randint(minval=lo, maxval=hi), with the ACTUAL arguments
          calls.append(('randint', ins, (lo, hi)))
          return outs
        I = Interp(A, cuts={'jax.random:split': h_split, 'jax.random:randint': h_randint})
        st = rb.ReplayBufferState(data=Sym(data), insert_position=np.int32(ip), sample_position=np.int32(sp), key=Sym(key, np.uint32))
        new, batch = sym_call(I, q.sample_internal, st)
        # the randint call must receive minval = sp, maxval = ip and a key derived from the state key by split
        kinds = [c[0] for c in calls]
        if kinds != ['split', 'randint']:
          return Result(REFUTED, 'sampling does not consist of one split and one randint: %s' % kinds, replay={'reproduced': False})
        split_out = I.calls[0][3][0]
        r = I.calls[1][3][0].reshape(-1)
        goal = []
        for i in range(b):
          held = []
          for j in range(N):
            held.append(z3.And(r[i] == j, *[batch[i][c] == data[j][c] for c in range(d)]))
          goal.append(z3.Or(*held))
          goal += [r[i] >= sp, r[i] < ip]
        goal += [c for _, c in A.side]
        frame = _same(new.data, data) and int(new.insert_position) == ip and int(new.sample_position) == sp and _same(new.key, split_out[0])
        if not frame:
          return Result(REFUTED, 'frame clause fails at ip=%d sp=%d (data/cursors changed, or new key is not split(key)[0])' % (ip, sp),
                        witness={'ip': ip, 'sp': sp}, replay={'reproduced': False})
        res = smt_prove(A, [], goal, timeout_s=30)
        if res.verdict == REFUTED:
          res.witness = dict(res.witness or {}, ip=ip, sp=sp)
          res.detail = 'ip=%d sp=%d: a sampled row is not a held row with index in [sp, ip)' % (ip, sp)
          return res
        results.append(res)
    return None


def _replay_uniform(q, N, d, b, ip, sp):
  rb = _rb()
  dv = np.arange(N * d, dtype=float).reshape(N, d) + 1
  held = {tuple(r) for r in dv[sp:ip]}
  for s in range(200):
    st = rb.ReplayBufferState(data=jp.asarray(dv), insert_position=jp.asarray(ip, jp.int32), sample_position=jp.asarray(sp, jp.int32), key=jax.random.PRNGKey(s))
    _, batch = q.sample_internal(st)
    rows = [tuple(r) for r in np.asarray(batch)]
    if any(r not in held for r in rows):
      return {'reproduced': True, 'inputs': {'ip': ip, 'sp': sp, 'seed': s, 'data': dv.tolist()}, 'observed': [list(r) for r in rows],
              'held': [list(r) for r in sorted(held)]}
  return {'reproduced': False}


# ---- host-side guards (Engine P on the real methods) ------------------------------------------------------------
class _Self:
  pass


def host_guards(cyclic):
  def run():
    import z3
    rb = _rb()
    N, size, b = z3.Int('N'), z3.Int('size'), z3.Int('b')
    base = [N >= 1, size >= 0, size <= N, b >= 1]
    out = []
    ok, detail, n = True, [], 0
    # the guards are shared by the sharded wrappers, which pass shards = number of devices and the TOTAL batch: capacity, count and batch are PER SHARD
    for shards, k in ((1, 3), (2, 3), (3, 2), (4, 1)):
      ok_, detail_, n_ = _guards_at(rb, cyclic, N, size, b, base, shards, k)
      ok, detail, n = ok and ok_, detail + detail_, n + n_
    if not ok:
      return Result(REFUTED, '; '.join(detail)[:600], replay=_replay_guards(cyclic))
    return Result(PROVED, '%d paths of the real check_can_insert / check_can_sample, symbolic capacity, count and batch; shards in {1,2,3,4}' % n, stats={'paths': n})
  return Obligation('C17/Queue.check_can/guards[%s]' % ('cyclic' if cyclic else 'fifo'),
                    'brax.training.replay_buffers:QueueBase.check_can_insert,Queue.check_can_sample',
                    "per shard (shards in {1,2,3,4}; the wrappers pass the total batch): insert raises iff batch > capacity, else _size' = min(N, _size + k); sample raises iff _size < batch "
                    "(refuses to sample more than it holds), else _size' = _size - batch (non-cyclic) or unchanged (cyclic); all N, _size, batch", run, backend='path', budget=120)


def _guards_at(rb, cyclic, N, size, b, base, shards, k):
    import z3

    def mk():
      s = _Self()
      s._data_shape = (px.SN(N), 2)
      s._size = px.SN(size)
      s._sample_batch_size = px.SN(b)
      s._cyclic = cyclic
      return s
    # insert: raises iff k > N ; otherwise _size' = min(N, _size + k)
    def run_insert():
      s = mk()
      rb.QueueBase.check_can_insert(s, None, (np.zeros((k * shards, 2)),), shards)
      return s._size
    paths = px.explore(run_insert, base=base, catch=(ValueError,))
    ok = True
    detail = []
    for p in paths:
      if p.outcome == 'raise':
        v, m = px.valid(base + p.pc, N < k)
      else:
        new = px.E(p.value)
        v, m = px.valid(base + p.pc, z3.And(N >= k, new == z3.If(size + k < N, size + k, N)))
      if v != 'proved':
        ok = False
        detail.append("check_can_insert[shards=%d] path %s: %s %s" % (shards, p.outcome, v, m))
    # sample: raises iff _size < b ; otherwise _size' = _size - b (non cyclic) / unchanged (cyclic)
    def run_sample():
      s = mk()
      rb.Queue.check_can_sample(s, None, shards)
      return s._size
    paths2 = px.explore(run_sample, base=base, catch=(ValueError,))
    for p in paths2:
      if p.outcome == 'raise':
        v, m = px.valid(base + p.pc, size < b)
      else:
        new = px.E(p.value)
        v, m = px.valid(base + p.pc, z3.And(size >= b, new == (size if cyclic else size - b)))
      if v != 'proved':
        ok = False
        detail.append('check_can_sample path %s: %s %s' % (p.outcome, v, m))
    return ok, detail, len(paths) + len(paths2)


def _replay_guards(cyclic):
  """the real guards, per-shard bookkeeping against a plain counter, for 1 and 2 shards (the wrappers pass the total batch and the device count)"""
  rb = _rb()
  for shards in (1, 2):
    for N in (1, 2, 3):
      for b in (1, 2, 3):
        q = rb.Queue(N, jp.zeros((1,)), b, cyclic=cyclic)
        st = q.init(jax.random.PRNGKey(0))
        held = 0
        for step in range(6):
          try:
            q.check_can_sample(st, shards)
            if held < b:
              return {'reproduced': True, 'what': 'sample accepted with %d held < batch %d per shard (N=%d, shards=%d)' % (held, b, N, shards)}
            if not cyclic:
              held -= b
          except ValueError:
            if held >= b:
              return {'reproduced': True, 'what': 'sample refused with %d held >= batch %d per shard (N=%d, shards=%d)' % (held, b, N, shards)}
          k = 1 + step % N
          q.check_can_insert(st, (np.zeros((k * shards, 1)),), shards)
          held = min(N, held + k)
  return {'reproduced': False}


def counter_lemma():
  def body(A):
    import z3
    N, ip, sp, size, k, b = [A.var(n, 'I') for n in ('N', 'ip', 'sp', 'size', 'k', 'b')]
    pre = [N >= 1, 0 <= sp, sp <= ip, ip <= N, 1 <= k, k <= N, b >= 1, size == ip - sp]
    ev = z3.If(ip + k - N > 0, ip + k - N, 0)
    nip = z3.If(ip + k < N, ip + k, N)
    nsp = z3.If(sp - ev > 0, sp - ev, 0)
    nsize = z3.If(size + k < N, size + k, N)
    goal = [nsize == nip - nsp,                                    # insert preserves  _size = ip - sp
            z3.Implies(size >= b, z3.And(ip - sp >= b, size - b == ip - (sp + b), sp + b <= ip))]   # accepted sample: device precondition + invariant
    return pre, goal
  return smt_custom('C17/lemma/host_counter', 'brax.training.replay_buffers:Queue (contracts of insert_internal, sample_internal, check_can_*)',
                    'lemma over the contracts: the host counter invariant _size = ip - sp is preserved by every accepted insert and sample, and an accepted '
                    'sample satisfies the precondition ip - sp >= batch of sample_internal (linear integer arithmetic, all N)', body)


def counter_lemma_cyclic():
  def body(A):
    import z3
    N, ip, sp, size, k, b = [A.var(n, 'I') for n in ('N', 'ip', 'sp', 'size', 'k', 'b')]
    pre = [N >= 1, 0 <= sp, sp <= ip, ip <= N, 1 <= k, k <= N, b >= 1, size == ip]
    nip = z3.If(ip + k < N, ip + k, N)
    nsize = z3.If(size + k < N, size + k, N)
    goal = [nsize == nip, z3.Implies(size >= b, ip >= 1)]
    return pre, goal
  return smt_custom('C17/lemma/host_counter_cyclic', 'brax.training.replay_buffers:Queue (cyclic)',
                    'cyclic mode: _size = ip is preserved by inserts; an accepted sample has ip >= 1 (precondition of the cyclic sample contract)', body)


def init_ob():
  def run():
    rb = _rb()
    bad = []
    for cls in ('Queue', 'UniformSamplingQueue'):
      q = _mk(cls, 3, 2, 1)
      st = q.init(jp.asarray(KEY))
      if not (int(st.insert_position) == 0 and int(st.sample_position) == 0 and st.data.shape == (3, 2) and np.array_equal(np.asarray(st.key), KEY)):
        bad.append(cls)
      if int(q.size(st)) != 0:
        bad.append(cls + '.size')
    if bad:
      return Result(REFUTED, 'init does not give the empty queue: %s' % bad, replay={'reproduced': True})
    return Result(PROVED, 'init: ip = sp = 0 (empty view), data shape (N,d), key stored; size = 0 (concrete evaluation)')
  return Obligation('C17/QueueBase.init/empty', 'brax.training.replay_buffers:QueueBase.init', 'init gives wf state with empty view, size 0', run, backend='eval', budget=60)


def sharded(kind, D, N, k, b, cyclic, tiers):
  """Pjit/PmapWrapper = one verified queue per shard + interleaving: wrapper(state, samples) vs the per-shard insert_internal / sample_internal (relational)"""
  def run():
    import itertools
    from jax.sharding import Mesh
    rb = _rb()
    if len(jax.devices()) < D:
      return Result(UNDECIDED, 'only %d host devices (XLA_FLAGS --xla_force_host_platform_device_count not in effect)' % len(jax.devices()))
    d = 1
    inner = rb.Queue(N, jp.zeros((d,)), b, cyclic=cyclic)
    if kind == 'pjit':
      mesh = Mesh(np.array(jax.devices()[:D]), ('x',))
      w = rb.PjitWrapper(inner, mesh, ('x',))
    else:
      w = rb.PmapWrapper(inner, local_device_count=D)
    cur = [(ip, sp) for ip in range(N + 1) for sp in range(ip + 1)]
    combos = list(itertools.product(cur, repeat=D))
    rng = np.random.RandomState(seed() + 71)
    if len(combos) > 40:
      combos = [combos[i] for i in rng.choice(len(combos), 40, replace=False)]
    ncase = 0
    for combo in combos:
      A = Z3Alg()
      data = A.arr('data', (D, N, d))
      upd = A.arr('upd', (k * D, d))
      ip = np.array([c[0] for c in combo], dtype=np.int32)
      sp = np.array([c[1] for c in combo], dtype=np.int32)
      keys = np.tile(KEY, (D, 1))
      st = rb.ReplayBufferState(data=Sym(data), insert_position=ip, sample_position=sp, key=keys)

      def w_insert(s, x):
        if kind == 'pjit':
          with w._mesh:
            return w._partitioned_insert(s, x)
        x = jax.tree_util.tree_map(lambda y: jp.reshape(y, (-1, D) + y.shape[1:]), x)
        x = jax.tree_util.tree_map(lambda y: jp.swapaxes(y, 0, 1), x)
        return jax.pmap(inner.insert_internal)(s, x)
      inner._size = 0
      new = sym_call(Interp(A), lambda s, x: w.insert(s, x), st, Sym(upd))          # the REAL wrapper method (host guard included)
      for s_ in range(D):
        one = rb.ReplayBufferState(data=Sym(data[s_]), insert_position=ip[s_], sample_position=sp[s_], key=KEY)
        ref = sym_call(Interp(A), inner.insert_internal, one, Sym(upd[s_::D]))          # shard s receives rows s, s+D, ...
        ok = _same(new.data[s_], ref.data) and int(new.insert_position[s_]) == int(ref.insert_position) and int(new.sample_position[s_]) == int(ref.sample_position)
        if not ok:
          return Result(REFUTED, '%s insert: shard %d differs from the wrapped queue fed rows %d, %d+D, ... (cursors %s)' % (kind, s_, s_, s_, combo), witness={'cursors': [list(c) for c in combo]},
                        replay=_native_sharded(kind, D))
      # sample (only where every shard may sample)
      can = all((c[0] >= 1) if cyclic else (c[0] - c[1] >= b) for c in combo)
      if can:
        inner._size = N          # host counter: enough records for the guard (the device-side precondition is `can`)
        new2, batch = sym_call(Interp(A), lambda s: w.sample(s), st)
        for s_ in range(D):
          one = rb.ReplayBufferState(data=Sym(data[s_]), insert_position=ip[s_], sample_position=sp[s_], key=KEY)
          ref_s, ref_b = sym_call(Interp(A), inner.sample_internal, one)
          rows = [batch[i * D + s_] for i in range(b)]                                       # interleaved in shard order
          if not (_same(rows, ref_b) and int(new2.sample_position[s_]) == int(ref_s.sample_position) and _same(new2.data[s_], data[s_])):
            return Result(REFUTED, '%s sample: batch is not the per-shard batches interleaved in shard order (cursors %s)' % (kind, combo), witness={'cursors': [list(c) for c in combo]},
                          replay=_native_sharded(kind, D))
      if kind == 'pjit':
        with w._mesh:
          tot = int(w._partitioned_size(rb.ReplayBufferState(data=jp.zeros((D, N, d)), insert_position=jp.asarray(ip), sample_position=jp.asarray(sp), key=jp.asarray(keys))))
        want = sum((c[0] if cyclic else c[0] - c[1]) for c in combo)
        if tot != want:
          return Result(REFUTED, 'pjit size %d != sum of shard sizes %d' % (tot, want), replay={'reproduced': True})
      ncase += 1
    return Result(PROVED, '%d cursor combinations (contents and inserted rows symbolic): each shard behaves as the wrapped queue on rows s, s+D, ...; sampled batch interleaved in shard order%s'
                  % (ncase, '; size = sum' if kind == 'pjit' else ''), stats={'cases': ncase})
  return Obligation('C17/%sWrapper/interleave[D=%d,N=%d,k=%d,b=%d,%s]' % ('Pjit' if kind == 'pjit' else 'Pmap', D, N, k, b, 'cyclic' if cyclic else 'fifo'),
                    'brax.training.replay_buffers:%sWrapper' % ('Pjit' if kind == 'pjit' else 'Pmap'),
                    'relational, forced host devices: wrapper.insert = per-shard insert_internal on rows s, s+D, ...; wrapper.sample = per-shard batches interleaved in shard order, per-shard '
                    'cursors advanced; size = sum of shard sizes (pjit); contents symbolic, cursor combinations enumerated/sampled', run, backend='case-split+normal-form', tiers=tiers, budget=900)


def _pmap_insert(w):
  def f(s, x):
    x = jax.tree_util.tree_map(lambda y: jp.reshape(y, (-1, w._num_devices) + y.shape[1:]), x)
    x = jax.tree_util.tree_map(lambda y: jp.swapaxes(y, 0, 1), x)
    return jax.pmap(w._buffer.insert_internal)(s, x)
  return f


def _w_sample(w, kind):
  if kind == 'pjit':
    def f(s):
      with w._mesh:
        return w._partitioned_sample(s)
    return f

  def g(s):
    s2, samples = jax.pmap(w._buffer.sample_internal)(s)
    samples = jax.tree_util.tree_map(lambda x: jp.swapaxes(x, 0, 1), samples)
    samples = jax.tree_util.tree_map(lambda x: jp.reshape(x, (-1,) + x.shape[2:]), samples)
    return s2, samples
  return g


def _native_sharded(kind, D):
  import collections
  from jax.sharding import Mesh
  rb = _rb()
  N, b = 3, 1
  inner = rb.Queue(N, jp.zeros((1,)), b)
  w = rb.PjitWrapper(inner, Mesh(np.array(jax.devices()[:D]), ('x',)), ('x',)) if kind == 'pjit' else rb.PmapWrapper(inner, local_device_count=D)
  st = w.init(jax.random.PRNGKey(0))
  models = [collections.deque(maxlen=N) for _ in range(D)]
  nxt = 1.0
  for step in range(6):
    vals = np.arange(2 * D, dtype=float) + nxt
    nxt += 2 * D
    st = w.insert(st, jp.asarray(vals)[:, None])
    for i, v in enumerate(vals):
      models[i % D].append(v)
    st, batch = w.sample(st)
    want = [models[s_][0] for s_ in range(D)]
    for m in models:
      m.popleft()
    if not np.allclose(np.asarray(batch).reshape(-1), want):
      return {'reproduced': True, 'step': step, 'batch': np.asarray(batch).reshape(-1).tolist(), 'expected': want}
  return {'reproduced': False}


def bounded_sharded(tiers):
  """BOUNDED stand-in (not proof): PjitWrapper on one host device behaves like the wrapped queue; D>1 needs forced host devices"""
  def run():
    import collections
    rb = _rb()
    rng = np.random.RandomState(seed())
    n_eval = 0
    from jax.sharding import Mesh
    mesh = Mesh(np.array(jax.devices()[:1]), ('x',))
    for N, b, cyc in [(3, 1, False), (4, 2, False), (3, 2, True)]:
      q = rb.PjitWrapper(rb.Queue(N, jp.zeros((1,)), b, cyclic=cyc), mesh, ('x',))
      st = q.init(jax.random.PRNGKey(0))
      model = collections.deque(maxlen=N)
      sp = 0
      nxt = 1.0
      for step in range(12):
        if rng.rand() < 0.6:
          k = rng.randint(1, N + 1)
          vals = np.arange(k, dtype=float) + nxt
          nxt += k
          ev = max(0, len(model) + k - N)
          for v in vals:
            model.append(v)
          sp = max(0, sp - ev)
          st = q.insert(st, jp.asarray(vals)[:, None])
        else:
          try:
            st2, batch = q.sample(st)
          except ValueError:
            avail = len(model) if cyc else len(model) - sp
            if avail >= b:
              return Result(REFUTED, 'sharded sample refused with %d available' % avail, replay={'reproduced': True})
            continue
          st = st2
          ml = list(model)
          want = [ml[(sp + i) % len(ml)] for i in range(b)] if cyc else ml[sp:sp + b]
          sp = (sp + b) % len(ml) if cyc else sp + b
          n_eval += 1
          if not np.allclose(np.asarray(batch).reshape(-1), want):
            return Result(REFUTED, 'PjitWrapper batch %s != deque model %s' % (np.asarray(batch).reshape(-1), want), replay={'reproduced': True})
    return Result(PROVED, 'bounded: %d sampled batches agree with collections.deque' % n_eval, stats={'evaluations': n_eval, 'distinct_nontrivial': n_eval})
  return Obligation('C17/PjitWrapper/bounded[D=1]', 'brax.training.replay_buffers:PjitWrapper', 'BOUNDED: random op sequences vs collections.deque, one shard',
                    run, backend='bounded', kind='bounded', tiers=tiers, budget=300)


def obligations(tier):
  Q, Th = ('quick', 'thorough'), ('thorough',)
  obs = []
  for N in range(1, 7):
    for k in range(1, N + 1):
      t = Q if N <= 4 else Th
      obs.append(insert_view(N, k, 1, t))
  obs.append(insert_view(3, 2, 2, Q))
  for N in range(1, 7):
    for b in range(1, min(N, 4) + 1):
      t = Q if (N <= 4 and b <= 2) or (N, b) in ((3, 3), (4, 4)) else Th
      obs.append(queue_sample(N, b, False, 1, t))
      obs.append(queue_sample(N, b, True, 1, t))
  obs.append(queue_sample(3, 2, True, 2, Q))
  for N, b, t in [(2, 1, Q), (3, 2, Q), (4, 2, Q), (4, 4, Th), (5, 2, Th), (6, 4, Th)]:
    obs.append(uniform_sample(N, b, 1, t))
  obs += [host_guards(False), host_guards(True), counter_lemma(), counter_lemma_cyclic(), init_ob(), bounded_sharded(Q)]
  obs += [sharded('pjit', 2, 3, 1, 1, False, Q), sharded('pjit', 2, 3, 2, 2, True, Q), sharded('pmap', 2, 3, 2, 1, False, Q), sharded('pjit', 4, 2, 1, 1, False, Th), sharded('pmap', 2, 4, 2, 2, True, Th)]

  # canary: view contract with the eviction forgotten in sp' (must be refuted)
  def canary(A):
    rb = _rb()
    N, k, d = 3, 2, 1
    q = _mk('Queue', N, d, 1)
    data, upd = A.arr('data', (N, d)), A.arr('upd', (k, d))
    ip, sp = A.var('ip', 'I'), A.var('sp', 'I')
    st = rb.ReplayBufferState(data=Sym(data), insert_position=Sym(ip, np.int32), sample_position=Sym(sp, np.int32), key=KEY)
    new = sym_call(Interp(A), q.insert_internal, st, Sym(upd))
    return [0 <= sp, sp <= ip, ip <= N], [new.sample_position.item() == sp]
  obs.append(smt_custom('C17/canary/sp_unchanged', 'brax.training.replay_buffers:QueueBase.insert_internal', 'CANARY: insert never moves sample_position (must be refuted)', canary, kind='canary'))
  return obs
