"""C03 -- simulation is differentiable: gradients are finite and correct.

What contracts can decide here is the real-arithmetic shadow of "finite": in the forward-mode derivative program (jax.jvp of the REAL helper) every
denominator is non-zero and every radicand is non-negative for ALL inputs in the helper's precondition -- including the singular ones (x = 0, w = 0,
axis-aligned vectors) the safe_* helpers exist for.  This is deliberately stronger than needed (it does not rely on masking by `where`, which in JAX
still yields 0 * inf = NaN in the gradient).  Correctness of pipeline-level gradients (JAX autodiff of the composed program) is bounded only."""
from __future__ import annotations
from fractions import Fraction
import numpy as np
import jax
import jax.numpy as jp

from verif.contracts.common import (Obligation, Result, Sym, sym_call, Interp, RingAlg, Z3Alg, combine, smt_prove, smt_custom,
                                    PROVED, REFUTED, UNDECIDED, ERROR, is_sym, isc, seed, witness_arrays)

LEVEL = 'other'
EXPECTED_MIN = {'quick': 39, 'thorough': 40}
EXPLANATION = ('PROVED: the custom tangent rules of safe_arccos / safe_arcsin have a denominator bounded away from 0 for ALL x and equal the analytic derivative for |x| <= 1-1e-7; the '
               'forward-mode derivative programs of safe_norm, normalize, quat_to_3x3, orthogonals, quat_rot_axis, ang_to_quat / quat_mul_ang, signed_angle (unit references perpendicular to the axis), from_to (w >= 1e-6), quat_to_euler (off the gimbal lock), com.inv_inertia, the spring and positional integrator steps are defined (no division by zero, no negative radicand) for '
               'all inputs in their preconditions, singular inputs included.  BOUNDED (not proof): jax.grad of a weighted state sum after init + 1-3 steps vs central differences in '
               'float64 for the three pipelines on generated models, plus the singular inputs q = 0, qd = 0; finiteness asserted everywhere.')
TRUSTED = ['jax.jvp / jax.grad (autodiff of the composed program is trusted; the proofs cover the places where brax overrides or guards it)']
ASSUMPTIONS = ['exact reals: "finite" is decided as "every denominator non-zero / radicand non-negative"', 'pipeline-level gradient values are only compared in the bounded stand-in',
               'contact / limit switching points are excluded from the finite-difference comparison']
BOUNDED_RULE = 'generator models (orthogonal stacks, no contacts, no limits) x pipelines x random and singular inputs; non-trivial = distinct (model, pipeline, input)'


def jvp_rule(name):
  def body(A):
    import z3
    from brax import math
    f = {'safe_arccos': math.safe_arccos, 'safe_arcsin': math.safe_arcsin}[name]
    x, xd = A.var('x'), A.var('xd')
    val, tan = sym_call(Interp(A), lambda a, b: jax.jvp(f, (a,), (b,)), Sym(x), Sym(xd))
    b = z3.RealVal(str(Fraction(1 - 1e-7)))
    s = A.fresh('sq')
    A.assume += [s >= 0, s * s == 1 - x * x]
    sign = -1 if name == 'safe_arccos' else 1
    inside = z3.And(x >= -b, x <= b)
    goal = [c for _, c in A.side]                                                   # defined for ALL x
    goal.append(z3.Implies(inside, tan.item() * s == sign * xd))                      # analytic derivative inside the clip range
    # the denominator is bounded away from 0: its square is >= 1 - (1-1e-7)^2
    dens = [v for (a_, v) in A.sqrt_cache.values()]
    for d in dens:
      goal.append(d * d >= 1 - b * b)
    return [], goal, lambda w: _native_jvp(name)
  return smt_custom('C03/%s.jvp/rule' % name, 'brax.math:_%s_jvp' % name, 'the custom tangent is defined for ALL x with denominator^2 >= 1 - (1-1e-7)^2 > 0, and equals the analytic derivative '
                    '%sx_dot / sqrt(1 - x^2) for |x| <= 1 - 1e-7' % ('-' if name == 'safe_arccos' else ''), body)


def _native_jvp(name):
  from brax import math
  f = {'safe_arccos': math.safe_arccos, 'safe_arcsin': math.safe_arcsin}[name]
  bad = []
  for x in (1.0, -1.0, 0.0, 0.5, 1 - 1e-9, 2.0):
    g = float(jax.grad(f)(jp.asarray(x)))
    if not np.isfinite(g):
      bad.append((x, g))
  with jax.enable_x64(False):          # brax's default precision: a guard margin below float32 resolution is no guard at all
    for x in (1.0, -1.0):
      g = float(jax.grad(f)(jp.asarray(x, dtype=jp.float32)))
      if not np.isfinite(g):
        bad.append(('float32', x, g))
  for x in (0.3, -0.7):
    g = float(jax.grad(f)(jp.asarray(x)))
    want = (-1 if name == 'safe_arccos' else 1) / np.sqrt(1 - x * x)
    if abs(g - want) > 1e-9:
      bad.append((x, g, want))
  return {'reproduced': bool(bad), 'bad': bad}


def jvp_defined(tag, fn_getter, shapes, pre=None, units=(), native=None, tiers=('quick', 'thorough'), timeout=120, lemmas=None, cos_positive=False):
  names = list(shapes)

  def body(A):
    import z3
    fn = fn_getter()
    prim = {nm: A.arr(nm, shapes[nm]) for nm in names}
    tang = {nm: A.arr('d' + nm, shapes[nm]) for nm in names}

    def f(*args):
      n = len(names)
      return jax.jvp(fn, tuple(args[:n]), tuple(args[n:]))
    I = Interp(A)
    from verif.engine.alg import Unsupported
    try:
      out = sym_call(I, f, *[Sym(prim[nm]) for nm in names], *[Sym(tang[nm]) for nm in names])
    except Unsupported as ex:
      if 'division by the constant 0' not in str(ex):
        raise
      return [], [False], (lambda w: dict(native() if native else {'reproduced': False}, derivative_program='division by the constant 0'))
    if I.concrete_nans:
      return [], [False], (lambda w: dict(native() if native else {'reproduced': False}, derivative_program_nan_at=I.concrete_nans[:3]))
    P = []
    for u in units:
      P.append(sum(e * e for e in prim[u].reshape(-1)) == 1)
    if pre:
      P += pre(A, prim)
    if cos_positive:
      # trusted real-analysis axiom, instantiated for every trigonometric argument that occurs:  cos t > 0 for |t| < 3/2 (< pi/2)
      for (a_, c_, s_) in A.trig.values():
        P.append(z3.Implies(z3.And(a_ > -z3.RealVal('3/2'), a_ < z3.RealVal('3/2')), c_ > 0))
    if lemmas:
      # algebraic lemmas: instances of unconditional polynomial identities over the inputs.  Each is proved valid on its own (no hypotheses) before it is assumed.
      for nm, L in lemmas(A, prim):
        s = z3.Solver()
        s.set('timeout', 30000)
        s.add(z3.Not(L))
        if s.check() != z3.unsat:
          raise RuntimeError('lemma %s is not a valid identity' % nm)
        P.append(L)
    goal = [c for _, c in A.side]
    if not goal:
      return P, [True]

    def replay(w):
      return native() if native else {'reproduced': False}
    return P, goal, replay
  return smt_custom('C03/%s/jvp_defined' % tag, fn_getter.__doc__ or tag, 'in the forward-mode derivative program every denominator is non-zero and every radicand is non-negative for ALL inputs in the '
                    'precondition, singular inputs included', body, tiers=tiers, timeout=timeout, budget=3 * timeout, abstract=True)


def _g_safe_norm():
  """brax.math:safe_norm"""
  from brax import math
  return math.safe_norm


def _g_normalize():
  """brax.math:normalize"""
  from brax import math
  return lambda x: math.normalize(x)


def _g_quat_to_3x3():
  """brax.math:quat_to_3x3"""
  from brax import math
  return math.quat_to_3x3


def _g_spring_integrate():
  """brax.spring.integrator:integrate"""
  from brax.spring import integrator
  from brax.base import Transform, Motion
  from verif.contracts import physsys
  sys = physsys.load(physsys.xml_free())
  return lambda p, r, w, v, dw, dv: (lambda o: (o[0].pos, o[0].rot, o[1].ang, o[1].vel))(integrator.integrate(sys, Transform(pos=p, rot=r), Motion(ang=w, vel=v), Motion(ang=dw, vel=dv)))


def _g_positional_integrate():
  """brax.positional.integrator:integrate_xdd"""
  from brax.positional import integrator
  from brax.base import Transform, Motion
  from verif.contracts import physsys
  sys = physsys.load(physsys.xml_free())
  return lambda p, r, w, v, dw, dv: (lambda o: (o[0].pos, o[0].rot, o[1].ang, o[1].vel))(integrator.integrate_xdd(sys, Transform(pos=p, rot=r), Motion(ang=w, vel=v), Motion(ang=dw, vel=dv)))


def _g_orthogonals():
  """brax.math:orthogonals"""
  from brax import math
  return math.orthogonals


def _g_quat_rot_axis():
  """brax.math:quat_rot_axis"""
  from brax import math
  return math.quat_rot_axis


def _g_ang_to_quat():
  """brax.math:ang_to_quat, quat_mul_ang"""
  from brax import math
  return lambda q, w: (math.ang_to_quat(w), math.quat_mul_ang(q, w))


def _g_signed_angle():
  """brax.math:signed_angle"""
  from brax import math
  return math.signed_angle


def _g_from_to():
  """brax.math:from_to"""
  from brax import math
  return math.from_to


def _g_inv_3x3():
  """brax.math:inv_3x3"""
  from brax import math
  return math.inv_3x3


def _g_quat_to_euler():
  """brax.math:quat_to_euler"""
  from brax import math
  return math.quat_to_euler


def _g_inv_inertia():
  """brax.com:inv_inertia"""
  from brax import com
  from verif.contracts import physsys
  from brax.base import Transform
  sys = physsys.load(physsys.xml_free())
  return lambda p, r: com.inv_inertia(sys, Transform(pos=p, rot=r))


WORDS = ('h', 's', 'hh', 'ss', 'hs', 'sh', 'hhh', 'sss', 'hhs', 'hsh', 'shh', 'hss', 'shs', 'ssh')
# orthonormal axis triples: the coordinate frame, and the rows of the rotation matrix of the rational unit quaternion (1, 2, 2, 4)/5
FRAMES = {'xyz': ['1 0 0', '0 1 0', '0 0 1'],
          'skew': ['-0.6 -0.32 0.736', '0.96 -0.28 0', '-0.0 0.16 0.6 '.strip(), ]}


def _skew_axes():
  from fractions import Fraction as F
  w, x, y, z = F(1, 5), F(2, 5), F(2, 5), F(4, 5)
  R = [[1 - 2 * (y * y + z * z), 2 * (x * y - w * z), 2 * (x * z + w * y)], [2 * (x * y + w * z), 1 - 2 * (x * x + z * z), 2 * (y * z - w * x)],
       [2 * (x * z - w * y), 2 * (y * z + w * x), 1 - 2 * (x * x + y * y)]]
  return [' '.join(repr(float(R[r][c])) for r in range(3)) for c in range(3)]          # columns of R: exactly orthonormal in Q, rounded to float by the parser


def zero_angle_defined(word, frame):
  """the property names "at rest and at zero joint angles" explicitly: the joint-angle extraction must be differentiable there for EVERY supported stack"""
  def body(A):
    from brax import kinematics
    from brax.base import Transform, Motion
    from verif.contracts import physsys
    axes = FRAMES['xyz'] if frame == 'xyz' else _skew_axes()
    sys = physsys.load(physsys.xml_world_root(word).replace('quat="0.5 -0.5 0.5 0.5"', 'quat="1 0 0 0"') if False else
                       '<mujoco><worldbody><body name="b" pos="0.3 0 0.1">%s%s</body></worldbody></mujoco>' % (physsys.joints_xml(word, axes=axes), physsys.GEOM))
    motion = Motion(ang=jp.asarray(np.asarray(sys.dof.motion.ang, dtype=float)), vel=jp.asarray(np.asarray(sys.dof.motion.vel, dtype=float)))
    rot0 = jp.asarray([1.0, 0.0, 0.0, 0.0])

    def f(pos, rot):
      frame_, parity = kinematics.link_to_joint_frame(motion)
      axis, angle, aux = kinematics.axis_angle_ang(Transform(pos=pos, rot=rot), frame_, parity)
      return axis, angle, aux
    p, dp, dr = A.arr('p', (3,)), A.arr('dp', (3,)), A.arr('dr', (4,))
    I = Interp(A)
    from verif.engine.alg import Unsupported
    try:
      sym_call(I, lambda a, b, c: jax.jvp(f, (a, rot0), (b, c)), Sym(p), Sym(dp), Sym(dr))
    except Unsupported as ex:
      if 'division by the constant 0' in str(ex):          # a symbolic tangent divided by a concrete zero: the failed side condition itself
        return [], [False], (lambda w: dict(_native_zero(word, axes), derivative_program='division of a tangent by the constant 0'))
      if not I.concrete_nans:
        raise
    if I.concrete_nans:
      # the primal point is concrete here, so an undefined operation shows up as a NaN computed from NaN-free operands (0/0): that IS the failed side condition
      A.nan_sites = I.concrete_nans
      return [], [False], (lambda w: dict(_native_zero(word, axes), derivative_program_nan_at=I.concrete_nans[:3]))
    goal = [c for _, c in A.side]
    return [], (goal or [True]), (lambda w: _native_zero(word, axes))
  return smt_custom('C03/kinematics.axis_angle_ang/jvp_defined_at_zero[%s,%s]' % (word, frame), 'brax.kinematics:link_to_joint_frame,axis_angle_ang (+ math.signed_angle, safe_arccos, normalize)',
                    'joint stack %s with orthonormal axes (%s frame), joint rotation = identity (zero joint angles), any joint offset: the forward-mode derivative of the joint-angle '
                    'extraction in EVERY tangent direction has no zero denominator (atan2 at (0,0), norm at 0) and no negative radicand' % (word, frame), body, timeout=60, budget=300, abstract=True)


def _native_zero(word, axes):
  """jax.grad through one spring and one positional step of the one-link model at zero joint angles"""
  import importlib
  from brax.io import mjcf
  from verif.contracts import physsys
  sys = mjcf.loads('<mujoco><option timestep="0.002"/><worldbody><body name="b" pos="0.3 0 0.1">%s%s</body></worldbody></mujoco>' % (physsys.joints_xml(word, axes=axes), physsys.GEOM))
  bad = []
  for backend in ('spring', 'positional'):
    pl = importlib.import_module('brax.%s.pipeline' % backend)

    def loss(q, qd):
      st = pl.step(sys, pl.init(sys, q, qd), jp.zeros(sys.act_size()))
      return jp.sum(st.x.pos) + jp.sum(st.q) + jp.sum(st.qd)
    g = jax.grad(loss, argnums=(0, 1))(jp.zeros(sys.q_size()), jp.zeros(sys.qd_size()))
    if not all(np.isfinite(np.asarray(a)).all() for a in g):
      bad.append((backend, [np.asarray(a).tolist() for a in g]))
  return {'reproduced': bool(bad), 'stack': word, 'non_finite_gradients': bad}


def contact_kernel_defined(pipeline):
  """the epsilon-guarded denominators of the contact kernels (1e-6 + |v_t|, i_mass + ang, w1 + w2 + 1e-6, count + 1e-8): the derivative program of the contact resolution with respect
  to the body state is defined for every contact, including zero tangential velocity and zero penetration"""
  def body(A):
    import z3
    from verif.engine.opaque import cut
    from verif.contracts import C04, C06, cuts, physsys
    from brax.base import Transform, Motion
    import brax.contact as bc
    xml = '<mujoco><worldbody><body name="a" pos="0 0 0.09"><freejoint/><geom size="0.1"/></body></worldbody></mujoco>'
    sys = physsys.load(xml)
    st, raw = C04.sym_pipeline_state(A, sys, pipeline)
    c = C06.sym_contact(A, 1, link_idx=(np.array([-1]), np.array([0])))
    m = raw['mass'][0]
    pre = list(c.pre) + [m > 0]
    tp, tv, ta = A.arr('tp', (1, 3)), A.arr('tv', (1, 3)), A.arr('ta', (1, 3))          # tangent direction (body position, linear and angular velocity)
    I = Interp(A)
    if pipeline == 'spring':
      from brax.spring import collisions
      real_get = bc.get
      # inverse inertia: some positive semi-definite matrix L L^T
      L = [[A.var('L%d%d' % (i, j)) if j <= i else 0 for j in range(3)] for i in range(3)]
      iinv = np.empty((1, 3, 3), dtype=object)
      for i in range(3):
        for j in range(3):
          iinv[0, i, j] = sum(L[i][k] * L[j][k] for k in range(3))
      st = st.replace(i_inv=Sym(iinv))
      dt = A.var('dt')
      sys2 = sys.replace(opt=sys.opt.replace(timestep=Sym(dt)))
      pre.append(dt > 0)

      def f(ss_, s_, cc, pos, vel, ang):
        s2 = s_.replace(x_i=s_.x_i.replace(pos=pos), xd_i=Motion(ang=ang, vel=vel))
        bc.get = lambda sys_, x_: cc
        try:
          o = collisions.resolve(ss_, s2)
        finally:
          bc.get = real_get
        return o.vel, o.ang
      sym_call(I, lambda ss_, s_, cc, p, v, a, dp, dv, da: jax.jvp(lambda p_, v_, a_: f(ss_, s_, cc, p_, v_, a_), (p, v, a), (dp, dv, da)),
               sys2, st, c.obj, st.x_i.pos, st.xd_i.vel, st.xd_i.ang, Sym(tp), Sym(tv), Sym(ta))
    else:
      from brax.positional import collisions
      sysm = C04.with_sym_mass(sys, raw['mass'])
      prev = Transform(pos=Sym(A.arr('pp', (1, 3))), rot=Sym(A.arr('pr', (1, 4))))
      H = {'brax.com:inv_inertia': cuts.psd_handler('inv_inertia')}

      def f(ss_, s_, pv, cc, pos):
        s2 = s_.replace(x_i=s_.x_i.replace(pos=pos))
        x_new, dl = collisions.resolve_position(ss_, s2, pv, cc)
        return x_new.pos, dl
      with cut('brax.com:inv_inertia'):
        I = Interp(A, cuts=H)
        sym_call(I, lambda ss_, s_, pv, cc, p, dp: jax.jvp(lambda p_: f(ss_, s_, pv, cc, p_), (p,), (dp,)), sysm, st, prev, c.obj, st.x_i.pos, Sym(tp))
    if I.concrete_nans:
      return [], [False]
    goal = [cnd for _, cnd in A.side]
    return pre, (goal or [True])
  fn = {'spring': 'brax.spring.collisions:resolve', 'positional': 'brax.positional.collisions:resolve_position'}[pipeline]
  return smt_custom('C03/%s/jvp_defined' % fn.replace('brax.', '').replace(':', '.'), fn, 'world--body contact, ANY contact geometry, state, positive mass and positive semi-definite inverse inertia: in the '
                    'forward-mode derivative of the contact resolution with respect to the body state every denominator is non-zero and every radicand non-negative (the epsilon guards of the '
                    'contact kernels), zero tangential velocity and zero penetration included', body, timeout=200, budget=1500, abstract=True, split_first=True, kind='attempted', tiers=('thorough',))


def _g_generalized_integrate_q_free():
  """brax.generalized.integrator:_integrate_q_free"""
  from brax.generalized import integrator
  from verif.contracts import physsys
  sys = physsys.load(physsys.xml_free())
  return lambda q, qd: integrator._integrate_q_free(sys=sys, q=q, qd=qd)


def _free_lemmas(A, p):
  """quaternion norm multiplicativity |r (x) u|^2 = |r|^2 |u|^2 (C09/quat_mul/norm), instantiated on the very terms of the trace: the incremental rotation u is re-traced with the
  same algebra (terms are hash-consed, square roots and trigonometric functions are cached by argument), so the lemma speaks about the traced terms"""
  from brax import math
  from verif.contracts import physsys
  dt = float(physsys.load(physsys.xml_free()).opt.timestep)

  def incr(ang):
    n = math.safe_norm(ang) + 1e-8
    return math.quat_rot_axis(ang / n, dt * n)
  u = sym_call(Interp(A), incr, Sym(np.asarray(p['qd'][3:6], dtype=object)))
  r = np.asarray(p['q'][3:7], dtype=object)
  m = sym_call(Interp(A), math.quat_mul, Sym(r), Sym(np.asarray(u, dtype=object)))
  ss = lambda v: sum(e * e for e in v)
  return [('quat_norm_multiplicative', ss(list(m)) == ss(list(r)) * ss(list(u)))]


def _native_free_rest():
  """jax.grad through one generalized step of a single free body at rest"""
  from brax.io import mjcf
  from brax.generalized import pipeline as pl
  sys = mjcf.loads('<mujoco><option timestep="0.002"/><worldbody><body pos="0 0 1"><freejoint/><geom type="sphere" size="0.1" contype="0" conaffinity="0"/></body></worldbody></mujoco>')

  def loss(q, qd):
    st = pl.step(sys, pl.init(sys, q, qd), jp.zeros(0))
    return jp.sum(st.x.pos) + jp.sum(st.q) + jp.sum(st.qd)
  g = jax.grad(loss, argnums=(0, 1))(sys.init_q, jp.zeros(6))
  bad = not all(np.isfinite(np.asarray(a)).all() for a in g)
  return {'reproduced': bad, 'model': 'single free body, qd = 0', 'gradient': [np.asarray(a).tolist() for a in g]}


def contact_rest_defined(pipeline, gap):
  """"including at rest": the derivative program of the contact resolution at a CONCRETE rest state (body velocity 0; hovering, touching or penetrating the ground), with a symbolic
  tangent: a NaN or a division by zero computed from finite operands is the failed side condition (the plain norm of a zero tangential velocity, an unguarded 0/0)"""
  tag = {0.4: 'hover', 0.0: 'touch', -0.01: 'penetrate'}[gap]

  def body(A):
    from brax.io import mjcf
    from brax.base import Motion
    import importlib
    r = 0.1
    xml = ('<mujoco><option timestep="0.002"/><worldbody><geom name="floor" type="plane" size="5 5 0.1"/><body name="a" pos="0.3 -0.2 %g"><freejoint/>'
           '<geom type="sphere" size="%g"/></body></worldbody></mujoco>' % (r + gap, r))
    sys = mjcf.loads(xml)
    pl = importlib.import_module('brax.%s.pipeline' % pipeline)
    st = pl.init(sys, sys.init_q, jp.zeros(6))
    tv, ta, tp = A.arr('tv', (1, 3)), A.arr('ta', (1, 3)), A.arr('tp', (1, 3))
    I = Interp(A)
    from verif.engine.alg import Unsupported
    try:
      if pipeline == 'spring':
        from brax.spring import collisions

        def f(vel, ang):
          o = collisions.resolve(sys, st.replace(xd_i=Motion(ang=ang, vel=vel)))
          return o.vel, o.ang
        sym_call(I, lambda dv, da: jax.jvp(f, (st.xd_i.vel, st.xd_i.ang), (dv, da)), Sym(tv), Sym(ta))
      else:
        from brax.positional import collisions
        from brax import contact

        def f(pos, vel):
          s2 = st.replace(x_i=st.x_i.replace(pos=pos), xd_i=st.xd_i.replace(vel=vel))
          c = contact.get(sys, s2.x)
          x_new, dl = collisions.resolve_position(sys, s2, st.x_i, c)
          xdv = collisions.resolve_velocity(sys, s2.replace(x_i=x_new), st.xd_i, c, dl)
          return x_new.pos, xdv.vel, xdv.ang
        sym_call(I, lambda dp, dv: jax.jvp(f, (st.x_i.pos, st.xd_i.vel), (dp, dv)), Sym(tp), Sym(tv))
    except Unsupported as ex:
      if 'division by the constant 0' in str(ex):
        return [], [False], (lambda w: _native_contact_rest(pipeline, xml))
      if not I.concrete_nans:
        raise
    except (ValueError, OverflowError):
      if not (I.concrete_nans or I.concrete_infs):      # a NaN/inf already recorded by the interpreter reached symbolic arithmetic: that value is the verdict
        raise
    if I.concrete_nans or I.concrete_infs:
      return [], [False], (lambda w: dict(_native_contact_rest(pipeline, xml), derivative_program_nan_at=I.concrete_nans[:3], derivative_program_zero_denominator_at=I.concrete_infs[:3]))
    goal = [c_ for _, c_ in A.side]
    return [], (goal or [True]), (lambda w: _native_contact_rest(pipeline, xml))
  return smt_custom('C03/%s.collisions/jvp_defined_at_rest[%s]' % (pipeline, tag), 'brax.%s.collisions:resolve%s' % (pipeline, '' if pipeline == 'spring' else '_position,resolve_velocity'),
                    'a sphere at rest (velocity 0) %s the ground: the forward-mode derivative of the contact resolution in EVERY tangent direction has no zero denominator, no negative radicand and no '
                    'NaN computed from finite operands (the epsilon guards 1e-6 + |v_t|, safe_norm, count + 1e-8 of the contact kernels)' % {'hover': 'hovering 0.4 above', 'touch': 'just touching', 'penetrate': 'penetrating'}[tag],
                    body, timeout=120, budget=400, abstract=True)


def _native_contact_rest(pipeline, xml):
  import importlib
  from brax.io import mjcf
  sys = mjcf.loads(xml)
  pl = importlib.import_module('brax.%s.pipeline' % pipeline)

  def loss(q, qd):
    s = pl.step(sys, pl.init(sys, q, qd), jp.zeros(0))
    return jp.sum(s.x.pos) + jp.sum(s.xd.vel) + jp.sum(s.q) + jp.sum(s.qd)
  g = jax.grad(loss, argnums=(0, 1))(sys.init_q, jp.zeros(6))
  bad = not all(np.isfinite(np.asarray(a)).all() for a in g)
  return {'reproduced': bad, 'pipeline': pipeline, 'gradient': [np.asarray(a).tolist() for a in g]}


_RULE_XML = ('<mujoco><compiler angle="degree"/><option timestep="0.002" iterations="4"/><worldbody><geom type="plane" size="5 5 .1"/><body pos="0 0 0.3"><freejoint/><geom size="0.1"/>'
             '<body pos="0 0 0.2"><joint type="hinge" axis="0 1 0" range="-30 30" limited="true"/><geom type="capsule" size="0.05 0.2" pos="0.2 0 0"/>'
             '<body pos="0.4 0 0"><joint type="hinge" axis="0 1 0" range="-30 30" limited="true"/><joint type="hinge" axis="1 0 0" range="-30 30" limited="true"/>'
             '<geom type="capsule" size="0.05 0.2" pos="0.2 0 0"/></body></body></body></worldbody></mujoco>')
# custom derivative rules whose rule is itself under contract (brax.math: C03/safe_arccos, C03/safe_arcsin obligations) or an exact library rule (jax.nn.relu: derivative 1[x > 0])
_RULES_OK = ('safe_arccos', 'safe_arcsin', 'relu')


def derivative_rules(pipeline):
  """jax.grad differentiates the program that runs only if no foreign custom derivative rule sits in it (e.g. implicit differentiation of an iterative solver returns the derivative of the
  converged fixed point, not of the iterations the step executes): every custom_jvp / custom_vjp equation of the traced step must be one of the rules under contract"""
  def run():
    import importlib
    from brax.io import mjcf
    with jax.enable_x64(False):
      sys = mjcf.loads(_RULE_XML)
      pl = importlib.import_module('brax.%s.pipeline' % pipeline)
      st = pl.init(sys, sys.init_q, jp.zeros(sys.qd_size()))
      jx = jax.make_jaxpr(lambda s_: pl.step(sys, s_, jp.zeros(0)))(st)
    found = set()

    def walk(j):
      for e in j.eqns:
        if e.primitive.name.startswith(('custom_jvp', 'custom_vjp', 'custom_lin')):
          cj_ = e.params.get('call_jaxpr') or e.params.get('fun_jaxpr')
          inner = getattr(cj_, 'jaxpr', cj_)
          di = getattr(inner, 'debug_info', None)
          found.add((e.primitive.name, str(getattr(di, 'func_name', None) or getattr(di, 'func_src_info', di)).split(' ')[0]))
        for v in e.params.values():
          for x in (v if isinstance(v, (list, tuple)) else [v]):
            if hasattr(x, 'jaxpr'):
              walk(x.jaxpr if hasattr(x.jaxpr, 'eqns') else x.jaxpr.jaxpr)
            elif hasattr(x, 'eqns'):
              walk(x)
    walk(jx.jaxpr)
    bad = sorted(f for f in found if f[0].startswith('custom_vjp') or f[1] not in _RULES_OK)
    if bad:
      return Result(REFUTED, '%s.pipeline.step contains custom derivative rules that are not under contract: %s' % (pipeline, bad), witness={'rules': [list(b) for b in bad]}, replay=_native_rules(pipeline))
    return Result(PROVED, 'custom derivative rules in the traced step (limits, contacts, 3 link types): %s -- all under contract' % sorted(found), stats={'rules': len(found), 'eqns': len(jx.jaxpr.eqns)})
  return Obligation('C03/%s.pipeline.step/derivative_rules' % pipeline, 'brax.%s.pipeline:step' % pipeline,
                    'the traced step (free root, hinge stack with limits, ground contact, solver iterations = 4) contains no custom_vjp rule and no custom_jvp rule other than brax.math.safe_arccos / '
                    'safe_arcsin (their tangent rules are C03 obligations) and jax.nn.relu: reverse- and forward-mode derivatives are those of the computation the step executes', run,
                    backend='abstract-interp', budget=300)


def _native_rules(pipeline):
  """native: jax.grad vs central differences through 3 steps with both joints held beyond their limits (the constraint solver is active on every step), solver iterations = 4"""
  import importlib
  from brax.io import mjcf
  xml = ('<mujoco><compiler angle="degree"/><option timestep="0.002" iterations="4"/><worldbody><body pos="0 0 1"><joint type="hinge" axis="0 1 0" range="-30 30" limited="true"/>'
         '<geom type="capsule" size="0.05 0.2" pos="0.2 0 0"/><body pos="0.4 0 0"><joint type="hinge" axis="0 1 0" range="-30 30" limited="true"/><geom type="capsule" size="0.05 0.2" pos="0.2 0 0"/>'
         '</body></body></worldbody></mujoco>')
  with jax.enable_x64(True):
    sys = mjcf.loads(xml)
    pl = importlib.import_module('brax.%s.pipeline' % pipeline)

    def loss(q, qd):
      st = pl.init(sys, q, qd)
      for _ in range(3):
        st = pl.step(sys, st, jp.zeros(0))
      return jp.sum(st.q * jp.array([1.0, -0.7])) + jp.sum(st.qd * jp.array([0.3, 0.5]))
    q0, qd0 = jp.array([0.7, 0.7]), jp.array([0.1, -0.2])
    try:
      g = np.asarray(jax.grad(loss)(q0, qd0))
    except Exception as e:      # noqa: BLE001
      return {'reproduced': True, 'error': '%s: %s' % (type(e).__name__, str(e)[:200])}
    h = 1e-6
    fd = np.array([(float(loss(q0.at[i].add(h), qd0)) - float(loss(q0.at[i].add(-h), qd0))) / (2 * h) for i in range(2)])
  err = float(np.abs(g - fd).max() / max(1e-9, np.abs(fd).max()))
  return {'reproduced': err > 1e-4, 'grad': g.tolist(), 'central_differences': fd.tolist(), 'relative_error': err, 'pipeline': pipeline, 'q0': [0.7, 0.7]}


def _native_grad_helper(which):
  from brax import math
  bad = []
  if which == 'safe_norm':
    for x in (np.zeros(3), np.array([1e-9, 0, 0]), np.array([0.3, 0, 0])):
      g = np.asarray(jax.grad(math.safe_norm)(jp.asarray(x)))
      if not np.isfinite(g).all():
        bad.append((x.tolist(), g.tolist()))
  if which == 'normalize':
    for x in (np.zeros(3), np.zeros(4), np.array([0, 0, 2.0])):
      g = np.asarray(jax.jacfwd(lambda v: math.normalize(v)[0])(jp.asarray(x)))
      if not np.isfinite(g).all():
        bad.append((x.tolist(), 'non-finite jacobian'))
  return {'reproduced': bool(bad), 'bad': bad}


def bounded(tier):
  def run():
    import importlib
    from brax.io import mjcf
    from verif.bounded import modelgen
    rng = np.random.RandomState(seed() + 61)
    n = 1 if tier == 'quick' else 30
    evals = 0
    distinct = set()
    worst = 0.0
    from verif.engine.oblig import soft_deadline
    for k in range(n):
      if soft_deadline(0.6, k, 1):
        break
      xml, meta = modelgen.generate(rng, modelgen.Spec(n_links=(1, 3), orthogonal=True, single_kind_stack=True, limits_p=0.0, collide=False, actuators=(1, 2)))
      sys = mjcf.loads(xml)
      nq, nv, nu = sys.q_size(), sys.qd_size(), sys.act_size()
      wts = {kk: rng.uniform(-1, 1, s) for kk, s in (('x', (sys.num_links(), 3)), ('v', (sys.num_links(), 3)), ('q', (nq,)), ('qd', (nv,)))}
      for pipeline in ('generalized', 'spring', 'positional'):
        pl = importlib.import_module('brax.%s.pipeline' % pipeline)
        steps = int(rng.randint(1, 4))

        @jax.jit
        def loss(q, qd, ctrl):
          st = pl.init(sys, q, qd)
          for _ in range(steps):
            st = pl.step(sys, st, ctrl)
          return jp.sum(wts['x'] * st.x.pos) + jp.sum(wts['v'] * st.xd.vel) + jp.sum(wts['q'] * st.q) + jp.sum(wts['qd'] * st.qd)
        inputs = []
        q, qd = modelgen.rand_state(rng, sys, 0.8, 0.5)
        inputs.append(('random', q, qd, rng.uniform(-1, 1, nu)))
        q0 = np.asarray(sys.init_q, dtype=float).copy()
        inputs.append(('rest: qd = 0, q = init', q0, np.zeros(nv), np.zeros(nu)))
        for tag, qq, qqd, cc in inputs:
          g = jax.jit(jax.grad(loss, argnums=(0, 1, 2)))(jp.asarray(qq), jp.asarray(qqd), jp.asarray(cc))
          evals += 1
          distinct.add((k, pipeline, tag))
          flat = np.concatenate([np.asarray(a).reshape(-1) for a in g])
          if not np.isfinite(flat).all():
            return Result(REFUTED, '%s: gradient not finite at %s (types %s, %d steps)' % (pipeline, tag, sys.link_types, steps), witness={'xml': xml, 'q': list(map(float, qq)), 'qd': list(map(float, qqd))},
                          replay={'reproduced': True, 'gradient': flat.tolist()[:20]})
          if tag != 'random':
            continue
          # central finite differences (free-joint quaternion coordinates are skipped: they live on the unit sphere)
          h = 1e-6
          free_q = set()
          qi = 0
          for t in sys.link_types:
            if t == 'f':
              free_q.update(range(qi + 3, qi + 7))
              qi += 7
            else:
              qi += int(t)
          args = [np.asarray(qq, dtype=float), np.asarray(qqd, dtype=float), np.asarray(cc, dtype=float)]
          for ai in range(3):
            cand = [j for j in range(args[ai].size) if not (ai == 0 and j in free_q)]
            if len(cand) > 5:
              cand = list(rng.choice(cand, 5, replace=False))
            for j in cand:
              ap, am = [a.copy() for a in args], [a.copy() for a in args]
              ap[ai][j] += h
              am[ai][j] -= h
              fd = (float(loss(*[jp.asarray(a) for a in ap])) - float(loss(*[jp.asarray(a) for a in am]))) / (2 * h)
              an = float(np.asarray(g[ai]).reshape(-1)[j])
              err = abs(fd - an) / max(1.0, abs(fd), abs(an))
              worst = max(worst, err)
              if err > 2e-4:
                return Result(REFUTED, '%s: d loss / d %s[%d] = %g by autodiff, %g by central differences (types %s, %d steps)' % (pipeline, ('q', 'qd', 'ctrl')[ai], j, an, fd, sys.link_types, steps),
                              witness={'xml': xml, 'q': list(map(float, qq)), 'qd': list(map(float, qqd))}, replay={'reproduced': True, 'autodiff': an, 'finite_difference': fd})
    f32 = _float32_singular()
    if f32.get('reproduced'):
      return Result(REFUTED, 'float32 (brax default precision): gradient not finite at a singular input: %s' % f32['what'], replay=f32)
    evals += f32['evaluations']
    return Result(PROVED, 'bounded: %d gradient evaluations finite (incl. float32 at zero joint angles of a universal joint); worst relative deviation from central differences %.1e' % (evals, worst),
                  stats={'evaluations': evals, 'distinct_nontrivial': len(distinct)})
  return Obligation('C03/bounded/grad_vs_finite_differences', 'brax.{generalized,spring,positional}.pipeline:init,step', 'BOUNDED: jax.grad of a weighted sum of x.pos, xd.vel, q, qd after init + 1-3 steps w.r.t. '
                    '(q, qd, ctrl): finite at random inputs and at rest (qd = 0, q = init); equal to central differences (rel 2e-4) at random inputs', run, backend='bounded', kind='bounded', budget=2400)


UNIVERSAL = '''<mujoco><compiler angle="radian"/><option timestep="0.002"/><worldbody><body name="a" pos="0 0 1"><joint name="j0" type="hinge" axis="1 0 0"/><joint name="j1" type="hinge" axis="0 1 0"/>
<geom type="capsule" size="0.04 0.2" pos="0 0 -0.2" contype="0" conaffinity="0"/></body></worldbody></mujoco>'''


def _float32_singular():
  """default 32-bit mode: gradient of sum(q)+sum(qd) after a few steps of a universal joint at zero / rest angles, spring and positional pipelines"""
  import importlib
  from brax.io import mjcf
  n = 0
  with jax.enable_x64(False):
    sys = mjcf.loads(UNIVERSAL)
    for pipeline in ('spring', 'positional', 'generalized'):
      pl = importlib.import_module('brax.%s.pipeline' % pipeline)
      for q0 in ([0.3, 0.0], [0.0, 0.0]):
        def loss(q, qd):
          st = pl.init(sys, q, qd)
          for _ in range(2):
            st = pl.step(sys, st, jp.zeros(0, dtype=jp.float32))
          return jp.sum(st.q) + jp.sum(st.qd)
        g = jax.grad(loss, argnums=(0, 1))(jp.asarray(q0, dtype=jp.float32), jp.zeros(2, dtype=jp.float32))
        n += 1
        flat = np.concatenate([np.asarray(a).reshape(-1) for a in g])
        if not np.isfinite(flat).all():
          return {'reproduced': True, 'what': '%s pipeline, q0 = %s: dL/d(q,qd) = %s' % (pipeline, q0, flat.tolist()), 'model': 'universal joint (two stacked hinges)'}
  return {'reproduced': False, 'evaluations': n}


def obligations(tier):
  Q, Th = ('quick', 'thorough'), ('thorough',)
  obs = [jvp_rule('safe_arccos'), jvp_rule('safe_arcsin'),
         jvp_defined('safe_norm[n=3]', _g_safe_norm, {'x': (3,)}, native=lambda: _native_grad_helper('safe_norm')),
         jvp_defined('normalize[n=3]', _g_normalize, {'x': (3,)}, native=lambda: _native_grad_helper('normalize')),
         jvp_defined('normalize[n=4]', _g_normalize, {'x': (4,)}, native=lambda: _native_grad_helper('normalize'), tiers=Th),
         jvp_defined('quat_to_3x3', _g_quat_to_3x3, {'q': (4,)}, pre=lambda A, p: [sum(e * e for e in p['q']) > 0]),
         jvp_defined('spring.integrator.integrate', _g_spring_integrate, {'p': (1, 3), 'r': (1, 4), 'w': (1, 3), 'v': (1, 3), 'dw': (1, 3), 'dv': (1, 3)}, units=('r',)),
         jvp_defined('generalized.integrator._integrate_q_free', _g_generalized_integrate_q_free, {'q': (7,), 'qd': (6,)},
                     pre=lambda A, p: [sum(e * e for e in p['q'][3:7]) == 1] + [z3c for e in p['qd'][3:6] for z3c in (e <= 100, e >= -100)],
                     native=_native_free_rest, timeout=200, cos_positive=True, lemmas=_free_lemmas),
         jvp_defined('positional.integrator.integrate_xdd', _g_positional_integrate, {'p': (1, 3), 'r': (1, 4), 'w': (1, 3), 'v': (1, 3), 'dw': (1, 3), 'dv': (1, 3)}, units=('r',), timeout=200),
         bounded(tier)]
  import z3 as _z3
  dot = lambda a, b: sum(x * y for x, y in zip(a, b))
  cross = lambda a, b: [a[1] * b[2] - a[2] * b[1], a[2] * b[0] - a[0] * b[2], a[0] * b[1] - a[1] * b[0]]
  obs += [
      jvp_defined('orthogonals', _g_orthogonals, {'a': (3,)}, units=('a',)),
      jvp_defined('quat_rot_axis', _g_quat_rot_axis, {'axis': (3,), 'angle': ()}),
      jvp_defined('ang_to_quat+quat_mul_ang', _g_ang_to_quat, {'q': (4,), 'w': (3,)}),
      jvp_defined('signed_angle', _g_signed_angle, {'axis': (3,), 'ref_p': (3,), 'ref_c': (3,)}, units=('axis', 'ref_p', 'ref_c'),
                  pre=lambda A, p: [dot(p['axis'], p['ref_p']) == 0, dot(p['axis'], p['ref_c']) == 0],
                  lemmas=lambda A, p: (lambda n: [('lagrange', dot(n, n) + dot(p['ref_p'], p['ref_c']) ** 2 == dot(p['ref_p'], p['ref_p']) * dot(p['ref_c'], p['ref_c'])),
                                                  ('lagrange2', dot(n, p['axis']) ** 2 + dot(cross(n, p['axis']), cross(n, p['axis'])) == dot(n, n) * dot(p['axis'], p['axis']))] +
                                                 [('triple[%d]' % k, cross(n, p['axis'])[k] == p['ref_c'][k] * dot(p['ref_p'], p['axis']) - p['ref_p'][k] * dot(p['ref_c'], p['axis'])) for k in range(3)])(
                                                     cross(p['ref_p'], p['ref_c']))),
      jvp_defined('from_to', _g_from_to, {'v1': (3,), 'v2': (3,)}, units=('v1', 'v2'), pre=lambda A, p: [1 + dot(p['v1'], p['v2']) >= _z3.RealVal('1/1000000')],
                  lemmas=lambda A, p: (lambda n: [('lagrange', dot(n, n) + dot(p['v1'], p['v2']) ** 2 == dot(p['v1'], p['v1']) * dot(p['v2'], p['v2']))])(cross(p['v1'], p['v2']))),
      jvp_defined('quat_to_euler', _g_quat_to_euler, {'q': (4,)}, units=('q',), pre=lambda A, p: [4 * (p['q'][1] * p['q'][3] + p['q'][0] * p['q'][2]) ** 2 < 1]),
      jvp_defined('com.inv_inertia', _g_inv_inertia, {'p': (1, 3), 'r': (1, 4)}, units=('r',)),
  ]

  obs += [contact_kernel_defined('spring'), contact_kernel_defined('positional')]
  for pl_ in ('spring', 'positional'):
    for gap_ in (0.4, 0.0, -0.01):
      obs.append(contact_rest_defined(pl_, gap_))
  obs += [derivative_rules(pl_) for pl_ in ('generalized', 'spring', 'positional')]
  for w_ in WORDS:
    obs.append(zero_angle_defined(w_, 'xyz'))
  for w_ in ('sss', 'hhh', 'shs', 'hh', 'hs'):
    obs.append(zero_angle_defined(w_, 'skew'))

  def canary(A):
    # plain jnp.linalg.norm has an undefined derivative at 0: its jvp side conditions must NOT be provable for all x
    x, dx = A.arr('x', (3,)), A.arr('dx', (3,))
    sym_call(Interp(A), lambda a, b: jax.jvp(jp.linalg.norm, (a,), (b,)), Sym(x), Sym(dx))
    return [], [c for _, c in A.side]
  obs.append(smt_custom('C03/canary/plain_norm', 'jax.numpy.linalg:norm', 'CANARY: the derivative of the unguarded norm is defined for all x (must be refuted: x = 0)', canary, kind='canary'))
  return obs
