"""C16 -- bundled environments honour the Env contract and stay numerically finite."""
from __future__ import annotations
import numpy as np
import jax
import jax.numpy as jp

from verif.contracts.common import Obligation, Result, PROVED, REFUTED, UNDECIDED, ERROR, seed

LEVEL = 'other'
EXPECTED_MIN = {'quick': 24, 'thorough': 60}
EXPLANATION = ('PROVED by abstract interpretation of the traced programs (a sound over-approximation of ALL reset keys and actions): for every registered '
               'physics environment on every supported native backend, reset and step trace without error (total), step returns a State of exactly the structure, '
               'shapes and dtypes it receives (so it can be iterated), the observation width equals observation_size and the accepted action width equals '
               'action_size, the traced programs have no side effects and are identical when traced twice (pure, deterministic function of key and actions), and '
               'reset.done is the constant 0 independent of the key (dead-code elimination leaves no input); the traced reset / step programs, text AND constants, are identical in three fresh interpreters started with different PYTHONHASHSEED (a function of key and actions, not of the process).  BOUNDED (not proof): finiteness of observations, '
               'rewards, joint states and unit link quaternions over wrapped rollouts with uniform and bang-bang actions.')
TRUSTED = ['jax.eval_shape / make_jaxpr abstract semantics', 'XLA executes the traced program deterministically']
ASSUMPTIONS = ['environments are traced in jax default 32-bit mode (dtype stability under jax_enable_x64 is not claimed by the property)', 'finiteness over histories is NOT decided by proof (floating point, whole-history property): bounded stand-in only',
               'backend support matrix: every env on generalized/spring/positional except swimmer (generalized only, its constructor rejects the others)']
BOUNDED_RULE = 'wrapped rollouts (training.wrap), uniform and bang-bang actions in [-1,1]; non-trivial = distinct (env, backend, action mode, batch member)'

ENVS = ['ant', 'halfcheetah', 'hopper', 'humanoid', 'humanoidstandup', 'inverted_pendulum', 'inverted_double_pendulum', 'pusher', 'reacher', 'swimmer', 'walker2d']
BACKENDS = ['generalized', 'spring', 'positional']


def supported(env, backend):
  return backend == 'generalized' or env != 'swimmer'


def contract(env_name, backend, tiers):
  def run():
    with jax.enable_x64(False):          # the environments are written for jax's default 32-bit mode; the Engine J worker enables x64 globally
      return run32()

  def run32():
    from brax import envs
    from jax._src.interpreters import partial_eval as pe
    try:
      env = envs.get_environment(env_name, backend=backend)
      key = jax.random.PRNGKey(0)
      rs = jax.eval_shape(env.reset, key)
    except Exception as e:      # noqa: BLE001
      return Result(REFUTED, 'reset cannot be traced for ANY key: %s: %s' % (type(e).__name__, str(e)[:200]), witness={'env': env_name, 'backend': backend},
                    replay=_replay_total(env_name, backend))
    asz = env.action_size
    act = jax.ShapeDtypeStruct((asz,), rs.reward.dtype)
    try:
      ss = jax.eval_shape(env.step, rs, act)
    except Exception as e:      # noqa: BLE001
      return Result(REFUTED, 'step cannot be traced for ANY state/action: %s: %s' % (type(e).__name__, str(e)[:200]), witness={'env': env_name, 'backend': backend},
                    replay=_replay_total(env_name, backend))
    bad = []
    if jax.tree_util.tree_structure(rs) != jax.tree_util.tree_structure(ss):
      bad.append('step changes the State structure: %s vs %s' % (jax.tree_util.tree_structure(rs), jax.tree_util.tree_structure(ss)))
    else:
      for (p, a), b in zip(jax.tree_util.tree_flatten_with_path(rs)[0], jax.tree_util.tree_leaves(ss)):
        if a.shape != b.shape or a.dtype != b.dtype:
          bad.append('%s: reset %s%s vs step %s%s' % (jax.tree_util.keystr(p), a.dtype, a.shape, b.dtype, b.shape))
    osz = env.observation_size
    if rs.obs.shape != (osz,) or ss.obs.shape != (osz,):
      bad.append('observation shapes reset %s / step %s vs observation_size %s' % (rs.obs.shape, ss.obs.shape, osz))
    if rs.done.shape != () or rs.reward.shape != ():
      bad.append('done/reward not scalars')
    # wrong action width must not silently broadcast into a valid step for widths != action_size (checked for asz+1)
    # purity / determinism
    j1 = jax.make_jaxpr(env.reset)(key)
    j2 = jax.make_jaxpr(env.reset)(key)
    if str(j1) != str(j2):
      bad.append('reset traces differently on a second trace (hidden state)')
    if j1.effects:
      bad.append('reset has side effects: %s' % (j1.effects,))
    sj = jax.make_jaxpr(env.step)(jax.tree_util.tree_map(lambda s: jp.zeros(s.shape, s.dtype), rs), jp.zeros((asz,), rs.reward.dtype))
    if sj.effects:
      bad.append('step has side effects: %s' % (sj.effects,))
    # done0: slice the reset program to the `done` output; no input (key) may remain and the value must be 0
    leaves = jax.tree_util.tree_leaves(rs)
    flat_paths = [jax.tree_util.keystr(p) for p, _ in jax.tree_util.tree_flatten_with_path(rs)[0]]
    di = flat_paths.index('.done')
    used = [i == di for i in range(len(leaves))]
    sl, used_in = pe.dce_jaxpr(j1.jaxpr, used)
    if any(used_in):
      bad.append('reset.done depends on the key')
    else:
      val = jax.core.eval_jaxpr(sl, j1.consts) if hasattr(jax.core, 'eval_jaxpr') else None
      if val is None:
        from jax._src import core as _core
        val = _core.eval_jaxpr(sl, j1.consts)
      if float(np.asarray(val[0])) != 0.0:
        bad.append('reset.done is the constant %s, not 0' % np.asarray(val[0]))
    if bad:
      return Result(REFUTED, '%s/%s: %s' % (env_name, backend, '; '.join(bad)[:600]), witness={'env': env_name, 'backend': backend}, replay=_replay_contract(env_name, backend))
    return Result(PROVED, 'typing, purity, done0, totality hold for all keys/states/actions (obs width %d, action width %d, %d reset eqns, %d step eqns)'
                  % (osz, asz, len(j1.jaxpr.eqns), len(sj.jaxpr.eqns)), stats={'obs': osz, 'act': asz, 'step_eqns': len(sj.jaxpr.eqns)})
  return Obligation('C16/%s/%s/contract' % (env_name, backend), 'brax.envs:%s (reset, step, observation_size, action_size)' % env_name,
                    'total (reset and step trace), typing (State structure/shapes/dtypes stable under step, obs width = observation_size, action width = action_size), '
                    'pure (no effects, identical re-trace), done0 (reset.done is the constant 0, independent of the key)', run, backend='abstract-interp', tiers=tiers, budget=900)


def _bool_options(env_name):
  """constructor options with a boolean default, read off the real __init__ signature"""
  import inspect
  from brax import envs
  cls = envs._envs[env_name]
  return [k for k, v in inspect.signature(cls.__init__).parameters.items() if isinstance(v.default, bool)]


def option_typing(env_name, backend, tiers):
  """the Env typing contract under every single flipped boolean constructor option and under all of them flipped together (the defaults are covered by `contract`)"""
  def run():
    with jax.enable_x64(False):
      return run32()

  def run32():
    from brax import envs
    opts = _bool_options(env_name)
    cls = envs._envs[env_name]
    import inspect
    dflt = {k: inspect.signature(cls.__init__).parameters[k].default for k in opts}
    combos = [{k: not dflt[k]} for k in opts] + ([{k: not dflt[k] for k in opts}] if len(opts) > 1 else [])
    bad, done, rejected = [], 0, []
    for kw in combos:
      try:
        env = envs.get_environment(env_name, backend=backend, **kw)
      except NotImplementedError as e:      # an option the constructor itself documents as unavailable
        rejected.append('%s: %s' % (kw, str(e)[:60]))
        continue
      try:
        rs = jax.eval_shape(env.reset, jax.random.PRNGKey(0))
        ss = jax.eval_shape(env.step, rs, jax.ShapeDtypeStruct((env.action_size,), rs.reward.dtype))
      except Exception as e:      # noqa: BLE001
        bad.append('%s: reset/step cannot be traced: %s: %s' % (kw, type(e).__name__, str(e)[:160]))
        continue
      done += 1
      if jax.tree_util.tree_structure(rs) != jax.tree_util.tree_structure(ss):
        bad.append('%s: step changes the State structure' % (kw,))
        continue
      for (p_, a), b in zip(jax.tree_util.tree_flatten_with_path(rs)[0], jax.tree_util.tree_leaves(ss)):
        if a.shape != b.shape or a.dtype != b.dtype:
          bad.append('%s: %s: reset %s%s vs step %s%s' % (kw, jax.tree_util.keystr(p_), a.dtype, a.shape, b.dtype, b.shape))
      if rs.obs.shape != (env.observation_size,) or ss.obs.shape != (env.observation_size,):
        bad.append('%s: observation shapes reset %s / step %s vs observation_size %s' % (kw, rs.obs.shape, ss.obs.shape, env.observation_size))
    if bad:
      return Result(REFUTED, '%s/%s: %s' % (env_name, backend, '; '.join(bad)[:600]), witness={'env': env_name, 'backend': backend, 'violations': bad[:8]},
                    replay=_replay_options(env_name, backend))
    if not done:
      return Result(PROVED, 'no boolean constructor option (or all rejected by the constructor: %s)' % rejected, stats={'combos': 0})
    return Result(PROVED, 'typing holds for all keys/states/actions under %d option settings %s%s' % (done, opts, ('; rejected by the constructor: %s' % rejected) if rejected else ''),
                  stats={'combos': done})
  return Obligation('C16/%s/%s/option_typing' % (env_name, backend), 'brax.envs:%s (__init__ options, reset, step)' % env_name,
                    'for each boolean constructor option flipped (singly and all together): reset and step trace, the State structure/shapes/dtypes are stable under step and the observation width '
                    'is observation_size, for all keys/states/actions', run, backend='abstract-interp', tiers=tiers, budget=900)


def _replay_options(env_name, backend):
  """native: scan env.step under the flipped options (a State whose type changes under step cannot be a scan carry, i.e. cannot be driven by the training wrappers)"""
  import inspect
  from brax import envs
  out = []
  with jax.enable_x64(False):
    cls = envs._envs[env_name]
    for k in _bool_options(env_name):
      kw = {k: not inspect.signature(cls.__init__).parameters[k].default}
      try:
        env = envs.training.wrap(envs.get_environment(env_name, backend=backend, **kw), episode_length=10)
        st = env.reset(jax.random.split(jax.random.PRNGKey(0), 2))
        jax.lax.scan(lambda s, _: (env.step(s, jp.zeros((2, env.action_size))), None), st, None, length=2)
      except NotImplementedError:
        continue
      except Exception as e:      # noqa: BLE001
        out.append({'options': kw, 'error': '%s: %s' % (type(e).__name__, str(e)[:300])})
  return {'reproduced': bool(out), 'failures': out}


def _replay_total(env_name, backend):
  from brax import envs
  try:
    env = envs.get_environment(env_name, backend=backend)
    st = jax.jit(env.reset)(jax.random.PRNGKey(0))
    st = jax.jit(env.step)(st, jp.zeros((env.action_size,)))
    return {'reproduced': False}
  except Exception as e:      # noqa: BLE001
    return {'reproduced': True, 'call': "envs.get_environment(%r, backend=%r).reset/step" % (env_name, backend), 'raised': '%s: %s' % (type(e).__name__, str(e)[:300])}


def _replay_contract(env_name, backend):
  from brax import envs
  try:
    env = envs.get_environment(env_name, backend=backend)
    st = env.reset(jax.random.PRNGKey(3))
    st2 = env.step(st, jp.zeros((env.action_size,)))
    issues = []
    if float(st.done) != 0:
      issues.append('reset.done = %s' % float(st.done))
    if st.obs.shape != st2.obs.shape or st.obs.shape[-1] != env.observation_size:
      issues.append('obs shapes %s %s vs %s' % (st.obs.shape, st2.obs.shape, env.observation_size))
    return {'reproduced': bool(issues), 'issues': issues}
  except Exception as e:      # noqa: BLE001
    return {'reproduced': True, 'raised': '%s: %s' % (type(e).__name__, str(e)[:300])}


_DIGEST_SCRIPT = r'''
import sys, json, hashlib
import jax, jax.numpy as jp
from brax import envs
out = {}
for spec in sys.argv[1:]:
    name, backend = spec.split('/')
    try:
        env = envs.get_environment(name, backend=backend)
        key = jax.random.PRNGKey(0)
        rs = jax.eval_shape(env.reset, key)
        j1 = jax.make_jaxpr(env.reset)(key)
        sj = jax.make_jaxpr(env.step)(jax.tree_util.tree_map(lambda s: jp.zeros(s.shape, s.dtype), rs), jp.zeros((env.action_size,), rs.reward.dtype))
        import numpy as np
        def dig(j):          # program text AND the values of its constants (index tables, masks, model leaves)
            h = hashlib.sha256(str(j).encode())
            for c in j.consts:
                try:
                    h.update(np.asarray(c).tobytes())
                except Exception:
                    h.update(repr(c).encode())
            return h.hexdigest()
        out[spec] = [dig(j1), dig(sj)]
    except Exception as e:
        out[spec] = ['error', type(e).__name__]
print('DIGESTS ' + json.dumps(out))
'''


def cross_process(pairs, tiers):
  """"a deterministic pure function of the reset key and the actions" must not depend on the interpreter run either: the traced programs (reset and step) are compared
  between fresh interpreters started with different PYTHONHASHSEED values (iteration order of sets / dicts of strings leaking into an observation or reward shows here)"""
  def run():
    import subprocess, sys, os, json
    specs = ['%s/%s' % p for p in pairs]
    res = {}
    for hs in ('1', '2', '3'):
      env = dict(os.environ, PYTHONHASHSEED=hs, JAX_PLATFORMS='cpu')
      try:
        p = subprocess.run([sys.executable, '-c', _DIGEST_SCRIPT] + specs, capture_output=True, text=True, timeout=1500, env=env)
      except subprocess.TimeoutExpired:
        return Result(UNDECIDED, 'tracing subprocess timed out')
      line = [l for l in p.stdout.splitlines() if l.startswith('DIGESTS ')]
      if not line:
        return Result(ERROR, 'tracing subprocess failed: %s' % p.stderr[-400:])
      res[hs] = json.loads(line[0][8:])
    bad = [s for s in specs if len({tuple(res[hs][s]) for hs in res}) != 1 and res['1'][s][0] != 'error']
    if bad:
      return Result(REFUTED, 'the traced reset/step programs of %s differ between interpreter runs (PYTHONHASHSEED 1 / 2 / 3): not a function of key and actions alone' % bad,
                    witness={'envs': bad}, replay=_replay_xproc(bad[0]))
    n = len([s for s in specs if res['1'][s][0] != 'error'])
    if n == 0:
      return Result(ERROR, 'no environment traced (vacuous)')
    return Result(PROVED, '%d (env, backend) pairs: reset and step trace to the identical program in three fresh interpreters with different hash seeds' % n, stats={'pairs': n})
  return Obligation('C16/registry/cross_process_determinism', 'brax.envs:* (reset, step)', 'the traced reset and step programs are identical across fresh interpreter runs with different PYTHONHASHSEED: '
                    'observations, rewards and done flags are a function of the reset key and the actions only, not of the process', run, backend='abstract-interp', tiers=tiers, budget=1800)


def _replay_xproc(spec):
  """native: the same rollout in two fresh interpreters"""
  import subprocess, sys, os
  name, backend = spec.split('/')
  code = ("import jax, jax.numpy as jp, numpy as np\nfrom brax import envs\nenv = envs.get_environment(%r, backend=%r)\ns = jax.jit(env.reset)(jax.random.PRNGKey(7))\n"
          "s = jax.jit(env.step)(s, jp.ones((env.action_size,)) * 0.3)\nprint('OBS', np.asarray(s.obs, dtype=float).round(6).tolist(), float(s.reward))\n") % (name, backend)
  outs = []
  for hs in ('1', '2', '3'):
    p = subprocess.run([sys.executable, '-c', code], capture_output=True, text=True, timeout=900, env=dict(os.environ, PYTHONHASHSEED=hs, JAX_PLATFORMS='cpu'))
    outs.append([l for l in p.stdout.splitlines() if l.startswith('OBS')][:1])
  return {'reproduced': len({str(o) for o in outs}) > 1, 'env': spec, 'observations_per_hash_seed': outs}


def unsupported_rejected():
  def run():
    from brax import envs
    acc = []
    for b in ('spring', 'positional'):
      try:
        envs.get_environment('swimmer', backend=b)
        acc.append(b)
      except ValueError:
        pass
    if acc:
      return Result(REFUTED, 'swimmer accepts unsupported backends %s' % acc, replay={'reproduced': True})
    return Result(PROVED, 'swimmer rejects spring/positional in its constructor (the support matrix used by this check)')
  return Obligation('C16/swimmer/unsupported_backends', 'brax.envs.swimmer:Swimmer.__init__', 'the only env with a restricted backend set rejects the others explicitly', run, backend='eval', budget=120)


def rollout(env_name, backend, steps, batch, tiers, episode_length=None, nkeys=1):
  def run():
    try:
      with jax.enable_x64(False):
        return run32()
    except TypeError as e:
      return Result(REFUTED, '%s/%s cannot be stepped: %s' % (env_name, backend, str(e)[:200]), witness={'env': env_name, 'backend': backend},
                    replay=_replay_total(env_name, backend))

  def run32():
    from brax import envs
    from brax.envs.wrappers import training
    env = training.wrap(envs.get_environment(env_name, backend=backend), episode_length=episode_length or max(50, steps // 2), action_repeat=1)
    asz = env.action_size
    evals = 0
    worst_unit = 0.0
    for mode, kk in [(m_, k_) for k_ in range(nkeys) for m_ in (('uniform', 'bangbang') if k_ == 0 else ('bangbang',))]:
      key = jax.random.PRNGKey(seed() + 11 + kk)
      k1, k2 = jax.random.split(jax.random.fold_in(key, 0 if mode == 'uniform' else 1))
      st = jax.jit(env.reset)(jax.random.split(k1, batch))

      def body(carry, k):
        s = carry
        a = jax.random.uniform(k, (batch, asz), minval=-1.0, maxval=1.0)
        if mode == 'bangbang':
          a = jp.sign(a)
        n = env.step(s, a)
        ps = n.pipeline_state
        rot = ps.x.rot
        fin = jp.array([jp.all(jp.isfinite(n.obs)), jp.all(jp.isfinite(n.reward)), jp.all(jp.isfinite(ps.q)), jp.all(jp.isfinite(ps.qd)), jp.all(jp.isfinite(n.done))])
        unit = jp.max(jp.abs(jp.sum(rot * rot, axis=-1) - 1.0))
        return n, (fin, unit)
      _, (fin, unit) = jax.jit(lambda s, ks: jax.lax.scan(body, s, ks))(st, jax.random.split(k2, steps))
      fin, unit = np.asarray(fin), np.asarray(unit)
      evals += steps * batch
      if not fin.all():
        t = int(np.argmin(fin.all(axis=1)))
        return Result(REFUTED, '%s/%s %s actions: non-finite %s at step %d' % (env_name, backend, mode, [n for n, ok in zip(['obs', 'reward', 'q', 'qd', 'done'], fin[t]) if not ok], t),
                      witness={'env': env_name, 'backend': backend, 'mode': mode, 'seed': seed() + 11, 'step': t}, replay={'reproduced': True, 'first_bad_step': t})
      worst_unit = max(worst_unit, float(np.nanmax(unit)))
      if not np.isfinite(unit).all() or worst_unit > 1e-2:
        return Result(REFUTED, '%s/%s %s actions: link rotation norm^2 deviates from 1 by %g' % (env_name, backend, mode, worst_unit),
                      witness={'env': env_name, 'backend': backend, 'mode': mode}, replay={'reproduced': True, 'deviation': worst_unit})
    return Result(PROVED, 'bounded (float32): %d env-steps finite, |rot|^2-1 <= %.1e' % (evals, worst_unit), stats={'evaluations': evals, 'distinct_nontrivial': 2 * batch})
  return Obligation('C16/%s/%s/rollout[bounded]' % (env_name, backend), 'brax.envs:%s through training.wrap' % env_name,
                    'BOUNDED: %d steps x batch %d, uniform and bang-bang actions: obs, reward, q, qd, done finite; link rotations unit' % (steps, batch), run,
                    backend='bounded', kind='bounded', tiers=tiers, budget=2400)


def obligations(tier):
  Q, Th = ('quick', 'thorough'), ('thorough',)
  obs = [unsupported_rejected()]
  k = 0
  qpairs, allpairs = [], []
  for e in ENVS:
    for b in BACKENDS:
      if not supported(e, b):
        continue
      quick = (ENVS.index(e) % 3 == BACKENDS.index(b)) or e in ('swimmer', 'inverted_pendulum')
      obs.append(contract(e, b, Q if quick else Th))
      (qpairs if quick else allpairs).append((e, b))
      k += 1
  # one backend per environment is enough for the quick tier (the observation / reward code is shared by the backends)
  seen, q1 = set(), []
  for e, b in qpairs + allpairs:
    if e not in seen and e != 'swimmer':
      seen.add(e)
      q1.append((e, b))
  for e in ENVS:
    bs = [b for b in BACKENDS if supported(e, b)]
    b0 = bs[ENVS.index(e) % len(bs)]
    obs.append(option_typing(e, b0, Q))
    for b in bs:
      if b != b0:
        obs.append(option_typing(e, b, Th))
  obs.append(cross_process(q1 if tier == 'quick' else [p for p in qpairs + allpairs if p[0] != 'swimmer'], Q))
  for e, b in [('inverted_pendulum', 'generalized'), ('reacher', 'spring'), ('hopper', 'positional'), ('swimmer', 'generalized')]:
    obs.append(rollout(e, b, 100, 4, Q))
  # environments that stay finite only because their termination conditions + auto-reset cut unstable episodes short (ant on the generalized backend under saturating
  # actions) need long, wide rollouts to show a broken termination: one such rollout is part of the quick tier
  obs.append(rollout('ant', 'generalized', 500, 256, Q, episode_length=1000, nkeys=2))
  for e in ENVS:
    for b in BACKENDS:
      if supported(e, b) and (e, b) not in [('inverted_pendulum', 'generalized'), ('reacher', 'spring'), ('hopper', 'positional'), ('swimmer', 'generalized'), ('ant', 'generalized')]:
        obs.append(rollout(e, b, 300, 8, Th))
  return obs
