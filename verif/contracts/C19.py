"""C19 -- compute_gae equals the generalized advantage estimator's defining sum, carries no gradient."""
from __future__ import annotations
import numpy as np
import jax
import jax.numpy as jp

from verif.contracts.common import (law, smt_custom, Obligation, Result, Sym, sym_call, Interp, Z3Alg, RingAlg, eqs,
                                    flat_scalars, smt_prove, PROVED, REFUTED, UNDECIDED, ERROR, is_sym, isc)

LEVEL = 'proof'
EXPECTED_MIN = {'quick': 9, 'thorough': 20}
EXPLANATION = ('compute_gae is traced at every (T,B) in range; outputs are polynomials in ALL inputs (masks, lambda, discount are '
               'arbitrary reals) and are proved equal to the explicit (non-recursive) defining sum by z3; the scan body is verified '
               'once for a symbolic carry (T-generic induction step); the gradient jaxpr is shown to be identically 0.')
TRUSTED = ['paper lemma: a reverse recursion acc_t = delta_t + c_t acc_{t+1}, acc_T = 0 unfolds to sum_k prod_j c_j delta_k']
ASSUMPTIONS = ['floats treated as exact reals', 'static configuration: T in 1..12, B in {1,2}; T-generic by the scan-body rule']


def _gae():
  from brax.training.agents.ppo import losses
  return losses.compute_gae


def spec(trunc, term, r, v, boot, lam, disc):
  """explicit sums; plain python over scalars (no recursion on previous results)"""
  T, B = r.shape
  vs = [[None] * B for _ in range(T)]
  adv = [[None] * B for _ in range(T)]
  for b in range(B):
    vnext = [v[t + 1, b] if t + 1 < T else boot[b] for t in range(T)]
    delta = [(r[t, b] + disc * (1 - term[t, b]) * vnext[t] - v[t, b]) * (1 - trunc[t, b]) for t in range(T)]
    c = [disc * lam * (1 - term[t, b]) * (1 - trunc[t, b]) for t in range(T)]
    for t in range(T):
      s = 0
      for k in range(t, T):
        w = 1
        for j in range(t, k):
          w = w * c[j]
        s = s + w * delta[k]
      vs[t][b] = v[t, b] + s
    for t in range(T):
      nxt = vs[t + 1][b] if t + 1 < T else boot[b]
      adv[t][b] = (r[t, b] + disc * (1 - term[t, b]) * nxt - v[t, b]) * (1 - trunc[t, b])
  return jp.stack([jp.stack(row) for row in vs]), jp.stack([jp.stack(row) for row in adv])


def closed_form(T, B, tiers):
  shapes = {'trunc': (T, B), 'term': (T, B), 'r': (T, B), 'v': (T, B), 'boot': (B,), 'lam': (), 'disc': ()}
  def fn(trunc, term, r, v, boot, lam, disc):
    return _gae()(trunc, term, r, v, boot, lam, disc), spec(trunc, term, r, v, boot, lam, disc)
  return law('C19/compute_gae/closed_form[T=%d,B=%d]' % (T, B), 'brax.training.agents.ppo.losses:compute_gae',
             'vs_t - V_t = sum_{k>=t} (prod_{j=t}^{k-1} c_j) delta_k, adv_t = (r_t + g(1-term_t) vs_{t+1} - V_t)(1-trunc_t), vs_T = bootstrap; '
             'delta_t = (r_t + g(1-term_t)V_{t+1} - V_t)(1-trunc_t), c_t = g*lambda*(1-term_t)(1-trunc_t); all real inputs',
             fn, shapes, tiers=tiers, timeout=120, budget=300)


def scan_body():
  def run():
    import itertools
    from verif.engine import compat_jax as cj
    T, B = 3, 2
    ex = [jp.zeros((T, B))] * 4 + [jp.zeros((B,)), 0.5, 0.9]
    closed = jax.make_jaxpr(_gae())(*ex)
    scans = [e for e in closed.jaxpr.eqns if e.primitive.name == 'scan']
    if len(scans) != 1:
      return Result(UNDECIDED, 'expected exactly one scan in compute_gae, found %d' % len(scans))
    e = scans[0]
    bodyj, nc, ncar = cj.scan_parts(e.params)
    if not e.params['reverse']:
      return Result(REFUTED, 'the accumulation scan is not a reverse scan', replay={'reproduced': False})
    A = Z3Alg()
    ins = [A.arr('in%d' % k, tuple(v.aval.shape)) for k, v in enumerate(bodyj.jaxpr.invars)]
    shp = [tuple(v.aval.shape) for v in bodyj.jaxpr.invars]
    outs = Interp(A).eval(bodyj.jaxpr, bodyj.consts, *ins)
    scal = [ins[i].item() for i in range(len(ins)) if shp[i] == ()]
    vecs = [i for i in range(len(ins)) if shp[i] == (B,)]
    carr = [i for i in vecs if nc <= i < nc + ncar]
    xs = [i for i in vecs if i >= nc + ncar]
    if len(carr) != 1 or len(xs) != 3 or len(scal) != 2 or len(outs) != 2:
      return Result(UNDECIDED, 'unexpected scan signature %s (consts %d, carries %d)' % (shp, nc, ncar))
    acc = ins[carr[0]]
    k = scal[0] * scal[1]                  # lambda * discount (both loop-invariant scalars)
    solver_s = 0.0
    for perm in itertools.permutations(xs):
      mask, delta, term = [ins[i] for i in perm]
      goal = []
      for b in range(B):
        new = delta[b] + k * (1 - term[b]) * mask[b] * acc[b]
        goal += [outs[0][b] == new, outs[1][b] == new]
      r = smt_prove(A, [], goal, timeout_s=30)
      solver_s += r.stats.get('solver_s', 0)
      if r.verdict == PROVED:
        return Result(PROVED, 'scan body: acc_new = delta + lambda*discount*(1-termination)*mask*acc = y, independent of the step index '
                      '(xs roles %s)' % (perm,), stats={'solver_s': round(solver_s, 3), 'queries': 6})
    return Result(REFUTED, 'scan body is not  acc_new = y = delta + lambda*discount*(1-termination)*mask*acc  under any assignment of the three scanned inputs',
                  witness=r.witness, replay={'reproduced': False}, solver_output=r.solver_output)
  return Obligation('C19/compute_gae/scan_body', 'brax.training.agents.ppo.losses:compute_gae.compute_vs_minus_v_xs',
                    'induction step, generic in T: with a symbolic carry, new_acc = delta + discount*lambda*(1-termination)*(1-truncation)*acc and the emitted y is new_acc '
                    '(ATTEMPTED: the clause speaks about the carry layout of the scan, which a behaviour-preserving refactoring may change -- then it is undecided, never a violation; the required '
                    'clauses are the closed forms for every T in range)',
                    run, backend='smt', budget=120, kind='attempted')


def no_gradient(T, B):
  def run():
    gae = _gae()
    def total(trunc, term, r, v, boot, lam, disc):
      vs, adv = gae(trunc, term, r, v, boot, lam, disc)
      return jp.sum(vs * vs) + jp.sum(adv * adv) + jp.sum(vs) + 3.0 * jp.sum(adv)
    g = jax.grad(total, argnums=tuple(range(7)))
    A = RingAlg()
    shapes = [(T, B)] * 4 + [(B,), (), ()]
    ins = [A.arr('x%d' % i, s) for i, s in enumerate(shapes)]
    I = Interp(A)
    out = sym_call(I, g, *[Sym(a) for a in ins])
    nz = []
    n = 0
    for k, leaf in enumerate(jax.tree_util.tree_leaves(out, is_leaf=is_sym)):
      for e in np.asarray(leaf, dtype=object).reshape(-1):
        n += 1
        if isc(e):
          if e != 0:
            nz.append((k, e))
        elif not A.is_zero(e):
          nz.append((k, A.show(e, 4)))
    if nz:
      # native replay: jax.grad on random inputs
      rng = np.random.RandomState(1)
      args = [rng.uniform(0, 1, s) for s in shapes]
      gn = g(*[jp.asarray(a) for a in args])
      mx = max(float(np.max(np.abs(np.asarray(x)))) for x in gn)
      return Result(REFUTED, 'gradient components not identically 0: %s' % nz[:3], witness={'inputs': [a.tolist() for a in args]},
                    replay={'reproduced': mx > 0, 'max_abs_grad': mx})
    return Result(PROVED, 'all %d gradient components are the zero polynomial' % n, stats={'components': n})
  return Obligation('C19/compute_gae/no_gradient[T=%d,B=%d]' % (T, B), 'brax.training.agents.ppo.losses:compute_gae',
                    'd(any differentiable function of vs, advantages)/d(every input) = 0: the jaxpr of jax.grad evaluates to the zero polynomial', run, backend='ring', budget=120)


def obligations(tier):
  obs = []
  for T in range(1, 13):
    for B in (1, 2):
      quick = T <= 6 and (B == 1 or T in (1, 3, 6))
      obs.append(closed_form(T, B, ('quick', 'thorough') if quick else ('thorough',)))
  for T in (16, 24):          # beyond the property's own range, as a cross-check of trip-count independence
    obs.append(closed_form(T, 1, ('thorough',)))
  obs.append(scan_body())
  obs.append(no_gradient(4, 2))
  # canary: accumulate across a truncated step (mask missing in the recursion)
  def bad(trunc, term, r, v, boot, lam, disc):
    return _gae()(trunc, term, r, v, boot, lam, disc), spec(trunc * 0, term, r, v, boot, lam, disc)
  obs.append(law('C19/canary/truncation_ignored', 'brax.training.agents.ppo.losses:compute_gae',
                 'CANARY: spec without truncation masks (must be refuted)', bad,
                 {'trunc': (3, 1), 'term': (3, 1), 'r': (3, 1), 'v': (3, 1), 'boot': (1,), 'lam': (), 'disc': ()}, kind='canary'))
  return obs
