"""A *havoc* environment: every output of reset/step is an arbitrary (fresh symbolic) value per batch member and
per call.  Wrapper contracts proved against it hold for EVERY wrapped environment (callee contract `true`,
strengthened only by done in {0,1}).  Symbol names are deterministic functions of (call number, field, member), so a
batched run and a single-member run of the same wrapper see the same environment (used by C07's member clauses)."""
from __future__ import annotations
import numpy as np
import jax
import jax.numpy as jp
from brax.envs.base import Env, State
from verif.engine.opaque import opaque

OBS, PS = 2, 1


def _step_shape(obs, reward, done, ps, action):
  return jp.zeros_like(obs), jp.zeros_like(reward), jp.zeros_like(done), jp.zeros_like(ps), jp.zeros_like(reward)


def _reset_shape(rng):
  b = rng.shape[:-1]
  return jp.zeros(b + (OBS,)), jp.zeros(b + (PS,))


class HavocEnv(Env):
  """batched environment (leading axis B on everything), like VmapWrapper(env)"""

  def __init__(self):
    self._step = opaque('havoc.step', _step_shape)
    self._reset = opaque('havoc.reset', _reset_shape)

  def reset(self, rng):
    obs, ps = self._reset(rng)
    z = jp.zeros(rng.shape[:-1])
    return State(pipeline_state=ps, obs=obs, reward=z, done=z, metrics={'m': z}, info={})

  def step(self, state, action):
    obs, reward, done, ps, m = self._step(state.obs, state.reward, state.done, state.pipeline_state, action)
    return state.replace(obs=obs, reward=reward, done=done, pipeline_state=ps, metrics=dict(state.metrics, m=m))

  @property
  def observation_size(self): return OBS
  @property
  def action_size(self): return 1
  @property
  def backend(self): return 'havoc'


class Recorder:
  """cut handlers for havoc.step / havoc.reset on a Z3Alg; members: global member ids of the batch rows"""

  def __init__(self, A, members):
    self.A, self.members = A, list(members)
    self.step_calls = []          # (inputs dict, outputs dict)
    self.n = 0

  def _fresh(self, tag, call, shape_tail, kind='R'):
    A = self.A
    out = np.empty((len(self.members),) + tuple(shape_tail), dtype=object)
    for bi, mid in enumerate(self.members):
      for idx in np.ndindex(*shape_tail):
        out[(bi,) + idx] = A.var('hv!%d!%s!m%d%s' % (call, tag, mid, ''.join('_%d' % i for i in idx)), kind)
    return out

  def step(self, I, P, ins):
    import z3
    A = self.A
    k = self.n
    self.n += 1
    obs = self._fresh('obs', k, (OBS,))
    rew = self._fresh('rew', k, ())
    done = self._fresh('done', k, ())
    ps = self._fresh('ps', k, (PS,))
    m = self._fresh('met', k, ())
    for d in done.reshape(-1):
      A.assume.append(z3.Or(d == 0, d == 1))
    names = list(P['argnames'])
    self.step_calls.append((dict(zip(names, ins)), {'obs': obs, 'reward': rew, 'done': done, 'ps': ps, 'm': m}))
    return [obs, rew, done, ps, m]

  def reset(self, I, P, ins):
    k = self.n
    self.n += 1
    return [self._fresh('robs', k, (OBS,)), self._fresh('rps', k, (PS,))]

  def cuts(self):
    return {'havoc.step': self.step, 'havoc.reset': self.reset}


def sym_state(A, members, with_steps=True, with_first=False, with_eval=False, prefix='s'):
  """a fully symbolic wrapper-level State for the given members (names keyed by member id)"""
  from verif.engine.oblig import Sym

  def arr(tag, tail, kind='R'):
    out = np.empty((len(members),) + tuple(tail), dtype=object)
    for bi, mid in enumerate(members):
      for idx in np.ndindex(*tail):
        out[(bi,) + idx] = A.var('%s!%s!m%d%s' % (prefix, tag, mid, ''.join('_%d' % i for i in idx)), kind)
    return out
  raw = {'obs': arr('obs', (OBS,)), 'reward': arr('reward', ()), 'done': arr('done', ()), 'ps': arr('ps', (PS,)), 'm': arr('m', ())}
  info = {}
  if with_steps:
    raw['steps'], raw['truncation'] = arr('steps', ()), arr('trunc', ())
    info['steps'], info['truncation'] = Sym(raw['steps']), Sym(raw['truncation'])
  if with_first:
    raw['first_obs'], raw['first_ps'] = arr('fobs', (OBS,)), arr('fps', (PS,))
    info['first_obs'], info['first_pipeline_state'] = Sym(raw['first_obs']), Sym(raw['first_ps'])
  if with_eval:
    from brax.envs.wrappers.training import EvalMetrics
    raw['em_m'], raw['em_r'], raw['active'], raw['esteps'] = arr('em_m', ()), arr('em_r', ()), arr('active', ()), arr('esteps', ())
    info['eval_metrics'] = EvalMetrics(episode_metrics={'m': Sym(raw['em_m']), 'reward': Sym(raw['em_r'])},
                                       active_episodes=Sym(raw['active']), episode_steps=Sym(raw['esteps']))
  metrics = {'m': Sym(raw['m'])}
  if with_eval:
    raw['m_reward'] = arr('mrew', ())
    metrics['reward'] = Sym(raw['m_reward'])
  st = State(pipeline_state=Sym(raw['ps']), obs=Sym(raw['obs']), reward=Sym(raw['reward']), done=Sym(raw['done']),
             metrics=metrics, info=info)
  return st, raw
