"""C07 -- batching and compilation are transparent; batch members are independent."""
from __future__ import annotations
import numpy as np
import jax
import jax.numpy as jp

from verif.contracts.common import (smt_custom, Obligation, Result, Sym, sym_call, Interp, Z3Alg, smt_prove, combine,
                                    PROVED, REFUTED, UNDECIDED, ERROR, is_sym, isc, seed)
from verif.engine.alg import DepAlg, Dep

LEVEL = 'other'
EXPECTED_MIN = {'quick': 8, 'thorough': 10}
EXPLANATION = ('PROVED: (a) member clauses -- for the Episode/AutoReset/Eval wrappers and their composition over a havoc per-member environment, member i of the '
               'batched step equals the single-instance step on member i\'s inputs, for all states, actions and done patterns (z3); (b) VmapWrapper and '
               'DomainRandomizationVmapWrapper trace to exactly jax.vmap of the inner reset/step (jaxpr identity; for the randomisation wrapper both step -- member clause -- and reset -- vmap over per-member systems); (c) non-interference of the vmapped physics '
               'step by may-depend analysis of its jaxpr (spring, positional; generalized attempted).  BOUNDED (not proof): jit(vmap(f))(batch)[i] vs f(batch[i]) on '
               'generated models.  NOT decided by proof: jit == eager to round-off (XLA numerics).')
TRUSTED = ['jax.vmap is correct (a vmapped function computes the per-member function)', 'XLA compiles the jaxpr faithfully (jit vs eager round-off is outside the proof)']
ASSUMPTIONS = ['batch sizes 2-3', 'havoc environment = arbitrary per-member environment', 'DEP analysis is a sound over-approximation of data flow through the interpreted primitives']
BOUNDED_RULE = 'generated models x random states x batch members; non-trivial = distinct (model, pipeline, member) triples'


def _tr():
  from brax.envs.wrappers import training
  return training


def member(kind, B, ar, tiers):
  def run():
    import z3
    from verif.contracts import havoc as hv
    tr = _tr()

    def build(ell):
      e = hv.HavocEnv()
      if kind == 'episode':
        return tr.EpisodeWrapper(e, ell, ar)
      if kind == 'autoreset':
        return tr.AutoResetWrapper(tr.EpisodeWrapper(e, ell, ar))
      return tr.EvalWrapper(tr.AutoResetWrapper(tr.EpisodeWrapper(e, ell, ar)))
    A = Z3Alg()
    L = A.var('L', 'I')
    members = list(range(B))
    with_first = kind != 'episode'
    with_eval = kind == 'eval'

    def run_on(ms):
      st, raw = hv.sym_state(A, ms, with_first=with_first, with_eval=with_eval)
      act = np.empty((len(ms), 1), dtype=object)
      for bi, m in enumerate(ms):
        act[bi, 0] = A.var('act!m%d' % m)
      rec = hv.Recorder(A, ms)
      new = sym_call(Interp(A, cuts=rec.cuts()), lambda s, a, ell: build(ell).step(s, a), st, Sym(act), Sym(L, np.int32))
      return new, raw
    full, raw = run_on(members)
    pre = [L >= 1] + [z3.Or(d == 0, d == 1) for d in raw['done']]
    if with_eval:
      pre += [z3.Or(a == 0, a == 1) for a in raw['active']]
    goal = []
    for i in members:
      solo, _ = run_on([i])
      lf = jax.tree_util.tree_leaves(full, is_leaf=is_sym)
      ls = jax.tree_util.tree_leaves(solo, is_leaf=is_sym)
      assert len(lf) == len(ls)
      for a, b in zip(lf, ls):
        a, b = np.asarray(a, dtype=object), np.asarray(b, dtype=object)
        for x, y in zip(a[i:i + 1].reshape(-1), b[0:1].reshape(-1)):
          if isc(x) and isc(y):
            goal.append(bool(x == y))
          else:
            goal.append(x == y)
    r = smt_prove(A, pre, goal, timeout_s=60, seed=seed())
    if r.verdict == REFUTED:
      r.replay = _native_member()
    return r
  return Obligation('C07/%s.step/member[B=%d,ar=%d]' % (kind, B, ar), 'brax.envs.wrappers.training:%s' % {'episode': 'EpisodeWrapper.step', 'autoreset': 'AutoResetWrapper.step', 'eval': 'EvalWrapper.step'}[kind],
                    'member i of the batched step = the single-instance step applied to member i\'s state and action (every leaf: obs, reward, done, pipeline_state, metrics, info), '
                    'for all states, actions, done patterns and any per-member environment', run, backend='smt', tiers=tiers, budget=200)


def _native_member():
  """batched wrapped env (2 members, different termination schedules) vs each member wrapped alone"""
  from verif.contracts import C15
  tr = _tr()
  for L in (2, 3, 4):
    for s0, s1 in (((0, 1, 0, 0, 0, 0), (0, 0, 0, 0, 0, 0)), ((1, 0, 0, 1, 0, 0), (0, 0, 1, 0, 0, 0)), ((0, 0, 0, 0, 0, 0), (1, 1, 0, 0, 1, 0))):
      mk = lambda scheds: tr.EvalWrapper(tr.AutoResetWrapper(tr.EpisodeWrapper(C15.Scripted([list(x) * 3 for x in scheds]).make(), L, 1)))
      both = mk([s0, s1])
      solo = [mk([s0]), mk([s1])]
      sb = both.reset(jp.zeros((2, 2), dtype=jp.uint32))
      ss = [e.reset(jp.zeros((1, 2), dtype=jp.uint32)) for e in solo]
      for k in range(10):
        sb = both.step(sb, jp.zeros((2, 1)))
        ss = [e.step(x, jp.zeros((1, 1))) for e, x in zip(solo, ss)]
        for i in range(2):
          got = (float(sb.done[i]), float(sb.info['steps'][i]), float(sb.info['truncation'][i]), float(sb.obs[i, 0]), float(sb.info['eval_metrics'].episode_metrics['reward'][i]))
          want = (float(ss[i].done[0]), float(ss[i].info['steps'][0]), float(ss[i].info['truncation'][0]), float(ss[i].obs[0, 0]), float(ss[i].info['eval_metrics'].episode_metrics['reward'][0]))
          if got != want:
            return {'reproduced': True, 'episode_length': L, 'schedules': [list(s0), list(s1)], 'wrapped_step': k, 'member': i,
                    'batched(done,steps,trunc,obs,metric)': got, 'solo': want}
  return {'reproduced': False}


class TinyEnv:
  """an unbatched env with a little non-linear dynamics, to compare wrapper jaxprs with jax.vmap of it"""

  def __new__(cls):
    from brax.envs.base import Env, State

    class E(Env):
      sys = None

      def reset(s, rng):
        o = jax.random.uniform(rng, (3,))
        scale = 1.0 if s.sys is None else s.sys['gain'] * s.sys.get('shared', 1.0)          # the initial state depends on the (possibly randomised) system, as pipeline.init does
        return State(pipeline_state=o * 2.0 * scale, obs=o, reward=jp.zeros(()), done=jp.zeros(()), metrics={'m': jp.zeros(())}, info={})

      def step(s, state, action):
        scale = 1.0 if s.sys is None else s.sys['gain'] * s.sys.get('shared', 1.0)
        ps = state.pipeline_state + jp.sin(action).sum() * scale
        return state.replace(pipeline_state=ps, obs=jp.tanh(ps), reward=jp.sum(ps * ps), done=jp.where(ps[0] > 2.0, 1.0, 0.0))
      observation_size = 3
      action_size = 2
      backend = 'tiny'

      @property
      def unwrapped(s):
        return s
    return E()


def is_vmap():
  def run():
    tr = _tr()
    env = TinyEnv()
    B = 3
    rng = jax.random.split(jax.random.PRNGKey(0), B)
    w = tr.VmapWrapper(env)
    st = jax.vmap(env.reset)(rng)
    act = jp.zeros((B, 2))
    j1 = str(jax.make_jaxpr(w.step)(st, act))
    j2 = str(jax.make_jaxpr(jax.vmap(env.step))(st, act))
    r1 = str(jax.make_jaxpr(w.reset)(rng))
    r2 = str(jax.make_jaxpr(jax.vmap(env.reset))(rng))
    # batch_size variant: splits the key then vmaps
    wb = tr.VmapWrapper(env, batch_size=B)
    b1 = str(jax.make_jaxpr(wb.reset)(jax.random.PRNGKey(1)))
    b2 = str(jax.make_jaxpr(lambda k: jax.vmap(env.reset)(jax.random.split(k, B)))(jax.random.PRNGKey(1)))
    bad = [n for n, (x, y) in {'step': (j1, j2), 'reset': (r1, r2), 'reset(batch_size)': (b1, b2)}.items() if x != y]
    if bad:
      rp = _replay_vmap()
      if not rp.get('reproduced'):          # a textual difference with equal member results is not a refutation
        return Result(UNDECIDED, 'VmapWrapper.%s differs textually from jax.vmap of the inner function, but the members agree natively' % bad)
      return Result(REFUTED, 'VmapWrapper.%s does not trace to jax.vmap of the inner function' % bad, replay=rp)
    return Result(PROVED, 'VmapWrapper.step/reset/reset(batch_size) trace to jaxprs identical to jax.vmap(env.step/reset)', stats={'jaxprs_compared': 3})
  return Obligation('C07/VmapWrapper/is_vmap', 'brax.envs.wrappers.training:VmapWrapper', 'the wrapper\'s traced program is identical to jax.vmap of the inner env\'s reset/step',
                    run, backend='jaxpr-identity', budget=120)


def _replay_vmap():
  tr = _tr()
  env = TinyEnv()
  B = 3
  rng = jax.random.split(jax.random.PRNGKey(0), B)
  w = tr.VmapWrapper(env)
  st = w.reset(rng)
  act = jax.random.normal(jax.random.PRNGKey(2), (B, 2))
  n = w.step(st, act)
  for i in range(B):
    si = env.reset(rng[i])
    ni = env.step(si, act[i])
    if not (np.allclose(np.asarray(n.obs[i]), np.asarray(ni.obs)) and np.allclose(float(n.reward[i]), float(ni.reward))):
      return {'reproduced': True, 'member': i, 'batched_obs': np.asarray(n.obs[i]).tolist(), 'solo_obs': np.asarray(ni.obs).tolist()}
  return {'reproduced': False}


def dr_is_vmap():
  def run():
    tr = _tr()
    B = 3
    A = Z3Alg()
    gains = A.arr('gain', (B,))
    shared = A.var('shared')      # a leaf the randomisation function overrides for the WHOLE batch (in_axes None): low gravity, another time step, ...
    ps, obs = A.arr('ps', (B, 3)), A.arr('obs', (B, 3))
    act = A.arr('act', (B, 2))
    from brax.envs.base import State

    def mkstate(p, o, n):
      return State(pipeline_state=p, obs=o, reward=jp.zeros((n,)) if n else jp.zeros(()), done=jp.zeros((n,)) if n else jp.zeros(()),
                   metrics={'m': jp.zeros((n,)) if n else jp.zeros(())}, info={})

    def batched(g, sh, p, o, a):
      env = TinyEnv()
      env.sys = {'gain': jp.ones(()), 'shared': jp.ones(())}
      w = tr.DomainRandomizationVmapWrapper(env, lambda sys: ({'gain': g, 'shared': sh}, {'gain': 0, 'shared': None}))
      n = w.step(mkstate(p, o, B), a)
      return n.pipeline_state, n.obs, n.reward, n.done

    def solo(g, sh, p, o, a):
      env = TinyEnv()
      env.sys = {'gain': g, 'shared': sh}
      n = env.step(mkstate(p, o, 0), a)
      return n.pipeline_state, n.obs, n.reward, n.done
    full = sym_call(Interp(A), batched, Sym(gains), Sym(shared), Sym(ps), Sym(obs), Sym(act))
    goal = []
    for i in range(B):
      one = sym_call(Interp(A), solo, Sym(gains[i]), Sym(shared), Sym(ps[i]), Sym(obs[i]), Sym(act[i]))
      for a_, b_ in zip(full, one):
        for x, y in zip(np.asarray(a_, dtype=object)[i:i + 1].reshape(-1), np.asarray(b_, dtype=object).reshape(-1)):
          goal.append(bool(x == y) if (isc(x) and isc(y)) else x == y)
    r = smt_prove(A, [], goal, timeout_s=60, seed=seed())
    if r.verdict == REFUTED:
      r.replay = _replay_dr()
    return r
  return Obligation('C07/DomainRandomizationVmapWrapper/member[B=3]', 'brax.envs.wrappers.training:DomainRandomizationVmapWrapper.step',
                    'member i of the randomised batched step = a solo environment built from member i\'s system (its per-member leaves AND the leaves the randomisation function overrides for the whole batch), stepped on member i\'s state and action '
                    '(symbolic per-member systems, states, actions; sin/tanh uninterpreted)', run, backend='smt', budget=120)


def dr_reset_is_vmap():
  def run():
    tr = _tr()
    B = 3
    rng = jax.random.split(jax.random.PRNGKey(0), B)
    gains = jp.arange(1.0, B + 1.0)

    sh0 = jp.asarray(0.25)

    def wrapped(g, sh, k):
      env = TinyEnv()
      env.sys = {'gain': jp.ones(()), 'shared': jp.ones(())}
      return tr.DomainRandomizationVmapWrapper(env, lambda sys: ({'gain': g, 'shared': sh}, {'gain': 0, 'shared': None})).reset(k)

    def solo(g, sh, k):
      env = TinyEnv()
      env.sys = {'gain': g, 'shared': sh}
      return env.reset(k)
    j1 = str(jax.make_jaxpr(wrapped)(gains, sh0, rng))
    j2 = str(jax.make_jaxpr(jax.vmap(solo, in_axes=(0, None, 0)))(gains, sh0, rng))
    if j1 != j2:
      # native: member i of the randomised reset vs the solo environment of system i
      a = wrapped(gains, sh0, rng)
      bad = None
      for i in range(B):
        b = solo(gains[i], sh0, rng[i])
        if not np.allclose(np.asarray(a.pipeline_state[i]), np.asarray(b.pipeline_state)):
          bad = {'member': i, 'batched_pipeline_state': np.asarray(a.pipeline_state[i]).tolist(), 'solo_pipeline_state': np.asarray(b.pipeline_state).tolist()}
          break
      if bad is None:          # a textual difference with equal member results is not a refutation (a harmless refactor may reorder the trace)
        return Result(UNDECIDED, 'the traced reset differs textually from jax.vmap of the per-member reset, but the members agree natively')
      return Result(REFUTED, 'DomainRandomizationVmapWrapper.reset does not trace to jax.vmap of the per-member reset (each member must be reset with ITS system)', replay={'reproduced': True, **bad})
    return Result(PROVED, 'reset traces to exactly jax.vmap(lambda sys_i, key_i: Env(sys_i).reset(key_i)) (jaxpr identity, per-member systems as traced inputs)', stats={'eqns': j1.count('\n')})
  return Obligation('C07/DomainRandomizationVmapWrapper/reset_is_vmap', 'brax.envs.wrappers.training:DomainRandomizationVmapWrapper.reset',
                    'the randomised batched reset IS jax.vmap of the single-environment reset over (per-member system, per-member key): member i starts from the state of a solo environment '
                    'built from member i\'s system', run, backend='jaxpr-identity', budget=120)


def _replay_dr():
  tr = _tr()
  B = 3
  env = TinyEnv()
  env.sys = {'gain': jp.ones(()), 'shared': jp.ones(())}
  w = tr.DomainRandomizationVmapWrapper(env, lambda sys: ({'gain': jp.arange(1.0, B + 1.0), 'shared': jp.asarray(0.25)}, {'gain': 0, 'shared': None}))
  rng = jax.random.split(jax.random.PRNGKey(0), B)
  st = jax.vmap(TinyEnv().reset)(rng)
  act = jax.random.normal(jax.random.PRNGKey(5), (B, 2))
  n = w.step(st, act)
  for i in range(B):
    e = TinyEnv()
    e.sys = {'gain': jp.asarray(float(i + 1)), 'shared': jp.asarray(0.25)}
    ni = e.step(jax.tree_util.tree_map(lambda x: x[i], st), act[i])
    if not np.allclose(np.asarray(n.obs[i]), np.asarray(ni.obs)):
      return {'reproduced': True, 'member': i, 'batched_obs': np.asarray(n.obs[i]).tolist(), 'solo_obs': np.asarray(ni.obs).tolist()}
  return {'reproduced': False}


PEND = '''<mujoco><option timestep="0.005"/><worldbody>
<body name="a" pos="0 0 1"><joint type="hinge" axis="0 1 0"/><geom type="capsule" size="0.05 0.2" pos="0 0 -0.2"/>
 <body name="b" pos="0 0 -0.4"><joint type="slide" axis="1 0 0" range="-1 1" limited="true"/><geom size="0.08"/></body>
</body>
<body name="c" pos="1 0 1"><freejoint/><geom size="0.1"/></body>
</worldbody></mujoco>'''


def noninterference(pipeline, kind, tiers):
  def run():
    from brax.io import mjcf
    import importlib
    pl = importlib.import_module('brax.%s.pipeline' % pipeline)
    sys = mjcf.loads(PEND)
    if pipeline == 'generalized':
      sys = sys.replace(matrix_inv_iterations=0) if hasattr(sys, 'matrix_inv_iterations') else sys
    B = 2
    nq, nv = sys.q_size(), sys.qd_size()

    def one(q, qd, act):
      s = pl.init(sys, q, qd)
      s = pl.step(sys, s, act)
      return s.q, s.qd, s.x.pos, s.x.rot, s.xd.vel, s.xd.ang
    f = jax.vmap(one)
    A = DepAlg()
    q = np.empty((B, nq), dtype=object)
    qd = np.empty((B, nv), dtype=object)
    act = np.empty((B, sys.act_size()), dtype=object)
    for b in range(B):
      q[b], qd[b] = [A.label(b)] * nq, [A.label(b)] * nv
      if act.shape[1]:
        act[b] = [A.label(b)] * act.shape[1]
    I = Interp(A)
    outs = sym_call(I, f, Sym(q), Sym(qd), Sym(act) if act.shape[1] else jp.zeros((B, 0)))
    leaks = []
    n = 0
    for k, leaf in enumerate(jax.tree_util.tree_leaves(outs, is_leaf=is_sym)):
      leaf = np.asarray(leaf, dtype=object)
      for b in range(B):
        for e in leaf[b].reshape(-1):
          n += 1
          if isinstance(e, Dep) and (e.s & ~(1 << b)):
            leaks.append((k, b, bin(e.s)))
    if leaks:
      # may-depend is an over-approximation: a leak here is UNDECIDED unless it reproduces natively
      rep = _native_interference(pipeline)
      if rep.get('reproduced'):
        return Result(REFUTED, 'output of member b may depend on other members (%d of %d components) and does natively' % (len(leaks), n), replay=rep)
      return Result(UNDECIDED, 'may-depend analysis reports %d/%d possibly cross-dependent components (not reproduced natively): %s' % (len(leaks), n, leaks[:3]))
    return Result(PROVED, 'all %d output components of member b of vmap(init+step) depend only on inputs of member b (%d symbolic equations)' % (n, I.stats['sym_eqns']),
                  stats={'components': n, 'sym_eqns': I.stats['sym_eqns'], 'primitives': sorted(I.prims)})
  return Obligation('C07/%s.pipeline.step/noninterference[B=2]' % pipeline, 'brax.%s.pipeline:init,step (under jax.vmap)' % pipeline,
                    'vmapped init+step: every output of member i depends only on the inputs (q, qd, ctrl) of member i (may-depend analysis of the real jaxpr)', run,
                    backend='dep', kind=kind, tiers=tiers, budget=600)


def _native_interference(pipeline):
  from brax.io import mjcf
  import importlib
  pl = importlib.import_module('brax.%s.pipeline' % pipeline)
  sys = mjcf.loads(PEND)
  rng = np.random.RandomState(0)
  from verif.bounded.modelgen import rand_state

  def one(q, qd):
    s = pl.init(sys, q, qd)
    s = pl.step(sys, s, jp.zeros(sys.act_size()))
    return s.q, s.qd
  q0, qd0 = rand_state(rng, sys)
  q1, qd1 = rand_state(rng, sys)
  q2, qd2 = rand_state(rng, sys)
  a = jax.vmap(one)(jp.stack([q0, q1]), jp.stack([qd0, qd1]))
  b = jax.vmap(one)(jp.stack([q0, q2]), jp.stack([qd0, qd2]))
  d = max(float(jp.max(jp.abs(a[0][0] - b[0][0]))), float(jp.max(jp.abs(a[1][0] - b[1][0]))))
  return {'reproduced': d > 1e-12, 'max_change_of_member0_when_member1_changes': d}


def bounded(tier):
  def run():
    from brax.io import mjcf
    from verif.bounded import modelgen
    import importlib
    rng = np.random.RandomState(seed() + 7)
    nm = 3 if tier == 'quick' else 25
    evals = 0
    distinct = set()
    worst = 0.0
    for k in range(nm):
      xml, meta = modelgen.generate(rng, modelgen.Spec(n_links=(1, 4), collide=(k % 2 == 1), plane=(k % 2 == 1)))
      sys = mjcf.loads(xml)
      B = int(rng.randint(2, 5))
      for pipeline in ('generalized', 'spring', 'positional'):
        pl = importlib.import_module('brax.%s.pipeline' % pipeline)
        qs, qds = zip(*[modelgen.rand_state(rng, sys, 1.0, 0.5) for _ in range(B)])
        acts = rng.uniform(-1, 1, (B, sys.act_size()))

        def one(q, qd, a):
          s = pl.step(sys, pl.init(sys, q, qd), a)
          return s.q, s.qd, s.x.pos
        batched = jax.jit(jax.vmap(one))(jp.asarray(np.stack(qs)), jp.asarray(np.stack(qds)), jp.asarray(acts))
        for i in range(B):
          solo = one(jp.asarray(qs[i]), jp.asarray(qds[i]), jp.asarray(acts[i]))
          evals += 1
          distinct.add((k, pipeline, i))
          for x, y in zip(batched, solo):
            d = float(jp.max(jp.abs(x[i] - y))) if y.size else 0.0
            s_ = max(1.0, float(jp.max(jp.abs(y)))) if y.size else 1.0
            worst = max(worst, d / s_)
            if not np.isfinite(d) or d / s_ > 1e-6:
              return Result(REFUTED, '%s: member %d of jit(vmap(init+step)) differs from the solo run by %g' % (pipeline, i, d),
                            witness={'xml': xml, 'member': i}, replay={'reproduced': True, 'difference': d})
    return Result(PROVED, 'bounded: %d member comparisons, worst relative difference %.2e' % (evals, worst),
                  stats={'evaluations': evals, 'distinct_nontrivial': len(distinct), 'worst_rel_diff': worst})
  return Obligation('C07/bounded/jit_vmap_vs_solo', 'brax.{generalized,spring,positional}.pipeline:init,step',
                    'BOUNDED: jit(vmap(init+step))(batch)[i] = (init+step)(batch[i]) to 1e-6 relative on generated models with and without contacts, batches 2-4',
                    run, backend='bounded', kind='bounded', budget=1500)


def obligations(tier):
  Q, Th = ('quick', 'thorough'), ('thorough',)
  obs = [member('episode', 2, 2, Q), member('autoreset', 2, 1, Q), member('eval', 2, 1, Q), member('autoreset', 3, 2, Q), member('episode', 3, 1, Th),
         member('eval', 3, 2, Th), is_vmap(), dr_is_vmap(), dr_reset_is_vmap(),
         noninterference('spring', 'required', Q), noninterference('positional', 'required', Q), noninterference('generalized', 'attempted', Th),
         bounded(tier)]

  def canary():
    # a wrapper that reduces over the batch axis must violate the member clause
    import z3
    from verif.contracts import havoc as hv
    A = Z3Alg()
    st, raw = hv.sym_state(A, [0, 1])
    rec = hv.Recorder(A, [0, 1])

    def leaky(state, action):
      n = hv.HavocEnv().step(state, action)
      return n.replace(done=jp.where(jp.any(n.done > 0), jp.ones_like(n.done), n.done))
    full = sym_call(Interp(A, cuts=rec.cuts()), leaky, st, Sym(A.arr('act', (2, 1))))
    d0 = rec.step_calls[0][1]['done'][0]
    return smt_prove(A, [], [full.done[0] == d0], timeout_s=20)
  obs.append(Obligation('C07/canary/any_over_batch', 'verif canary', 'CANARY: done computed with an un-axised any() still satisfies the member clause (must be refuted)', canary, kind='canary'))
  return obs
