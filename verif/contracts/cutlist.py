"""Every callee that some contract cuts out of its caller's trace, with the status of its contract.
   verified : the contract used at the cut is discharged against the callee's real body by the named obligation(s)
   true     : the caller's proof holds for ANY output of the callee (contract `true`, possibly strengthened by a range fact that is itself verified)
   uf       : uninterpreted function shared by both runs of a relational obligation (only congruence is used)
   assumed  : external library function; its contract is an assumption of the check (listed in the evidence)"""
CUTS = {
    'brax.math:normalize': ('verified', 'C09/normalize/contract_{unit,nontiny,tiny,defined}[n=3,4]'),
    'brax.math:safe_norm': ('verified/uf', 'contract (tiny => 0; else n >= 0, n^2 = x.x) verified by C09/safe_norm/contract_{tiny,nontiny}; uninterpreted function in relational obligations; definedness C03/safe_norm/jvp_defined'),
    'brax.math:orthogonals': ('verified', 'C09/orthogonals/frame[y,z+,z-] + hint_any; callers quantify over EVERY orthonormal completion'),
    'brax.math:signed_angle': ('verified/uf', 'definition atan2(cross.axis, dot) is read off the real call arguments (C08); atan2 axiom trusted'),
    'brax.math:quat_rot_axis': ('uf', 'relational only (C06 positional limits_inert); its definition is C09/quat_rot_axis/unit_and_def'),
    'brax.math:rotate': ('uf', 'relational only (C06 positional limits_inert); its definition is C09/rotate/sandwich'),
    'brax.kinematics:link_to_joint_frame': ('uf/verified', 'uf in relational obligations; frame-completion contract via orthogonals in C04 rest / C08'),
    'brax.kinematics:axis_angle_ang': ('uf', 'relational obligations only'),
    'brax.kinematics:inverse': ('true', 'outputs unused by the goals it is cut in (momentum, unit_rot) / term identity in C08 q_is_inverse'),
    'brax.kinematics:world_to_joint': ('true/verified', 'as above; in C05 position_update through its covariance contract C05/kinematics.world_to_joint/invariant'),
    'brax.com:inv_inertia': ('true/uf/verified', 'arbitrary inverse inertia; covariance R I R^T proved in C05/com.../covariant and used in C05 position_update'),
    'brax.positional.joints:_translation_update': ('verified', 'C05/positional.joints._translation_update/covariant (relational contract, arguments compared)'),
    'brax.positional.joints:_rotation_update': ('verified', 'C05/positional.joints._rotation_update/covariant (relational contract, arguments compared)'),
    'brax.spring.joints:_one_dof': ('true', 'any joint-frame force'), 'brax.spring.joints:_two_dof': ('true', 'any joint-frame force'), 'brax.spring.joints:_three_dof': ('true', 'any joint-frame force'),
    'brax.positional.joints:_three_dof_joint_update': ('true', 'any joint-frame correction'), 'brax.positional.joints:_sphericalize': ('true', 'any padding'),
    'brax.spring.integrator:integrate': ('verified', 'C06/spring.integrator.integrate/unit'),
    'brax.generalized.constraint:_imp_aref': ('verified', 'C06/generalized.constraint._imp_aref/range'),
    'brax.generalized.dynamics:inverse': ('true', 'bias force symbol in C02/_passive+forward; its own form is C02/dynamics.inverse/rne_form'),
    'brax.training.distribution:TanhBijector.forward_log_det_jacobian': ('verified', 'C20/TanhBijector.fldj/identity'),
    'brax.training.networks:MLP.apply': ('assumed', 'flax MLP: arbitrary function of its inputs'),
    'jax.nn:softplus': ('verified', 'C20/softplus/def (= log(1+e^x), hence >= 0)'),
    'jax.random:normal': ('assumed', 'arbitrary function of (key, shape)'), 'jax.random:randint': ('assumed', 'integers in [minval, maxval)'), 'jax.random:split': ('assumed', 'function of the key'),
    'jax.numpy.linalg:det': ('assumed', 'returns the determinant (cofactor expansion)'),
    'jax.scipy.linalg:solve': ('assumed', 'A X = B for invertible A'),
    'mujoco.mjx:collision': ('verified/assumed', 'verified against the real mjx code for plane-sphere, sphere-sphere and plane-capsule pairs (C10/mjx.collision/*); assumed (exercised by C10 bounded) for sphere-capsule, capsule-capsule and all other geom types'),
    'jaxopt.ProjectedGradient': ('assumed', 'returns some vector (C06 force/inert holds for any)'),
    'havoc.step': ('true', 'arbitrary environment'), 'havoc.reset': ('true', 'arbitrary environment'), 'havoc.policy': ('true', 'arbitrary policy'),
}
