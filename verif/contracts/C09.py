"""C09 -- Transforms, motions, forces and inertias obey rigid-body spatial algebra.

Every obligation is `lhs == rhs` for ALL real inputs (polynomial identities; modulo the unit-sphere
relations where the law needs a unit quaternion), lhs being the real brax function traced afresh from
/repo, rhs either another composition of real brax functions (algebraic laws) or the textbook
definition from verif.specs.sx (conventions: Hamilton product, q v q*).
"""
from __future__ import annotations
import numpy as np
import jax
import jax.numpy as jp

from verif.contracts.common import law, Obligation, Result
from verif.specs import sx
from verif.contracts import cuts

LEVEL = 'proof'
EXPECTED_MIN = {'quick': 30, 'thorough': 30}
EXPLANATION = ('Each law is a polynomial identity between jaxprs of the real brax functions, proved for all real '
               'inputs by z3 (QF_NRA) or by exact normal form in Q[x]/<unit-sphere relations>.')
TRUSTED = ['verif.specs.sx textbook definitions (Hamilton product, q v q*)',
           'real-analysis axioms: sin^2+cos^2=1; atan2(k sin t, k cos t)=t for k>0, t in (-pi,pi); asin(sin t)=t on [-pi/2,pi/2]']
ASSUMPTIONS = ['floats treated as exact reals (no round-off claim)',
               'jnp.linalg.det / jnp.cross / jnp.dot are whatever jax traces them to (their jaxpr is interpreted)']


def L(x):
  return [x[i] for i in range(x.shape[0])]


def M(x):
  return [[x[i, j] for j in range(x.shape[1])] for i in range(x.shape[0])]


def st(v):
  if isinstance(v[0], (list, tuple)):
    return jp.stack([jp.stack(list(r)) for r in v])
  return jp.stack(list(v))


def obligations(tier):
  from brax import math, base, com
  from brax.base import Transform, Motion, Force, Inertia
  obs = []
  add = obs.append
  V3, Q4 = (3,), (4,)

  # ---- conventions against the textbook definitions ------------------------------------------------
  add(law('C09/quat_mul/hamilton', 'brax.math:quat_mul', 'quat_mul(u,v) = Hamilton product u*v, all u,v',
          lambda u, v: (math.quat_mul(u, v), st(sx.qmul(L(u), L(v)))), {'u': Q4, 'v': Q4}))
  add(law('C09/quat_mul_np/hamilton', 'brax.math:quat_mul_np', 'numpy twin equals quat_mul',
          lambda u, v: (math.quat_mul(u, v), st(sx.qmul(L(u), L(v)))), {'u': Q4, 'v': Q4}, tiers=()))
  add(law('C09/rotate/sandwich', 'brax.math:rotate', 'rotate(v,q) = vector part of q (0,v) q* for all q (so a rotation for unit q)',
          lambda v, q: (math.rotate(v, q), st(sx.qrot(L(q), L(v)))), {'v': V3, 'q': Q4}))
  add(law('C09/quat_inv/conjugate', 'brax.math:quat_inv', 'quat_inv(q) = conjugate',
          lambda q: (math.quat_inv(q), st(sx.qconj(L(q)))), {'q': Q4}))
  add(law('C09/vec_quat_mul/embed', 'brax.math:vec_quat_mul', 'vec_quat_mul(u,v) = quat_mul((0,u),v)',
          lambda u, v: (math.vec_quat_mul(u, v), math.quat_mul(jp.concatenate([jp.zeros(1), u]), v)), {'u': V3, 'v': Q4}))
  add(law('C09/ang_to_quat/embed', 'brax.math:ang_to_quat', 'ang_to_quat(w) = (0,w)',
          lambda w: (math.ang_to_quat(w), jp.concatenate([jp.zeros(1), w])), {'w': V3}))

  # ---- quaternion laws ---------------------------------------------------------------------------
  add(law('C09/rotate/product', 'brax.math:rotate', 'rotate(v, p*q) = rotate(rotate(v,q),p), all p,q (not only unit)',
          lambda v, p, q: (math.rotate(v, math.quat_mul(p, q)), math.rotate(math.rotate(v, q), p)),
          {'v': V3, 'p': Q4, 'q': Q4}))
  add(law('C09/quat_mul/assoc', 'brax.math:quat_mul', '(p*q)*r = p*(q*r)',
          lambda p, q, r: (math.quat_mul(math.quat_mul(p, q), r), math.quat_mul(p, math.quat_mul(q, r))),
          {'p': Q4, 'q': Q4, 'r': Q4}))
  add(law('C09/quat_mul/norm_multiplicative', 'brax.math:quat_mul', '|p*q|^2 = |p|^2 |q|^2',
          lambda p, q: (jp.dot(math.quat_mul(p, q), math.quat_mul(p, q)), jp.dot(p, p) * jp.dot(q, q)), {'p': Q4, 'q': Q4}))
  add(law('C09/quat_mul/inverse', 'brax.math:quat_inv', 'q * quat_inv(q) = (|q|^2,0,0,0) = quat_inv(q) * q',
          lambda q: ((math.quat_mul(q, math.quat_inv(q)), math.quat_mul(math.quat_inv(q), q)),
                     (jp.array([1.0, 0, 0, 0]) * jp.dot(q, q), jp.array([1.0, 0, 0, 0]) * jp.dot(q, q))), {'q': Q4}))
  add(law('C09/rotate/vs_3x3_unit', 'brax.math:quat_to_3x3', 'unit q: rotate(v,q) = quat_to_3x3(q) @ v',
          lambda v, q: (math.rotate(v, q), math.quat_to_3x3(q) @ v), {'v': V3, 'q': Q4}, units=('q',), backend='ring'))
  add(law('C09/rotate/vs_3x3_any', 'brax.math:quat_to_3x3', 'any q != 0: rotate(v,q) = |q|^2 quat_to_3x3(q) @ v',
          lambda v, q: (math.rotate(v, q), jp.dot(q, q) * (math.quat_to_3x3(q) @ v)), {'v': V3, 'q': Q4},
          pre=lambda A, i: [sum(e * e for e in i['q']) != 0]))
  add(law('C09/quat_to_3x3/orthonormal', 'brax.math:quat_to_3x3', 'unit q: R R^T = I',
          lambda q: (math.quat_to_3x3(q) @ math.quat_to_3x3(q).T, jp.eye(3)), {'q': Q4}, units=('q',), backend='ring'))
  add(law('C09/inv_rotate/inverse', 'brax.math:inv_rotate', 'inv_rotate(rotate(v,q),q) = |q|^4 v (= v for unit q), both orders',
          lambda v, q: ((math.inv_rotate(math.rotate(v, q), q), math.rotate(math.inv_rotate(v, q), q)),
                        (jp.dot(q, q) ** 2 * v, jp.dot(q, q) ** 2 * v)), {'v': V3, 'q': Q4}))
  add(law('C09/rotate/isometry', 'brax.math:rotate', '|rotate(v,q)|^2 = |q|^4 |v|^2 and rotate is linear in v',
          lambda v, w, q: ((jp.dot(math.rotate(v, q), math.rotate(v, q)), math.rotate(v + w, q)),
                           (jp.dot(q, q) ** 2 * jp.dot(v, v), math.rotate(v, q) + math.rotate(w, q))),
          {'v': V3, 'w': V3, 'q': Q4}))
  add(law('C09/relative_quat/def', 'brax.math:relative_quat', 'relative_quat(q1,q2) * q1 = |q1|^2 q2',
          lambda a, b: (math.quat_mul(math.relative_quat(a, b), a), jp.dot(a, a) * b), {'a': Q4, 'b': Q4}))
  add(law('C09/quat_rot_axis/unit_and_def', 'brax.math:quat_rot_axis',
          'unit axis: quat_rot_axis(a,t) = (cos t/2, a sin t/2) has norm 1',
          lambda a, t: ((jp.dot(math.quat_rot_axis(a, t), math.quat_rot_axis(a, t)), math.quat_rot_axis(a, t)),
                        (1.0, jp.concatenate([jp.cos(t / 2)[None], a * jp.sin(t / 2)]))),
          {'a': V3, 't': ()}, units=('a',), backend='ring'))

  # ---- Transform ------------------------------------------------------------------------------------
  def T(p, q):
    return Transform(pos=p, rot=q)

  add(law('C09/Transform.do/assoc', 'brax.base:_transform_do[Transform]', '(a.do(b)).do(c) = a.do(b.do(c)) for all a,b,c',
          lambda pa, qa, pb, qb, pc, qc: (T(pa, qa).do(T(pb, qb)).do(T(pc, qc)), T(pa, qa).do(T(pb, qb).do(T(pc, qc)))),
          {'pa': V3, 'qa': Q4, 'pb': V3, 'qb': Q4, 'pc': V3, 'qc': Q4}))
  add(law('C09/Transform.do/spec', 'brax.base:_transform_do[Transform]', 'a.do(b) = (pa + R(qa) pb, qa*qb) (textbook SE(3) composition)',
          lambda pa, qa, pb, qb: (T(pa, qa).do(T(pb, qb)),
                                  T(st(sx.t_compose(L(pa), L(qa), L(pb), L(qb))[0]), st(sx.t_compose(L(pa), L(qa), L(pb), L(qb))[1]))),
          {'pa': V3, 'qa': Q4, 'pb': V3, 'qb': Q4}))
  add(law('C09/Transform.do/identity', 'brax.base:Transform.zero', 'zero().do(t) = t = t.do(zero())',
          lambda p, q: ((Transform.zero().do(T(p, q)), T(p, q).do(Transform.zero())), (T(p, q), T(p, q))), {'p': V3, 'q': Q4}))
  add(law('C09/Transform.to_local/inverse', 'brax.base:Transform.to_local', 'unit t.rot: t.do(s.to_local(t)) = s and (t.do(s)).to_local(t) = s',
          lambda ps, qs, pt, qt: ((T(pt, qt).do(T(ps, qs).to_local(T(pt, qt))), T(pt, qt).do(T(ps, qs)).to_local(T(pt, qt))),
                                  (T(ps, qs), T(ps, qs))),
          {'ps': V3, 'qs': Q4, 'pt': V3, 'qt': Q4}, units=('qt',), backend='ring'))
  add(law('C09/Transform.create/defaults', 'brax.base:Transform.create', 'create(pos) has identity rotation, create(rot) zero position',
          lambda p, q: ((Transform.create(pos=p), Transform.create(rot=q)), (T(p, jp.array([1.0, 0, 0, 0])), T(jp.zeros(3), q))),
          {'p': V3, 'q': Q4}))

  # ---- Motion / Force ------------------------------------------------------------------------------
  def Mo(a, v):
    return Motion(ang=a, vel=v)

  def Fo(a, v):
    return Force(ang=a, vel=v)

  add(law('C09/Transform.do[Motion]/inverse', 'brax.base:_transform_inv_do[Motion]', 'unit q: inv_do(do(m)) = m = do(inv_do(m))',
          lambda p, q, a, v: ((T(p, q).inv_do(T(p, q).do(Mo(a, v))), T(p, q).do(T(p, q).inv_do(Mo(a, v)))), (Mo(a, v), Mo(a, v))),
          {'p': V3, 'q': Q4, 'a': V3, 'v': V3}, units=('q',), backend='ring'))
  add(law('C09/Transform.do[Motion]/spec', 'brax.base:_transform_do[Motion]',
          'do(m) = (R^T w, R^T (v - p x w)): the twist seen from the frame at p with orientation q (unit q)',
          lambda p, q, a, v: (T(p, q).do(Mo(a, v)),
                              Mo(st(sx.qrot(sx.qconj(L(q)), L(a))), st(sx.qrot(sx.qconj(L(q)), sx.vsub(L(v), sx.cross(L(p), L(a))))))),
          {'p': V3, 'q': Q4, 'a': V3, 'v': V3}))
  add(law('C09/power_duality', 'brax.base:_transform_do[Force]', 'unit q: t.do(m) . f = m . t.do(f)  (power is frame independent)',
          lambda p, q, a, v, fa, fv: (T(p, q).do(Mo(a, v)).dot(Fo(fa, fv)), Mo(a, v).dot(T(p, q).do(Fo(fa, fv)))),
          {'p': V3, 'q': Q4, 'a': V3, 'v': V3, 'fa': V3, 'fv': V3}, units=('q',), backend='ring'))
  add(law('C09/Transform.do[Force]/spec', 'brax.base:_transform_do[Force]', 'do(f) = (R tau + p x R f, R f)',
          lambda p, q, fa, fv: (T(p, q).do(Fo(fa, fv)),
                                Fo(st(sx.vadd(sx.qrot(L(q), L(fa)), sx.cross(L(p), sx.qrot(L(q), L(fv))))), st(sx.qrot(L(q), L(fv))))),
          {'p': V3, 'q': Q4, 'fa': V3, 'fv': V3}))
  add(law('C09/Motion.do/compose', 'brax.base:_transform_do[Motion]', 'unit qa,qb: b.do(a.do(m)) = (a.do(b)).do(m)',
          lambda pa, qa, pb, qb, a, v: (T(pb, qb).do(T(pa, qa).do(Mo(a, v))), T(pa, qa).do(T(pb, qb)).do(Mo(a, v))),
          {'pa': V3, 'qa': Q4, 'pb': V3, 'qb': Q4, 'a': V3, 'v': V3}, units=('qa', 'qb'), backend='ring'))
  add(law('C09/Motion.cross/antisymmetric', 'brax.base:_motion_cross[Motion]', 'm x m = 0 and m1 x m2 = -(m2 x m1)',
          lambda a1, v1, a2, v2: ((Mo(a1, v1).cross(Mo(a1, v1)), Mo(a1, v1).cross(Mo(a2, v2))),
                                  (Motion.zero(), -(Mo(a2, v2).cross(Mo(a1, v1))))),
          {'a1': V3, 'v1': V3, 'a2': V3, 'v2': V3}))
  add(law('C09/Motion.cross/dual', 'brax.base:_motion_cross[Force]', '(m x* f) . m2 = - f . (m x m2)',
          lambda a1, v1, a2, v2, fa, fv: (Mo(a2, v2).dot(Mo(a1, v1).cross(Fo(fa, fv))),
                                          -Mo(a1, v1).cross(Mo(a2, v2)).dot(Fo(fa, fv))),
          {'a1': V3, 'v1': V3, 'a2': V3, 'v2': V3, 'fa': V3, 'fv': V3}))
  add(law('C09/Motion.cross/jacobi', 'brax.base:_motion_cross[Motion]', 'Jacobi identity of the motion cross product (Lie bracket of se(3))',
          lambda a1, v1, a2, v2, a3, v3: (
              Mo(a1, v1).cross(Mo(a2, v2).cross(Mo(a3, v3))) + Mo(a2, v2).cross(Mo(a3, v3).cross(Mo(a1, v1)))
              + Mo(a3, v3).cross(Mo(a1, v1).cross(Mo(a2, v2))), Motion.zero()),
          {'a1': V3, 'v1': V3, 'a2': V3, 'v2': V3, 'a3': V3, 'v3': V3}))
  add(law('C09/Motion.cross/covariant', 'brax.base:_motion_cross[Motion]', 'unit q: t.do(m1 x m2) = t.do(m1) x t.do(m2)',
          lambda p, q, a1, v1, a2, v2: (T(p, q).do(Mo(a1, v1).cross(Mo(a2, v2))), T(p, q).do(Mo(a1, v1)).cross(T(p, q).do(Mo(a2, v2)))),
          {'p': V3, 'q': Q4, 'a1': V3, 'v1': V3, 'a2': V3, 'v2': V3}, units=('q',), backend='ring'))
  add(law('C09/Motion.dot/def', 'brax.base:Motion.dot', 'm.dot(f) = w.tau + v.f ; matrix() = (ang, vel)',
          lambda a, v, fa, fv: ((Mo(a, v).dot(Fo(fa, fv)), Mo(a, v).matrix()), (jp.sum(a * fa) + jp.sum(v * fv), jp.concatenate([a, v]))),
          {'a': V3, 'v': V3, 'fa': V3, 'fv': V3}))

  # ---- Inertia -----------------------------------------------------------------------------------
  def In(c, i, m, q=None):
    return Inertia(transform=Transform(pos=c, rot=jp.array([1.0, 0, 0, 0]) if q is None else q), i=i, mass=m)

  def sym3(i):
    return (i + i.T) / 2

  add(law('C09/Inertia.mul/spec', 'brax.base:Inertia.mul',
          'I.mul(m) = (I w + c x v, mass v - c x w) with c = first moment (transform.pos)',
          lambda c, i, m, a, v: (In(c, i, m).mul(Mo(a, v)), Fo(i @ a + jp.cross(c, v), m * v - jp.cross(c, a))),
          {'c': V3, 'i': (3, 3), 'm': (), 'a': V3, 'v': V3}))
  add(law('C09/Inertia.mul/symmetric', 'brax.base:Inertia.mul', 'symmetric i: m1 . (I m2) = m2 . (I m1)',
          lambda c, i, m, a1, v1, a2, v2: (Mo(a1, v1).dot(In(c, sym3(i), m).mul(Mo(a2, v2))), Mo(a2, v2).dot(In(c, sym3(i), m).mul(Mo(a1, v1)))),
          {'c': V3, 'i': (3, 3), 'm': (), 'a1': V3, 'v1': V3, 'a2': V3, 'v2': V3}))
  add(law('C09/Transform.do[Inertia]/kinetic_energy', 'brax.base:_transform_do[Inertia]',
          'unit q: moving a CoM inertia out of frame t preserves kinetic energy: m . (t.do(I) m) = t.do(m) . (I t.do(m))',
          lambda p, q, i, m, a, v: (Mo(a, v).dot(T(p, q).do(In(jp.zeros(3), i, m)).mul(Mo(a, v))),
                                    T(p, q).do(Mo(a, v)).dot(In(jp.zeros(3), i, m).mul(T(p, q).do(Mo(a, v))))),
          {'p': V3, 'q': Q4, 'i': (3, 3), 'm': (), 'a': V3, 'v': V3}, units=('q',), backend='ring'))
  add(law('C09/Transform.do[Inertia]/spec', 'brax.base:_transform_do[Inertia]',
          'unit q: t.do(I) = (R I R^T + mass [p]x [p]x^T, first moment mass p, mass) (parallel-axis theorem)',
          lambda p, q, i, m: ((T(p, q).do(In(jp.zeros(3), i, m)).i, T(p, q).do(In(jp.zeros(3), i, m)).transform.pos, T(p, q).do(In(jp.zeros(3), i, m)).mass),
                              (st(sx.qmat(L(q))) @ i @ st(sx.qmat(L(q))).T + m * (jp.dot(p, p) * jp.eye(3) - jp.outer(p, p)), m * p, m)),
          {'p': V3, 'q': Q4, 'i': (3, 3), 'm': ()}, units=('q',), backend='ring'))

  # ---- constructions ---------------------------------------------------------------------------------
  def euler_spec(v):
    # x-y'-z'' intrinsic: q = qx * qy * qz, angles in degrees -> half angle v*pi/360
    h = v * jp.pi / 360
    c, s = jp.cos(h), jp.sin(h)
    z = c[0] * 0
    qx, qy, qz = [c[0], s[0], z, z], [c[1], z, s[1], z], [c[2], z, z, s[2]]
    return st(sx.qmul(sx.qmul(qx, qy), qz))

  add(law('C09/euler_to_quat/product', 'brax.math:euler_to_quat', "euler_to_quat(v) = qx(v0) * qy(v1) * qz(v2)  (x-y'-z'' intrinsic), unit",
          lambda v: ((math.euler_to_quat(v), jp.dot(math.euler_to_quat(v), math.euler_to_quat(v))), (euler_spec(v), 1.0)),
          {'v': V3}, backend='ring'))
  add(law('C09/inv_3x3/adjugate', 'brax.math:inv_3x3', 'det + 1e-10 != 0: inv_3x3(m) @ m = det/(det+1e-10) I, both sides',
          lambda m: ((math.inv_3x3(m) @ m * (jp.linalg.det(m) + 1e-10), m @ math.inv_3x3(m) * (jp.linalg.det(m) + 1e-10)),
                     (jp.linalg.det(m) * jp.eye(3), jp.linalg.det(m) * jp.eye(3))),
          {'m': (3, 3)}, backend='ring',
          cut_targets=('jax.numpy.linalg:det',), cuts={'jax.numpy.linalg:det': cuts.det_cofactor},
          assumes=('jnp.linalg.det (external, cut): assumed to return the determinant; its pivoted-elimination jaxpr is piecewise rational and is not re-proved',)))

  obs.extend(extra(tier))

  # ---- canary ------------------------------------------------------------------------------------------
  def bad_qmul(u, v):
    r = sx.qmul(L(u), L(v))
    r[2] = r[2] - 2 * u[3] * v[1]          # one sign flipped
    return st(r)
  add(law('C09/canary/quat_mul_sign', 'brax.math:quat_mul', 'CANARY: quat_mul equals a Hamilton product with one sign flipped (must be refuted)',
          lambda u, v: (math.quat_mul(u, v), bad_qmul(u, v)), {'u': Q4, 'v': Q4}, kind='canary'))
  add(law('C09/canary/ring_unit', 'brax.math:quat_to_3x3', 'CANARY: rotate = quat_to_3x3 @ v with q of norm^2 = 1 NOT assumed (must be refuted)',
          lambda v, q: (math.rotate(v, q), math.quat_to_3x3(q) @ v * (q[0] * 0 + 1)), {'v': V3, 'q': Q4}, backend='ring', kind='canary',
          ring_setup=lambda A, ins: A.declare_nonzero(sum_sq_ring(A, ins['q']), 'inv_qq')))
  return [o for o in obs if o.tiers]


def det3(m):
  return (m[0, 0] * (m[1, 1] * m[2, 2] - m[1, 2] * m[2, 1]) - m[0, 1] * (m[1, 0] * m[2, 2] - m[1, 2] * m[2, 0])
          + m[0, 2] * (m[1, 0] * m[2, 1] - m[1, 1] * m[2, 0]))


def sum_sq_ring(A, q):
  s = 0
  for e in q.reshape(-1):
    s = A.add(s, A.mul(e, e))
  return s


def extra(tier):
  """laws that need axioms, cuts or case analysis: from_to, orthogonals, quat_to_euler, com.inv_inertia"""
  from verif.contracts import C09x
  return C09x.obligations(tier)
