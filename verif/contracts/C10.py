"""C10 -- contact detection reports the true geometry of primitive pairs."""
from __future__ import annotations
from fractions import Fraction
import os
import numpy as np
import jax
import jax.numpy as jp

from verif.contracts.common import (Obligation, Result, Sym, sym_call, Interp, RingAlg, Z3Alg, ring_equal, combine, smt_prove, smt_custom,
                                    PROVED, REFUTED, UNDECIDED, ERROR, is_sym, isc, seed)
from verif.contracts import physsys
from verif.specs import sx
from verif.specs.sx import X

LEVEL = 'other'
EXPECTED_MIN = {'quick': 7, 'thorough': 7}
EXPLANATION = ('PROVED: contact.get hands the collision routine, for every geom, the world pose  x_link o geom_local  (position x.pos + R(x.rot) geom_pos, orientation matrix '
               'R(x.rot * geom_quat)) for ALL link poses and geom offsets, with geoms of the world body left at their local pose (index -1 = appended identity); each contact is '
               'attributed to links geom_bodyid[geom] - 1 and gets the mean of the two geoms\' elasticities, for ANY contact list returned by the collision routine; the per-geom elasticity table '
               'built by mjcf._get_custom holds the configured value of every geom; and the collision routine itself (the real mujoco.mjx.collision, interpreted with SYMBOLIC world geom poses) '
               'returns the closed-form signed distance for plane-sphere, sphere-sphere and plane-capsule pairs, with the plane normal as contact normal.  BOUNDED (not proof): sphere-capsule and '
               'capsule-capsule distances (mjx guards its segment projection with 1e-6, so the closed form only holds to a margin), normal direction of sphere pairs, against closed forms.')
TRUSTED = ['mjx.collision for sphere-capsule / capsule-capsule pairs and every other geom type (external, assumed: true primitive distances; exercised by the bounded check)', 'mjx.make_data (external)']
ASSUMPTIONS = ['exact reals', 'scene sizes: 1 world geom + 2 bodies with 1-2 geoms in the proved clauses; one pair per mjx.collision clause (concrete radii / half-lengths, symbolic poses)']
BOUNDED_RULE = 'scenes of a plane and 2-3 free bodies with sphere/capsule geoms at random poses; non-trivial = distinct (scene, contact pair)'

SCENE = '''<mujoco><worldbody><geom name="floor" type="plane" size="5 5 0.1" pos="0.1 0.2 0.05" quat="0.9689124 0.2474040 0 0"/>
<body name="a" pos="0 0 1"><freejoint/><geom name="ga" type="capsule" size="0.05 0.2" pos="0.1 0.05 -0.02" quat="0.5 0.5 -0.5 0.5"/></body>
<body name="b" pos="0.5 0 1"><freejoint/><geom name="gb" type="sphere" size="0.1" pos="-0.03 0.02 0.01"/><geom name="gb2" type="capsule" size="0.04 0.1" pos="0.2 0 0" quat="0.7071068 0 0.7071068 0"/></body>
</worldbody></mujoco>'''


def geom_pose():
  def run():
    from verif.engine.opaque import cut
    from brax import contact
    from brax.base import Transform
    A = RingAlg()
    sys = physsys.load(SCENE)
    n, ng = sys.num_links(), sys.ngeom
    xp, xr = A.arr('xp', (n, 3)), A.arr('xr', (n, 4))
    gp, gq = A.arr('gp', (ng, 3)), A.arr('gq', (ng, 4))
    for i in range(n):
      A.unit(list(xr[i]))
    for g in range(ng):
      A.unit(list(gq[g]))
    sys2 = sys.replace(geom_pos=Sym(gp), geom_quat=Sym(gq))
    seen = {}

    def h_collision(I, P, ins):
      names = list(P['argnames'])
      first = names[0]
      seen['ins'] = [x for nm, x in zip(names, ins) if is_sym(x) and nm != first]          # the Data argument (second parameter of mjx.collision)
      return I.fresh_outputs(P)
    with cut('mujoco.mjx:collision'):
      I = Interp(A, cuts={'mujoco.mjx:collision': h_collision})
      c = sym_call(I, lambda s, x: contact.get(s, x).dist, sys2, Transform(pos=Sym(xp), rot=Sym(xr)))
    if 'ins' not in seen:
      return Result(REFUTED, 'contact.get never calls mjx.collision for a scene with collidable geoms', replay=_native_pose())
    pos = [x for x in seen['ins'] if x.shape == (ng, 3)]
    mat = [x for x in seen['ins'] if x.shape == (ng, 3, 3)]
    if len(pos) != 1 or len(mat) != 1:
      return Result(UNDECIDED, 'cannot identify geom_xpos / geom_xmat among the symbolic inputs of mjx.collision: shapes %s' % [x.shape for x in seen['ins']])
    bodyid = np.asarray(sys.geom_bodyid)
    wantp = np.empty((ng, 3), dtype=object)
    wantm = np.empty((ng, 3, 3), dtype=object)
    Xs = lambda v: [X(e, A) for e in v]
    for g in range(ng):
      l = int(bodyid[g]) - 1
      if l < 0:
        P_, Q_ = [X(0, A)] * 3, [X(1, A), X(0, A), X(0, A), X(0, A)]
      else:
        P_, Q_ = Xs(xp[l]), Xs(xr[l])
      p = sx.vadd(P_, sx.qrot(Q_, Xs(gp[g])))
      R = sx.qmat(sx.qmul(Q_, Xs(gq[g])))
      wantp[g] = [e.v for e in p]
      for a_ in range(3):
        wantm[g][a_] = [e.v for e in R[a_]]
    r = combine([ring_equal(A, pos[0], wantp, name='geom world position'), ring_equal(A, mat[0], wantm, name='geom world orientation')])
    if r.verdict == REFUTED:
      r.replay = _native_pose()
    return r
  return Obligation('C10/contact.get.local_to_global/pose', 'brax.contact:get (local_to_global)', 'for ALL link poses (unit quaternions) and geom offsets/orientations: the geom world position handed to the '
                    'collision routine is x.pos + R(x.rot) geom_pos and the world matrix is R(x.rot * geom_quat) (columns = images of the geom axes); geoms of the world body keep their '
                    'local pose (body index 0 -> link -1 -> appended identity transform)', run, backend='ring', budget=600, assumes=('mjx.collision cut',))


def _native_pose():
  """a separated rotated capsule on a rotated body: contact.get distance vs the closed form"""
  from brax.io import mjcf
  from brax import contact
  from brax.base import Transform
  import mujoco
  sys = mjcf.loads(SCENE)
  rng = np.random.RandomState(3)
  worst = 0.0
  for t in range(10):
    q = rng.normal(size=(2, 4))
    q /= np.linalg.norm(q, axis=1, keepdims=True)
    pos = np.array([[0, 0, 1.0 + 0.3 * rng.rand()], [0.8 + 0.5 * rng.rand(), 0.2, 1.2]])
    c = contact.get(sys, Transform(pos=jp.asarray(pos), rot=jp.asarray(q)))
    # reference: MuJoCo's own kinematics for the same body poses
    m = mujoco.MjModel.from_xml_string(SCENE)
    d = mujoco.MjData(m)
    d.qpos[:] = np.concatenate([pos[0], q[0], pos[1], q[1]])
    mujoco.mj_forward(m, d)
    # capsule ga vs plane: closed form from MuJoCo geom poses
    def capsule_plane(gc, gpl):
      n = d.geom_xmat[gpl].reshape(3, 3)[:, 2]
      ax = d.geom_xmat[gc].reshape(3, 3)[:, 2]
      ends = [d.geom_xpos[gc] + s * m.geom_size[gc][1] * ax for s in (-1, 1)]
      return min(float(np.dot(e - d.geom_xpos[gpl], n)) for e in ends) - m.geom_size[gc][0]
    want = capsule_plane(1, 0)
    g1, g2 = np.asarray(c.geom1), np.asarray(c.geom2)
    idx = [k for k in range(len(g1)) if {int(g1[k]), int(g2[k])} == {0, 1}]
    got = min(float(c.dist[k]) for k in idx)
    worst = max(worst, abs(got - want))
    if abs(got - want) > 1e-6:
      return {'reproduced': True, 'pair': 'capsule ga vs plane', 'reported_dist': got, 'closed_form': want, 'body_quat': q[0].tolist()}
  return {'reproduced': False, 'worst': worst}


def link_elasticity():
  def body(A):
    import z3
    from verif.engine.opaque import cut
    from brax import contact
    from brax.base import Transform
    sys = physsys.load(SCENE)
    ng = sys.ngeom
    el = A.arr('el', (ng,))
    sys2 = sys.replace(elasticity=Sym(el))
    out = {}

    def h_collision(I, P, ins):
      outs = I.fresh_outputs(P)
      out['outs'] = outs
      return outs
    x = Transform(pos=Sym(A.arr('xp', (2, 3))), rot=Sym(A.arr('xr', (2, 4))))
    with cut('mujoco.mjx:collision'):
      I = Interp(A, cuts={'mujoco.mjx:collision': h_collision})
      c = sym_call(I, lambda s, xx: (lambda r: {'link_idx': r.link_idx, 'el': r.elasticity, 'g1': r.geom1, 'g2': r.geom2})(contact.get(s, xx)), sys2, x)
    g1, g2 = c['g1'], c['g2']
    ncon = g1.shape[0]
    bodyid = [int(v) for v in np.asarray(sys.geom_bodyid)]
    pre = []
    goal = []
    for k in range(ncon):
      pre += [g1[k] >= 0, g1[k] < ng, g2[k] >= 0, g2[k] < ng]
      for a in range(ng):
        goal.append(z3.Implies(g1[k] == a, c['link_idx'][0][k] == bodyid[a] - 1))
        goal.append(z3.Implies(g2[k] == a, c['link_idx'][1][k] == bodyid[a] - 1))
        for b in range(ng):
          goal.append(z3.Implies(z3.And(g1[k] == a, g2[k] == b), c['el'][k] == (el[a] + el[b]) / 2))
    return pre, goal
  return smt_custom('C10/contact.get/link_idx+elasticity', 'brax.contact:get', 'for ANY contact list returned by the collision routine (geom indices in range): link_idx = '
                    '(geom_bodyid[geom1] - 1, geom_bodyid[geom2] - 1) (world = -1) and elasticity = mean of the two geoms\' elasticities', body, cut_targets=(), timeout=120, budget=400)


def bounded(tier):
  def run():
    from brax.io import mjcf
    from brax import contact
    from brax.base import Transform
    rng = np.random.RandomState(seed() + 37)
    n = 20 if tier == 'quick' else 500
    evals = 0
    distinct = set()

    def seg(p, ax, h):
      return p - h * ax, p + h * ax

    def seg_seg(a0, a1, b0, b1):
      # closest distance between two segments (Ericson)
      d1, d2, r = a1 - a0, b1 - b0, a0 - b0
      a, e, f = d1 @ d1, d2 @ d2, d2 @ r
      c, b = d1 @ r, d1 @ d2
      den = a * e - b * b
      s = np.clip((b * f - c * e) / den, 0, 1) if den > 1e-12 else 0.0
      t = (b * s + f) / e
      if t < 0:
        t, s = 0.0, np.clip(-c / a, 0, 1)
      elif t > 1:
        t, s = 1.0, np.clip((b - c) / a, 0, 1)
      pa, pb = a0 + s * d1, b0 + t * d2
      return float(np.linalg.norm(pa - pb)), pa, pb
    for k in range(n):
      kinds = [('sphere', 'capsule')[int(rng.randint(0, 2))] for _ in range(int(rng.randint(2, 4)))]
      bodies = []
      for i, kd in enumerate(kinds):
        r = rng.uniform(0.05, 0.15)
        h = rng.uniform(0.05, 0.25)
        gp = rng.uniform(-0.1, 0.1, 3)
        gq = rng.normal(size=4)
        gq /= np.linalg.norm(gq)
        el = rng.uniform(0, 0.9)
        size = '%g' % r if kd == 'sphere' else '%g %g' % (r, h)
        bodies.append((kd, r, h, gp, gq, el, '<body name="b%d" pos="0 0 1"><freejoint/><geom name="g%d" type="%s" size="%s" pos="%s" quat="%s"/></body>'
                       % (i, i, kd, size, ' '.join('%.9g' % v for v in gp), ' '.join('%.9g' % v for v in gq))))
      els = [0.3] + [b[5] for b in bodies]
      xml = ('<mujoco><custom><numeric name="elasticity" data="0"/></custom><worldbody><geom name="floor" type="plane" size="5 5 0.1"/>%s</worldbody></mujoco>' % ''.join(b[6] for b in bodies))
      sys = mjcf.loads(xml)
      sys = sys.replace(elasticity=jp.asarray(els))
      nb = len(bodies)
      pos = np.stack([np.array([0.4 * i + rng.uniform(-0.1, 0.1), rng.uniform(-0.1, 0.1), rng.uniform(0.0, 0.5)]) for i in range(nb)])
      rot = rng.normal(size=(nb, 4))
      rot /= np.linalg.norm(rot, axis=1, keepdims=True)
      c = contact.get(sys, Transform(pos=jp.asarray(pos), rot=jp.asarray(rot)))
      if c is None:
        continue

      def R(q):
        w, x, y, z = q
        return np.array([[1 - 2 * (y * y + z * z), 2 * (x * y - w * z), 2 * (x * z + w * y)], [2 * (x * y + w * z), 1 - 2 * (x * x + z * z), 2 * (y * z - w * x)],
                         [2 * (x * z - w * y), 2 * (y * z + w * x), 1 - 2 * (x * x + y * y)]])
      centers, axes = [], []
      for i, b in enumerate(bodies):
        Rb = R(rot[i])
        centers.append(pos[i] + Rb @ b[3])
        axes.append(Rb @ R(b[4])[:, 2])
      g1, g2, dist, frame, li1, li2, el = [np.asarray(v) for v in (c.geom1, c.geom2, c.dist, c.frame, c.link_idx[0], c.link_idx[1], c.elasticity)]
      pairs = {}
      for j in range(len(dist)):
        pairs.setdefault((int(g1[j]), int(g2[j])), []).append(j)
      for (a, b_), js in pairs.items():
        evals += 1
        distinct.add((k, a, b_))
        # attribution and elasticity
        for j in js:
          if int(li1[j]) != a - 1 or int(li2[j]) != b_ - 1:
            return Result(REFUTED, 'contact between geoms %d,%d attributed to links %d,%d' % (a, b_, li1[j], li2[j]), witness={'xml': xml}, replay={'reproduced': True})
          if abs(el[j] - 0.5 * (els[a] + els[b_])) > 1e-6:
            return Result(REFUTED, 'elasticity %g is not the mean of %g and %g' % (el[j], els[a], els[b_]), witness={'xml': xml}, replay={'reproduced': True})
        # closed-form distance of the pair (min over the reported candidates)
        def prim(g):
          if g == 0:
            return ('plane',)
          kd, r, h = bodies[g - 1][0], bodies[g - 1][1], bodies[g - 1][2]
          return (kd, centers[g - 1], axes[g - 1], r, h)
        pa, pb = prim(a), prim(b_)
        if pa[0] == 'plane':
          if pb[0] == 'sphere':
            want, nrm = pb[1][2] - pb[3], np.array([0, 0, 1.0])
          else:
            e0, e1 = seg(pb[1], pb[2], pb[4])
            want, nrm = min(e0[2], e1[2]) - pb[3], np.array([0, 0, 1.0])
        else:
          s0 = seg(pa[1], pa[2], pa[4] if pa[0] == 'capsule' else 0.0)
          s1 = seg(pb[1], pb[2], pb[4] if pb[0] == 'capsule' else 0.0)
          dd, qa, qb = seg_seg(s0[0], s0[1], s1[0], s1[1])
          want = dd - pa[3] - pb[3]
          nrm = (qb - qa) / max(dd, 1e-12)
        got = float(min(dist[j] for j in js))
        jmin = js[int(np.argmin([dist[j] for j in js]))]
        if abs(got - want) > 1e-5:
          return Result(REFUTED, 'pair (%s, %s): reported distance %g, closed form %g' % (pa[0], pb[0], got, want), witness={'xml': xml, 'pos': pos.tolist(), 'rot': rot.tolist()},
                        replay={'reproduced': True, 'reported': got, 'closed_form': want})
        if want > -0.3 and want < 0.7 and float(np.dot(frame[jmin][0], nrm)) < 0.999 and abs(want) > 1e-6 and not (pa[0] != 'plane' and dd < 1e-6):
          return Result(REFUTED, 'pair (%s, %s): contact normal %s does not point from the first geom to the second (%s)' % (pa[0], pb[0], frame[jmin][0], nrm), witness={'xml': xml},
                        replay={'reproduced': True, 'normal': frame[jmin][0].tolist(), 'expected': nrm.tolist()})
    return Result(PROVED, 'bounded: %d primitive pairs: distance = closed form (1e-5), normal from first to second geom, link attribution, mean elasticity' % evals,
                  stats={'evaluations': evals, 'distinct_nontrivial': len(distinct)})
  return Obligation('C10/bounded/primitive_pairs', 'brax.contact:get + mjx.collision', 'BOUNDED: plane + 2-3 free bodies with sphere/capsule geoms at random local and world poses, touching or separated: '
                    'signed distance vs closed form, normal direction, link_idx, elasticity', run, backend='bounded', kind='bounded', budget=1800)


# ---------------------------------------------------------------------------------------------------------------------------------
# per-geom elasticity from the MJCF <custom> block: mjcf._get_custom (Engine P on the real function, proxy MjModel)

def _custom_mj(ngeom, nbody, numerics, tuples):
  """proxy MjModel for _get_custom: `numerics` = [(name, size)], `tuples` = [(name, objtype, [objid...])].
  numeric_data is symbolic; the parameters of a tuple are symbolic when a numeric of the same name exists (the base array the code overrides is then an
  object array), otherwise distinct concrete markers 2000.25 + k: the base array is then numpy float storage, which cannot hold a proxy -- the code only moves them."""
  import types
  import z3
  from verif.engine import pathexec as px
  names = b''
  nadr, tadr = [], []
  for nm, _ in numerics:
    nadr.append(len(names))
    names += nm.encode() + b'\x00'
  for nm, _, _ in tuples:
    tadr.append(len(names))
    names += nm.encode() + b'\x00'
  nsz = [s for _, s in numerics]
  nad = list(np.cumsum([0] + nsz)[:-1])
  tsz = [len(o) for _, _, o in tuples]
  tad = list(np.cumsum([0] + tsz)[:-1])
  ntot, ttot = int(sum(nsz)), int(sum(tsz))
  ndata = px.symarr('num', (ntot,))
  tprm = px.symarr('prm', (ttot,))
  have = {nm for nm, _ in numerics}
  k = 0
  for nm, _, o in tuples:
    for _ in o:
      if nm not in have:
        tprm[k] = 2000.25 + k
      k += 1
  return types.SimpleNamespace(
      names=names, name_numericadr=np.array(nadr, dtype=int), numeric_size=np.array(nsz, dtype=int), numeric_adr=np.array(nad, dtype=int), numeric_data=ndata,
      name_tupleadr=np.array(tadr, dtype=int), tuple_adr=np.array(tad, dtype=int), tuple_size=np.array(tsz, dtype=int),
      tuple_objtype=np.array([t for _, t, o in tuples for _ in o], dtype=int), tuple_objid=np.array([i for _, _, o in tuples for i in o], dtype=int), tuple_objprm=tprm,
      nbody=nbody, ngeom=ngeom, nq=nbody - 1)


def _custom_configs(tier):
  """(ngeom, numeric kind for 'elasticity', tuple geom ids or None, extra unrelated numerics/tuples)"""
  out = []
  sizes = (1, 2, 3) if tier == 'quick' else (1, 2, 3, 4)
  for ng in sizes:
    for kind in ('none', 'scalar', 'vector'):
      subsets = [None, ()]
      ids = list(range(ng))
      subsets += [(g,) for g in ids] + ([tuple(ids)] if ng > 1 else []) + ([tuple(reversed(ids))] if ng > 1 else [])
      if ng >= 3:
        subsets += [(0, 2), (2, 0, 2)]
      for sub in subsets:
        if kind == 'vector' and ng == 1:
          continue                 # a 1-vector is the scalar case
        out.append((ng, kind, sub))
  return out


def _expected_elasticity(ng, kind, sub, num, prm):
  """spec: tuple parameter for the geoms a tuple names (the last entry for a geom wins), else the per-geom numeric, else the scalar numeric, else 0"""
  base = {'none': lambda g: 0.0, 'scalar': lambda g: num[0], 'vector': lambda g: num[g]}[kind]
  want = [base(g) for g in range(ng)]
  for k, g in enumerate(sub or ()):
    want[g] = prm[k]
  return want


def custom_elasticity(tier):
  def run():
    import z3
    from brax.io import mjcf
    from verif.engine import pathexec as px
    cfgs = _custom_configs(tier)
    npaths = nchecks = 0
    for (ng, kind, sub) in cfgs:
      # an unrelated scalar numeric and an unrelated per-body numeric sit around the elasticity entries, so that address arithmetic matters
      numerics = [('baumgarte_erp', 1)] + ([('elasticity', 1 if kind == 'scalar' else ng)] if kind != 'none' else []) + [('constraint_stiffness', 2)]
      tuples = [('constraint_ang_damping', 1, [1])] + ([('elasticity', 5, list(sub))] if sub else [])
      noff = 1
      toff = 1
      # the base array of a tuple override is a float array when no numeric of that name exists: then the tuple parameters are concrete distinct markers
      # (the code only moves them), symbolic otherwise
      sym = not (kind == 'none' and sub)

      def call():
        return mjcf._get_custom(_custom_mj(ng, 3, numerics, tuples))['elasticity']
      try:
        paths = px.explore(call, catch=(Exception,))
      except (px.PathBudget, px.ProxyLimit) as ex:
        return Result(UNDECIDED, 'path exploration: %s' % ex)
      npaths += len(paths)
      nsz = 1 if kind == 'scalar' else ng
      num = [z3.Real('num_%d' % (noff + i)) for i in range(nsz)] if kind != 'none' else []
      prm = ([z3.Real('prm_%d' % (toff + k)) for k in range(len(sub))] if sym else [z3.RealVal(str(Fraction(2000.25 + toff + k))) for k in range(len(sub))]) if sub else []
      want = _expected_elasticity(ng, kind, sub, num, prm)
      for p in paths:
        # the only admissible exception is the range check on the (unrelated, unconstrained) scale fields -- not reachable here because they keep their defaults
        if p.outcome != 'return':
          return Result(REFUTED, '_get_custom raises %r for ngeom=%d numeric=%s tuple=%s' % (p.exc, ng, kind, sub), witness={'ngeom': ng, 'numeric': kind, 'tuple': list(sub or ())},
                        replay=_native_custom(ng, kind, sub))
        val = np.asarray(p.value, dtype=object)
        if val.shape != (ng,):
          return Result(REFUTED, 'elasticity has shape %s, expected (%d,) [ngeom=%d numeric=%s tuple geoms=%s]' % (val.shape, ng, ng, kind, sub),
                        witness={'ngeom': ng, 'numeric': kind, 'tuple': list(sub or ())}, replay=_native_custom(ng, kind, sub))
        for g in range(ng):
          nchecks += 1
          got = px.E(val[g])
          w = want[g] if isinstance(want[g], z3.ExprRef) else z3.RealVal(str(Fraction(float(want[g]))))
          if z3.is_int(got):
            got = z3.ToReal(got)
          v, m = px.valid(p.pc, got == w)
          if v == 'refuted':
            return Result(REFUTED, 'elasticity[%d] = %s, expected %s [ngeom=%d numeric=%s tuple geoms=%s]' % (g, got, w, ng, kind, sub),
                          witness={'ngeom': ng, 'numeric': kind, 'tuple': list(sub or ()), 'model': str(m)[:400]}, replay=_native_custom(ng, kind, sub), solver_output=str(m)[:1000])
          if v != 'proved':
            return Result(UNDECIDED, 'z3 unknown on elasticity[%d]' % g)
    if nchecks == 0:
      return Result(ERROR, 'no output component checked (vacuous)')
    return Result(PROVED, '%d custom-block layouts (ngeom <= %d; numeric none/scalar/per-geom x tuple subsets incl. repeated and reversed ids), %d paths of the real _get_custom, %d component checks'
                  % (len(cfgs), max(c[0] for c in cfgs), npaths, nchecks), stats={'layouts': len(cfgs), 'paths': npaths, 'queries': nchecks})
  return Obligation('C10/mjcf._get_custom/elasticity', 'brax.io.mjcf:_get_custom', 'the per-geom elasticity table has exactly ngeom entries; entry g is the <tuple name="elasticity"> parameter of geom g '
                    'when a tuple names it (last entry wins), else the g-th value of a per-geom <numeric>, else the scalar <numeric>, else the default 0 -- for ALL numeric values, '
                    'with unrelated custom entries around it', run, backend='path', budget=300)


def _custom_xml(ng, kind, sub, num, prm):
  geoms = ''.join('<body name="b%d" pos="%d 0 1"><freejoint/><geom name="g%d" type="sphere" size="0.1"/></body>' % (g, g, g) for g in range(ng))
  cust = '<numeric name="baumgarte_erp" data="0.2"/>'
  if kind != 'none':
    cust += '<numeric name="elasticity" data="%s"/>' % ' '.join('%r' % v for v in num)
  if sub:
    cust += '<tuple name="elasticity">%s</tuple>' % ''.join('<element objtype="geom" objname="g%d" prm="%r"/>' % (g, prm[k]) for k, g in enumerate(sub))
  return '<mujoco><custom>%s</custom><worldbody>%s</worldbody></mujoco>' % (cust, geoms)


def _native_custom(ng, kind, sub):
  """the same layout as a real MJCF document through mjcf.loads (MuJoCo compiler + load_model): sys.elasticity vs the expected per-geom values"""
  from brax.io import mjcf
  num = [0.125 * (i + 1) for i in range(1 if kind == 'scalar' else ng)] if kind != 'none' else []
  prm = [0.5 + 0.0625 * (k + 1) for k in range(len(sub or ()))]
  xml = _custom_xml(ng, kind, sub, num, prm)
  want = _expected_elasticity(ng, kind, sub, num, prm)
  try:
    got = np.asarray(mjcf.loads(xml).elasticity, dtype=float).reshape(-1)
  except Exception as ex:      # noqa: BLE001
    return {'reproduced': True, 'xml': xml, 'raised': repr(ex)[:300]}
  bad = got.shape != (ng,) or bool(np.any(np.abs(got - np.asarray(want, dtype=float)) > 1e-6))
  return {'reproduced': bad, 'xml': xml, 'sys.elasticity': got.tolist(), 'expected': [float(w) for w in want]}


def bounded_custom(tier):
  def run():
    n = 0
    for (ng, kind, sub) in _custom_configs('quick' if tier == 'quick' else 'thorough'):
      if tier == 'quick' and ng == 3 and kind == 'scalar':
        continue
      r = _native_custom(ng, kind, sub)
      n += 1
      if r['reproduced']:
        return Result(REFUTED, 'mjcf.loads: sys.elasticity %s, expected %s (ngeom=%d numeric=%s tuple geoms=%s)' % (r.get('sys.elasticity', r.get('raised')), r.get('expected'), ng, kind, sub),
                      witness={'xml': r['xml']}, replay=r)
    return Result(PROVED, 'bounded: %d MJCF documents through the MuJoCo compiler and load_model: sys.elasticity = configured per-geom values' % n, stats={'evaluations': n, 'distinct_nontrivial': n})
  return Obligation('C10/bounded/custom_elasticity_loads', 'brax.io.mjcf:loads (load_model, _get_custom)', 'BOUNDED: real MJCF documents with scalar / per-geom <numeric name="elasticity"> and '
                    '<tuple name="elasticity"> overrides: the loaded sys.elasticity lists the configured value of every geom (ties the proxy fields of the proved clause to the MuJoCo compiler output)',
                    run, backend='bounded', kind='bounded', budget=600)


# ---------------------------------------------------------------------------------------------------------------------------------
# the collision routine itself (mujoco.mjx.collision, external): its contract "true primitive distances for the world geom poses it is given" is VERIFIED here for the
# pair types whose distance is a closed form without guard constants (plane-sphere, sphere-sphere, plane-capsule): the jaxpr of the real mjx.collision is
# interpreted with SYMBOLIC world geom positions and orientation matrices

MJX_SCENES = {
    'plane-sphere': '<geom name="floor" type="plane" size="5 5 0.1" pos="0.1 0.2 0.05" quat="0.9689124 0.2474040 0 0"/><body name="a" pos="0 0 1"><freejoint/><geom type="sphere" size="0.1" pos="0.1 0.05 -0.02"/></body>',
    'sphere-sphere': '<body name="a" pos="0 0 1"><freejoint/><geom type="sphere" size="0.1" pos="0.1 0.05 -0.02"/></body><body name="b" pos="0.5 0 1"><freejoint/><geom type="sphere" size="0.15" pos="-0.03 0.02 0.01"/></body>',
    'plane-capsule': '<geom name="floor" type="plane" size="5 5 0.1" pos="0.1 0.2 0.05" quat="0.9689124 0.2474040 0 0"/><body name="a" pos="0 0 1"><freejoint/><geom type="capsule" size="0.05 0.2" pos="0.1 0.05 -0.02" quat="0.5 0.5 -0.5 0.5"/></body>',
}


def mjx_primitive(kind, part='dist'):
  def body(A):
    import z3
    from mujoco import mjx
    sys = physsys.load('<mujoco><worldbody>%s</worldbody></mujoco>' % MJX_SCENES[kind])
    ng = sys.ngeom
    gp, gm = A.arr('gpos', (ng, 3)), A.arr('gmat', (ng, 3, 3))
    d0 = mjx.make_data(sys)
    # only the outputs a clause mentions are traced (dead-code elimination keeps the square roots of the frame construction out of the distance clauses)
    fields = {'dist': {'plane-sphere': ('dist', 'pos'), 'sphere-sphere': ('dist',), 'plane-capsule': ('dist',)}[kind], 'normal': ('frame',)}[part]
    # (for the normal clauses only row 0 of the contact frame is traced: the tangent rows come from another normalisation that no clause mentions)
    pick = lambda c, f_: getattr(c, f_)[:, 0:1] if f_ == 'frame' else getattr(c, f_)
    out = sym_call(Interp(A), lambda p, m_: (lambda c: dict({f_: pick(c, f_) for f_ in fields}, g1=c.geom1, g2=c.geom2))(mjx.collision(sys, d0.replace(geom_xpos=p, geom_xmat=m_)).contact), Sym(gp), Sym(gm))
    g1, g2 = [int(v) for v in np.asarray(out['g1'])], [int(v) for v in np.asarray(out['g2'])]
    size = np.asarray(sys.geom_size, dtype=float)
    R = lambda v: z3.RealVal(str(Fraction(float(v))))
    dot = lambda u, v: sum(x * y for x, y in zip(u, v))
    col = lambda g, k: [gm[g][i][k] for i in range(3)]
    pre, goal = [], []
    ncon = len(g1)
    if kind == 'plane-sphere':
      assert ncon == 1
      pl, sp = g1[0], g2[0]
      n = col(pl, 2)
      pre.append(dot(n, n) == 1)
      want = dot([gp[sp][i] - gp[pl][i] for i in range(3)], n) - R(size[sp][0])
      if part == 'normal':
        # lemma (proved on its own first): a unit vector has a component beyond the 1e-8 tolerance of mjx's safe norm
        t8 = z3.RealVal(str(Fraction(1e-8)))
        nt = z3.Or(*[z3.Or(e > t8, e < -t8) for e in n])
        ls = z3.Solver()
        ls.set('timeout', 30000)
        ls.add(dot(n, n) == 1, z3.Not(nt))
        if ls.check() != z3.unsat:
          raise RuntimeError('lemma unit => not tiny not proved')
        pre.append(nt)
        goal += [out['frame'][0][0][i] == n[i] for i in range(3)]
      else:
        goal += [out['dist'][0] == want]
        # the reported contact position lies on the normal through the sphere centre, half-way between the two surfaces
        goal += [out['pos'][0][i] == gp[sp][i] - n[i] * (R(size[sp][0]) + want / 2) for i in range(3)]
    elif kind == 'sphere-sphere':
      assert ncon == 1
      a_, b_ = g1[0], g2[0]
      dvec = [gp[b_][i] - gp[a_][i] for i in range(3)]
      s = out['dist'][0] + R(size[a_][0]) + R(size[b_][0])          # the centre distance according to the reported dist: it must be THE non-negative root of |c2 - c1|^2
      # (mjx's norm returns 0 when every component of c2 - c1 is within 1e-8: inside that cube the closed form is matched to 1.8e-8 only)
      t8 = z3.RealVal(str(Fraction(1e-8)))
      tiny = z3.And(*[z3.And(e <= t8, e >= -t8) for e in dvec])
      goal += [z3.Implies(z3.Not(tiny), z3.And(s >= 0, s * s == dot(dvec, dvec))), z3.Implies(tiny, s == 0)]
      if False:          # the normal clause needs |d/s| = 1 through a second square root: nlsat does not get there (covered by the bounded stand-in)
        goal.append(z3.Implies(z3.Not(tiny), z3.And(*[out['frame'][0][0][i] * s == dvec[i] for i in range(3)])))
    else:
      assert ncon == 2
      pl, cp = g1[0], g2[0]
      n, ax = col(pl, 2), col(cp, 2)
      pre.append(dot(n, n) == 1)
      r, h = R(size[cp][0]), R(size[cp][1])
      ends = [[gp[cp][i] + sgn * h * ax[i] for i in range(3)] for sgn in (1, -1)]
      wd = [dot([e[i] - gp[pl][i] for i in range(3)], n) - r for e in ends]
      if part == 'normal':
        for k in range(2):
          goal += [out['frame'][k][0][i] == n[i] for i in range(3)]
      else:
        goal.append(z3.Or(z3.And(out['dist'][0] == wd[0], out['dist'][1] == wd[1]), z3.And(out['dist'][0] == wd[1], out['dist'][1] == wd[0])))
    return pre, goal, (lambda w: {'reproduced': False, 'note': 'see C10/bounded/primitive_pairs for the native closed-form comparison'})
  return smt_custom('C10/mjx.collision/%s[%s]' % (kind, part), 'mujoco.mjx:collision (external; the contract assumed at the contact.get cut)',
                    {'plane-sphere': 'for ALL world geom positions and plane orientations (unit normal): dist = n.(c - p) - r, contact normal = plane normal (from the plane to the sphere), contact point on that normal half-way between the surfaces',
                     'sphere-sphere': 'for ALL centre positions: dist = |c2 - c1| - r1 - r2 (centres closer than 1e-8 in every coordinate: dist = -r1 - r2, i.e. the closed form to within 1.8e-8)',
                     'plane-capsule': 'for ALL positions and orientations: the two candidate contacts are the two end spheres: dist = n.(c +- h a - p) - r (a = capsule axis), normal = plane normal'}[kind],
                    body, timeout=150, budget=900, split_first=True)


def obligations(tier):
  obs = [geom_pose(), link_elasticity(), custom_elasticity(tier), mjx_primitive('plane-sphere'), mjx_primitive('plane-sphere', 'normal'), mjx_primitive('sphere-sphere'), mjx_primitive('plane-capsule'), mjx_primitive('plane-capsule', 'normal'), bounded(tier), bounded_custom(tier)]

  def canary():
    from verif.engine.opaque import cut
    from brax import contact
    from brax.base import Transform
    A = RingAlg()
    sys = physsys.load(SCENE)
    n, ng = sys.num_links(), sys.ngeom
    xp, xr = A.arr('xp', (n, 3)), A.arr('xr', (n, 4))
    for i in range(n):
      A.unit(list(xr[i]))
    seen = {}

    def h(I, P, ins):
      names = list(P['argnames'])
      seen['ins'] = [x for nm, x in zip(names, ins) if is_sym(x) and nm != names[0]]
      return I.fresh_outputs(P)
    with cut('mujoco.mjx:collision'):
      sym_call(Interp(A, cuts={'mujoco.mjx:collision': h}), lambda x: contact.get(sys, x).dist, Transform(pos=Sym(xp), rot=Sym(xr)))
    pos = [x for x in seen['ins'] if x.shape == (ng, 3)][0]
    # wrong claim: geom world position = link position (offset ignored)
    l = int(np.asarray(sys.geom_bodyid)[1]) - 1
    return ring_equal(A, pos[1], xp[l], name='canary')
  obs.append(Obligation('C10/canary/offset_ignored', 'brax.contact:get', 'CANARY: geom world position = link position (must be refuted)', canary, kind='canary', backend='ring'))
  return obs
