"""Symbolic `System`s for the physics contracts.

A concrete System is loaded from a tiny MJCF document (so every static field -- link_types, link_parents, option flags -- is
what load_model produces), then the leaves a contract quantifies over are replaced by symbolic arrays.  Structural facts
that load_model guarantees (call-site preconditions) are kept concrete:
    free link : link.transform = identity, link.joint.pos = 0, dof.motion = unit twists (eye)
    hinge dof : motion.vel = 0, motion.ang = unit axis          slide dof : motion.ang = 0, motion.vel = unit axis
    link.joint.rot = identity (always)
"""
from __future__ import annotations
from fractions import Fraction
import numpy as np
import jax
import jax.numpy as jp

from verif.engine.oblig import Sym

GEOM = '<geom size="0.1" mass="1"/>'


def joints_xml(word, anchor='0.1 -0.2 0.05', axes=None, extra=''):
  axes = axes or ['0.6 0.8 0', '0 0.6 0.8', '0.8 0 0.6']
  out = []
  for k, c in enumerate(word):
    out.append('<joint name="j%d" type="%s" axis="%s" pos="%s" %s/>' % (k, {'h': 'hinge', 's': 'slide'}[c], axes[k], anchor, extra))
  return ''.join(out)


def xml_free_parent(word, anchor='0.1 -0.2 0.05'):
  """two-link system: free root a, child b with joint stack `word` (the induction-step configuration f+X)"""
  return ('<mujoco><worldbody><body name="a" pos="0.1 0.2 0.3"><freejoint/>%s'
          '<body name="b" pos="0.3 0 0.1" quat="0.5 -0.5 0.5 0.5">%s%s</body></body></worldbody></mujoco>' % (GEOM, joints_xml(word, anchor), GEOM))


def xml_world_root(word, anchor='0.1 -0.2 0.05'):
  return ('<mujoco><worldbody><body name="b" pos="0.3 0 0.1" quat="0.5 -0.5 0.5 0.5">%s%s</body></worldbody></mujoco>' % (joints_xml(word, anchor), GEOM))


def xml_free():
  return '<mujoco><worldbody><body name="a" pos="0.1 0.2 0.3"><freejoint/>%s</body></worldbody></mujoco>' % GEOM


def load(xml):
  from brax.io import mjcf
  return mjcf.loads(xml)


class SymSys:
  """symbolic system + the raw symbolic arrays + per-link joint description"""

  def __init__(self, A, sys, origin_anchor=False, prefix='', symbolic=('link.transform', 'link.joint', 'dof.motion')):
    self.A, self.concrete = A, sys
    n = sys.num_links()
    types = sys.link_types
    mk = A.arr
    tp = np.empty((n, 3), dtype=object)
    tr = np.empty((n, 4), dtype=object)
    jp_ = np.empty((n, 3), dtype=object)
    nv = sys.qd_size()
    ang = np.empty((nv, 3), dtype=object)
    vel = np.empty((nv, 3), dtype=object)
    self.unit_sets = []
    d = 0
    kinds = []            # per dof: 'f', 'h', 's'
    c_ang, c_vel = np.asarray(sys.dof.motion.ang), np.asarray(sys.dof.motion.vel)
    for i, t in enumerate(types):
      if t == 'f':
        tp[i], tr[i], jp_[i] = [0, 0, 0], [1, 0, 0, 0], [0, 0, 0]
        for k in range(6):
          ang[d + k] = [int(v) for v in np.eye(6, 3, -3)[k]]
          vel[d + k] = [int(v) for v in np.eye(6, 3)[k]]
          kinds.append('f')
        d += 6
      else:
        tp[i] = list(mk('%stp%d' % (prefix, i), (3,)))
        tr[i] = list(mk('%str%d' % (prefix, i), (4,)))
        self.unit_sets.append(list(tr[i]))
        jp_[i] = [0, 0, 0] if origin_anchor else list(mk('%sjp%d' % (prefix, i), (3,)))
        for k in range(int(t)):
          ax = list(mk('%sax%d' % (prefix, d), (3,)))
          self.unit_sets.append(ax)
          if np.any(c_ang[d] != 0):
            ang[d], vel[d] = ax, [0, 0, 0]
            kinds.append('h')
          else:
            ang[d], vel[d] = [0, 0, 0], ax
            kinds.append('s')
          d += 1
    self.tp, self.tr, self.jp, self.ang, self.vel, self.kinds = tp, tr, jp_, ang, vel, kinds
    link = sys.link.replace(transform=sys.link.transform.replace(pos=Sym(tp), rot=Sym(tr)),
                            joint=sys.link.joint.replace(pos=Sym(jp_)))
    dof = sys.dof.replace(motion=sys.dof.motion.replace(ang=Sym(ang), vel=Sym(vel)))
    self.sys = sys.replace(link=link, dof=dof)
    self.nq, self.nv = sys.q_size(), nv

  def declare_units(self):
    for u in self.unit_sets:
      self.A.unit(u)

  def state(self, prefix=''):
    """symbolic q, qd; unit quaternion relation for free roots"""
    A = self.A
    q = A.arr(prefix + 'q', (self.nq,))
    qd = A.arr(prefix + 'qd', (self.nv,))
    qi = 0
    for t in self.concrete.link_types:
      if t == 'f':
        A.unit(list(q[qi + 3:qi + 7]))
        qi += 7
      else:
        qi += int(t)
    return q, qd

  def half_angle(self, qk):
    """(C, S) generators of the half angle q_k/2 -- the same pair the interpreter creates for cos/sin(q_k/2)"""
    A = self.A
    return A.trig_pair(A.mul(Fraction(1, 2), qk))

  def slide_hints(self, q):
    """cos(q/2) > 0 on slide coordinates (|q| <= 2 < pi): the identity quaternion of a slide is normalize((cos(q/2),0,0,0))"""
    A = self.A
    qi = 0
    d = 0
    for t in self.concrete.link_types:
      if t == 'f':
        qi += 7
        d += 6
        continue
      for k in range(int(t)):
        if self.kinds[d] == 's':
          c, s = self.half_angle(q[qi])
          A.hint(c, 'gt', 0, True, 'slide coordinate in [-2,2]: cos(q/2) > 0')
        qi += 1
        d += 1
