"""C09 laws that need case analysis, contract cuts or real-analysis axioms, and the verified contracts
of the helpers (`normalize`, `safe_norm`) that other properties use as cuts."""
from __future__ import annotations
from fractions import Fraction
import numpy as np
import jax
import jax.numpy as jp

from verif.contracts.common import (law, smt_custom, smt_prove, Obligation, Result, Sym, sym_call, Interp, Z3Alg, RingAlg,
                                    eqs, sum_sq, side_conditions, witness_arrays, flat_scalars, PROVED, REFUTED)
from verif.contracts import cuts
from verif.specs import sx

TINY = Fraction(1e-8)


def _normalize_clause(n, which):
  def body(A):
    import z3
    from brax import math
    x = A.arr('x', (n,))
    I = Interp(A)
    out, norm = sym_call(I, math.normalize, Sym(x))
    out, norm = list(out), norm.item()
    xx = sum_sq(A, x)
    tiny = z3.And(*[z3.And(e <= z3.RealVal(str(TINY)), e >= -z3.RealVal(str(TINY))) for e in x])
    if which == 'unit':
      pre, goal = [xx == 1], [norm == 1] + [o == e for o, e in zip(out, x)]
    elif which == 'nontiny':
      pre, goal = [z3.Not(tiny)], [norm >= 0, norm * norm == xx] + [o * norm == e for o, e in zip(out, x)]
    elif which == 'tiny':
      pre, goal = [tiny], [norm == 0] + [o == e / z3.RealVal(str(Fraction(1e-6))) for o, e in zip(out, x)]
    elif which == 'defined':
      pre, goal = [], side_conditions(A)
    def replay(w):
      xs = witness_arrays(w, {'x': (n,)})['x']
      o, nm = math.normalize(jp.asarray(xs))
      return {'reproduced': False, 'inputs': xs.tolist(), 'observed': [np.asarray(o).tolist(), float(nm)]}
    return pre, goal, replay
  return body


def obligations(tier):
  from brax import math, com
  obs = []
  add = obs.append
  for n in (3, 4):
    for which, text in (('unit', 'x.x = 1  =>  normalize(x) = (x, 1)'),
                        ('nontiny', 'some |x_i| > 1e-8  =>  n*norm = x, norm >= 0, norm^2 = x.x'),
                        ('tiny', 'all |x_i| <= 1e-8  =>  norm = 0, n = x/1e-6'),
                        ('defined', 'every denominator / radicand in normalize is defined for ALL x')):
      add(smt_custom('C09/normalize/contract_%s[n=%d]' % (which, n), 'brax.math:normalize', text, _normalize_clause(n, which),
                     timeout=100, budget=240))

  # ---- safe_norm: the contract used at cuts (cuts.safe_norm_smt) ------------------------------------------
  def _safe_norm_clause(which):
    def body(A):
      import z3
      x = A.arr('x', (3,))
      n = sym_call(Interp(A), math.safe_norm, Sym(x)).item()
      tiny = z3.And(*[z3.And(e <= z3.RealVal(str(TINY)), e >= -z3.RealVal(str(TINY))) for e in x])
      if which == 'tiny':
        return [tiny], [n == 0]
      return [z3.Not(tiny)], [n >= 0, n * n == sum_sq(A, x)]
    return body
  for which, text in (('tiny', 'all |x_i| <= 1e-8  =>  safe_norm(x) = 0'), ('nontiny', 'some |x_i| > 1e-8  =>  n >= 0 and n^2 = x.x')):
    add(smt_custom('C09/safe_norm/contract_%s[n=3]' % which, 'brax.math:safe_norm', text, _safe_norm_clause(which), timeout=100, budget=240))

  # ---- orthogonals: right-handed orthonormal frame completion, by cases on the `where` ----------------
  def orth_law(a):
    b, c = math.orthogonals(a)
    return (jp.dot(a, b), jp.dot(b, b), c, jp.dot(c, c), jp.dot(a, c)), (0.0, 1.0, jp.cross(a, b), 1.0, 0.0)

  # case y: -0.5 < a1 < 0.5 ; case z is split in two (a1 >= 0.5 | a1 <= -0.5) since the code evaluates (p & q)
  def orth_case(case):
    def setup(A, ins):
      a = ins['a']
      half = Fraction(1, 2)
      if case == 'y':
        A.hint(-half, 'lt', a[1], True, 'case -0.5 < a_1 < 0.5')
        A.hint(a[1], 'lt', half, True, 'case -0.5 < a_1 < 0.5')
      elif case == 'z+':
        A.hint(-half, 'lt', a[1], True, 'case a_1 >= 0.5')
        A.hint(a[1], 'lt', half, False, 'case a_1 >= 0.5')
      else:
        A.hint(-half, 'lt', a[1], False, 'case a_1 <= -0.5')
        A.hint(a[1], 'lt', half, True, 'case a_1 <= -0.5')
      A.hint_or([(a[0], 'ne', 0), (a[1], 'ne', 0), (a[2], 'ne', 0)], True,
                'a unit vector has a non-zero component (C09/orthogonals/hint_any)')
    return setup

  samp = {'y': lambda r: _unit_with(r, lambda a: abs(a[1]) < 0.5), 'z+': lambda r: _unit_with(r, lambda a: a[1] >= 0.5),
          'z-': lambda r: _unit_with(r, lambda a: a[1] <= -0.5)}
  for case in ('y', 'z+', 'z-'):
    add(law('C09/orthogonals/frame[%s]' % case, 'brax.math:orthogonals',
            'unit a: (b, c) = orthogonals(a) satisfies a.b = 0, |b| = 1, c = a x b, |c| = 1, a.c = 0 (case %s of the where)' % case,
            orth_law, {'a': (3,)}, units=('a',), backend='ring', ring_setup=orth_case(case),
            cut_targets=('brax.math:normalize',), cuts={'brax.math:normalize': cuts.normalize_ring}, sampler={'a': samp[case]}))

  def orth_side(A):
    import z3
    a = A.arr('a', (3,))
    half = z3.RealVal('1/2')
    tiny = z3.RealVal(str(TINY))
    # b0 = e - a (a.e): case y: e = y ; case z: e = z.  not tiny <=> some |b0_i| > 1e-8
    by = [-a[0] * a[1], 1 - a[1] * a[1], -a[2] * a[1]]
    bz = [-a[0] * a[2], -a[1] * a[2], 1 - a[2] * a[2]]
    nt = lambda b: z3.Or(*[z3.Or(e > tiny, e < -tiny) for e in b])
    pre = [sum_sq(A, a) == 1]
    goal = [z3.Or(a[0] != 0, a[1] != 0, a[2] != 0),
            z3.Implies(z3.And(a[1] > -half, a[1] < half), nt(by)),
            z3.Implies(z3.Not(z3.And(a[1] > -half, a[1] < half)), nt(bz))]
    return pre, goal
  add(smt_custom('C09/orthogonals/hint_any', 'brax.math:orthogonals',
                 'unit a: any(a) is true, and the vector handed to normalize is not tiny in either case (side conditions of the cut)',
                 orth_side))

  # ---- from_to ---------------------------------------------------------------------------------------
  def ft_law(v1, v2):
    q = math.from_to(v1, v2)
    return (math.rotate(v1, q), jp.dot(q, q)), (v2, 1.0)

  def ft_setup(A, ins):
    v1, v2 = ins['v1'], ins['v2']
    w = 1
    for a, b in zip(v1, v2):
      w = A.add(w, A.mul(a, b))
    A.hint(w, 'lt', Fraction(1e-6), False, 'precondition 1 + v1.v2 >= 1e-6 (not antiparallel)')
  add(law('C09/from_to/rotates', 'brax.math:from_to',
          'unit v1, v2 with 1 + v1.v2 >= 1e-6: q = from_to(v1,v2) is unit and rotate(v1, q) = v2 (|rot|^2 = 2w > 0 so the norm is defined)',
          ft_law, {'v1': (3,), 'v2': (3,)}, units=('v1', 'v2'), backend='ring', ring_setup=ft_setup))

  # antiparallel pairs (the `w < 1e-6` fallback): v2 = -v1 along every lattice direction of the property's quantifier ([-3,3]^3): from_to is defined (the fallback
  # axis is not the zero vector), unit, and turns v1 into -v1.  One variable (the normalisation t with t^2 |k|^2 = 1) per direction: exact reals, decided by z3.
  def ft_antiparallel():
    def run():
      import z3, itertools, math as pymath
      dirs = set()
      for k in itertools.product(range(-3, 4), repeat=3):
        if k == (0, 0, 0):
          continue
        g = pymath.gcd(pymath.gcd(abs(k[0]), abs(k[1])), abs(k[2]))
        dirs.add(tuple(c // g for c in k))
      n = 0
      for k in sorted(dirs):
        A = Z3Alg()
        t = A.var('t')
        kk = sum(c * c for c in k)
        v1 = np.array([t * c for c in k], dtype=object)
        v2 = np.array([-(t * c) for c in k], dtype=object)
        q = sym_call(Interp(A), math.from_to, Sym(v1), Sym(v2))
        rv = sym_call(Interp(A), math.rotate, Sym(v1), Sym(np.asarray(q, dtype=object)))
        goal = side_conditions(A) + [sum_sq(A, list(q)) == 1] + [rv[i] == v2[i] for i in range(3)]
        r = smt_prove(A, [t > 0, t * t * kk == 1], goal, timeout_s=30)
        n += 1
        if r.verdict != PROVED:
          if r.verdict == REFUTED:
            u = np.asarray(k, dtype=float) / np.sqrt(kk)
            got = np.asarray(math.rotate(jp.asarray(u), math.from_to(jp.asarray(u), jp.asarray(-u))))
            r.replay = {'reproduced': bool(not np.all(np.isfinite(got)) or np.max(np.abs(got + u)) > 1e-6), 'v1': u.tolist(), 'v2': (-u).tolist(), 'rotate(v1, from_to(v1, v2))': got.tolist()}
          r.detail = 'direction %s: %s' % (k, r.detail)
          r.witness = {'direction': list(k)}
          return r
      return Result(PROVED, 'all %d lattice directions: from_to(v, -v) defined, unit, rotates v to -v' % n, stats={'queries': n})
    return Obligation('C09/from_to/antiparallel[lattice]', 'brax.math:from_to', 'v2 = -v1 (the antiparallel fallback) for v1 along EVERY direction of the integer lattice [-3,3]^3, normalised exactly: '
                      'every denominator is non-zero (the fallback axis is not the zero vector), the result is a unit quaternion and rotate(v1, from_to(v1, v2)) = v2', run, backend='smt', budget=600)
  add(ft_antiparallel())

  # ---- Euler angles -----------------------------------------------------------------------------------
  def euler_args(v):
    # quat_to_euler's atan2 / asin arguments evaluated on euler_to_quat(v): must be (sin, cos) pairs scaled by cos(y)
    q = math.euler_to_quat(v)
    zn = -2 * q[1] * q[2] + 2 * q[0] * q[3]
    zd = q[1] * q[1] + q[0] * q[0] - q[3] * q[3] - q[2] * q[2]
    ys = 2 * q[1] * q[3] + 2 * q[0] * q[2]
    xn = -2 * q[2] * q[3] + 2 * q[0] * q[1]
    xd = q[3] * q[3] - q[2] * q[2] - q[1] * q[1] + q[0] * q[0]
    h = v * jp.pi / 360
    c, s = jp.cos(h), jp.sin(h)
    sin_ = 2 * s * c
    cos_ = c * c - s * s
    return (zn, zd, ys, xn, xd), (sin_[2] * cos_[1], cos_[2] * cos_[1], sin_[1], sin_[0] * cos_[1], cos_[0] * cos_[1])
  add(law('C09/quat_to_euler/args', 'brax.math:quat_to_euler',
          "on q = euler_to_quat(x,y,z): the atan2 arguments are (sin z cos y, cos z cos y) and (sin x cos y, cos x cos y), the asin argument is sin y; "
          'with cos y > 0 on the chart the axioms atan2(k sin t, k cos t) = t and asin(sin t) = t give quat_to_euler(euler_to_quat(v)) = v',
          euler_args, {'v': (3,)}, backend='ring',
          assumes=('axiom: atan2(k sin t, k cos t) = t for k > 0, t in (-pi, pi); asin(sin t) = t for |t| <= pi/2',)))

  def euler_struct(q):
    # quat_to_euler applies exactly atan2 / asin(clip) to those polynomial arguments
    e = math.quat_to_euler(q)
    z = jp.arctan2(-2 * q[1] * q[2] + 2 * q[0] * q[3], q[1] * q[1] + q[0] * q[0] - q[3] * q[3] - q[2] * q[2])
    y = jp.arcsin(jp.clip(2 * q[1] * q[3] + 2 * q[0] * q[2], -1.0, 1.0))
    x = jp.arctan2(-2 * q[2] * q[3] + 2 * q[0] * q[1], q[3] * q[3] - q[2] * q[2] - q[1] * q[1] + q[0] * q[0])
    return e, jp.stack([x, y, z])
  add(law('C09/quat_to_euler/structure', 'brax.math:quat_to_euler', 'quat_to_euler(q) = (atan2(..), asin(clip(..)), atan2(..)) of the stated polynomials (transcendentals uninterpreted)',
          euler_struct, {'q': (4,)}))

  # ---- com.inv_inertia --------------------------------------------------------------------------------
  def inv_inertia_law(xrot, irot, d):
    import types
    inertia = types.SimpleNamespace()
    from brax.base import Inertia, Transform
    link_inertia = Inertia(transform=Transform(pos=jp.zeros((1, 3)), rot=irot[None]), i=jp.diag(d)[None], mass=jp.ones((1,)))
    sys = types.SimpleNamespace(link=types.SimpleNamespace(inertia=link_inertia), spring_inertia_scale=0.0)
    x = Transform(pos=jp.zeros((1, 3)), rot=xrot[None])
    got = com.inv_inertia(sys, x)[0]
    R = math.quat_to_3x3(math.quat_mul(xrot, irot))
    return got @ (R @ jp.diag(d) @ R.T), jp.eye(3)
  add(law('C09/com.inv_inertia/inverse', 'brax.com:inv_inertia',
          'unit link and inertia-frame rotations, non-zero principal moments, spring_inertia_scale = 0: inv_inertia(sys,x) @ (R diag(d) R^T) = I with R = R(x.rot * inertia.rot)',
          inv_inertia_law, {'xrot': (4,), 'irot': (4,), 'd': (3,)}, units=('xrot', 'irot'), backend='ring',
          sampler={'d': lambda r: r.uniform(0.5, 2.0, 3)}))
  return obs


def _unit_with(rng, pred):
  while True:
    v = rng.normal(size=3)
    v /= np.linalg.norm(v)
    if pred(v):
      return v
