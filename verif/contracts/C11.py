"""C11 -- actuators produce the modelled joint force on the actuated joint only.

Spec (MuJoCo joint-transmission actuator, fixed gain, affine bias):
  c_i = clip(ctrl_i, ctrlrange_i);  f_i = clip(gain_i c_i + gear_i (bias_q_i q[q_id_i] + bias_qd_i qd[qd_id_i]), forcerange_i)
  tau[d] = sum_{i : qd_id_i = d} gear_i f_i          (exactly 0 for dofs without actuator)
"""
from __future__ import annotations
import itertools
import types
import numpy as np
import jax
import jax.numpy as jp

from verif.contracts.common import (Stub, smt_custom, Obligation, Result, Sym, sym_call, Interp, Z3Alg, smt_prove, combine,
                                    PROVED, REFUTED, UNDECIDED, ERROR, is_sym, isc, seed, witness_arrays)

LEVEL = 'proof'
EXPECTED_MIN = {'quick': 20, 'thorough': 60}
EXPLANATION = ('to_tau is traced for every actuator-to-dof index map (nu <= 3, nv <= 4) and proved equal to the reference actuator model for ALL '
               'controls, states, gains, gears, biases and ranges (finite ranges symbolic, unlimited = +-inf partially evaluated); monotonicity and '
               'saturation are proved relationally on the same code.  The MjModel -> actuator table mapping of load_model is proved as a premise (real loader on a proxy MjModel); the MuJoCo compiler itself (XML -> MjModel) is outside.')
TRUSTED = ['the reference actuator model transcribed from the MuJoCo documentation (gain*ctrl + bias, bias scaled by gear: mujoco discussion 754)']
ASSUMPTIONS = ['floats treated as exact reals', 'actuator tables enumerated: nu in 0..3, nv in 1..4, every map [nu]->[nv]; q_id = qd_id + offset_i with offset in {0,1}',
               'the MuJoCo compiler (XML to MjModel) is not covered by proof; the MjModel -> actuator table mapping of load_model is (premise C11/premise/load_model/mapping)']


def _sys(nu, nv, qd_id, q_id, A, unlimited=(), prefix=''):
  from brax.base import Actuator
  INF = float('inf')
  cr = A.arr(prefix + 'cr', (nu, 2))
  fr = A.arr(prefix + 'fr', (nu, 2))
  raw = {'cr': cr, 'fr': fr}
  cr2, fr2 = cr.copy(), fr.copy()
  for kind, i in unlimited:
    tgt = cr2 if kind == 'c' else fr2
    tgt[i, 0], tgt[i, 1] = -INF, INF
  for nm in ('gain', 'gear', 'bias_q', 'bias_qd'):
    raw[nm] = A.arr(prefix + nm, (nu,))
  act = Actuator(q_id=np.array(q_id, dtype=np.int32), qd_id=np.array(qd_id, dtype=np.int32), ctrl_range=Sym(cr2), force_range=Sym(fr2),
                 gain=Sym(raw['gain']), gear=Sym(raw['gear']), bias_q=Sym(raw['bias_q']), bias_qd=Sym(raw['bias_qd']))
  sys = Stub(static={'act_size': _const(nu), 'qd_size': _const(nv)}, actuator=act)
  raw['cr2'], raw['fr2'] = cr2, fr2
  return sys, raw


class _const:
  def __init__(self, v): self.v = v
  def __call__(self): return self.v
  def __eq__(self, o): return isinstance(o, _const) and o.v == self.v
  def __hash__(self): return hash(self.v)
  def __lt__(self, o): return self.v < o.v


def _spec(A, nu, nv, qd_id, q_id, raw, ctrl, q, qd):
  tau = [0] * nv
  for i in range(nu):
    c = A.min(A.max(ctrl[i], raw['cr2'][i, 0]), raw['cr2'][i, 1])
    bias = A.mul(raw['gear'][i], A.add(A.mul(q[q_id[i]], raw['bias_q'][i]), A.mul(qd[qd_id[i]], raw['bias_qd'][i])))
    f = A.add(A.mul(raw['gain'][i], c), bias)
    f = A.min(A.max(f, raw['fr2'][i, 0]), raw['fr2'][i, 1])
    tau[qd_id[i]] = A.add(tau[qd_id[i]], A.mul(f, raw['gear'][i]))
  return tau


def formula(nu, nv, qd_id, off, unlimited, tiers):
  q_id = [d + o for d, o in zip(qd_id, off)]
  tag = 'nu=%d,nv=%d,qd_id=%s,q_id=%s,unl=%s' % (nu, nv, ''.join(map(str, qd_id)), ''.join(map(str, q_id)), ''.join('%s%d' % u for u in unlimited) or '-')

  def run():
    from brax import actuator
    last = None
    for abstract in (True, False):
      A = Z3Alg(abstract_minmax=abstract)
      sys, raw = _sys(nu, nv, qd_id, q_id, A, unlimited)
      ctrl, q, qd = A.arr('ctrl', (nu,)), A.arr('q', (nv + 1,)), A.arr('qd', (nv,))
      tau = sym_call(Interp(A), actuator.to_tau, sys, Sym(ctrl), Sym(q), Sym(qd))
      want = _spec(A, nu, nv, qd_id, q_id, raw, ctrl, q, qd)
      pre = []
      for i in range(nu):
        for rng_ in ('cr2', 'fr2'):
          lo, hi = raw[rng_][i, 0], raw[rng_][i, 1]
          if not isc(lo):
            pre.append(lo <= hi)
      goal = []
      for d in range(nv):
        g, w = tau[d], want[d]
        if isc(g) and isc(w):
          goal.append(bool(g == w))
        else:
          goal.append(A.cmp('eq', g, w))
      r = smt_prove(A, pre, goal, timeout_s=20 if abstract else 60, seed=seed(), use_cvc5=not abstract)
      r.stats['ladder'] = 'abstract min/max (commutative UF)' if abstract else 'exact ite semantics'
      if r.verdict == PROVED:
        return r
      last = r
      if abstract:
        continue          # an abstract `sat` is never a refutation
    if last.verdict == REFUTED:
      last.replay = _native(nu, nv, qd_id, q_id, unlimited, last.witness)
    return last
  return Obligation('C11/to_tau/formula[%s]' % tag, 'brax.actuator:to_tau',
                    'tau = reference actuator model: clip ctrl, gain + gear*bias(q[q_id], qd[qd_id]), clip force, scale by gear, forces on one dof add, '
                    'dofs without actuator get exactly 0; all real parameters', run, backend='smt', tiers=tiers, budget=200)


def _native(nu, nv, qd_id, q_id, unlimited, wit):
  from brax import actuator
  from brax.base import Actuator
  rng = np.random.RandomState(2)
  cands = []
  if wit:
    try:
      w = {k: wit.get(k) for k in wit}
      sh = {'cr': (nu, 2), 'fr': (nu, 2), 'gain': (nu,), 'gear': (nu,), 'bias_q': (nu,), 'bias_qd': (nu,), 'ctrl': (nu,), 'q': (nv + 1,), 'qd': (nv,)}
      cands.append(witness_arrays(w, sh))
    except Exception:      # noqa: BLE001
      pass
  for _ in range(200):
    lo = rng.uniform(-2, 0, (nu, 2))
    cands.append({'cr': np.stack([rng.uniform(-2, 0, nu), rng.uniform(0, 2, nu)], 1), 'fr': np.stack([rng.uniform(-3, 0, nu), rng.uniform(0, 3, nu)], 1),
                  'gain': rng.uniform(-2, 2, nu), 'gear': rng.uniform(-2, 2, nu), 'bias_q': rng.uniform(-2, 2, nu), 'bias_qd': rng.uniform(-2, 2, nu),
                  'ctrl': rng.uniform(-3, 3, nu), 'q': rng.uniform(-2, 2, nv + 1), 'qd': rng.uniform(-2, 2, nv)})
  for c in cands:
    cr, fr = c['cr'].copy(), c['fr'].copy()
    for kind, i in unlimited:
      (cr if kind == 'c' else fr)[i] = [-np.inf, np.inf]
    act = Actuator(q_id=jp.array(q_id, dtype=jp.int32), qd_id=jp.array(qd_id, dtype=jp.int32), ctrl_range=jp.asarray(cr), force_range=jp.asarray(fr),
                   gain=jp.asarray(c['gain']), gear=jp.asarray(c['gear']), bias_q=jp.asarray(c['bias_q']), bias_qd=jp.asarray(c['bias_qd']))
    sys = types.SimpleNamespace(actuator=act, act_size=lambda: nu, qd_size=lambda: nv)
    got = np.asarray(actuator.to_tau(sys, jp.asarray(c['ctrl']), jp.asarray(c['q']), jp.asarray(c['qd'])))
    want = np.zeros(nv)
    for i in range(nu):
      cc = np.clip(c['ctrl'][i], cr[i, 0], cr[i, 1])
      f = c['gain'][i] * cc + c['gear'][i] * (c['bias_q'][i] * c['q'][q_id[i]] + c['bias_qd'][i] * c['qd'][qd_id[i]])
      f = np.clip(f, fr[i, 0], fr[i, 1])
      want[qd_id[i]] += c['gear'][i] * f
    if not np.allclose(got, want, atol=1e-9):
      return {'reproduced': True, 'inputs': {k: np.asarray(v).tolist() for k, v in c.items()}, 'observed': got.tolist(), 'expected': want.tolist()}
  return {'reproduced': False}


def relational(kind):
  """monotone: ctrl_i <= ctrl'_i, gain_i, gear_i >= 0  =>  tau <= tau' ; saturates: both controls beyond the same range end => tau = tau'"""
  def body(A):
    import z3
    from brax import actuator
    nu, nv, qd_id, q_id = 2, 2, [1, 1], [2, 2]
    sys, raw = _sys(nu, nv, qd_id, q_id, A)
    c1, c2 = A.arr('c1', (nu,)), A.arr('c2', (nu,))
    q, qd = A.arr('q', (nv + 1,)), A.arr('qd', (nv,))
    t1 = sym_call(Interp(A), actuator.to_tau, sys, Sym(c1), Sym(q), Sym(qd))
    t2 = sym_call(Interp(A), actuator.to_tau, sys, Sym(c2), Sym(q), Sym(qd))
    pre = [raw['cr'][i, 0] <= raw['cr'][i, 1] for i in range(nu)] + [raw['fr'][i, 0] <= raw['fr'][i, 1] for i in range(nu)]
    pre += [c1[1] == c2[1]]
    if kind == 'monotone':
      pre += [c1[0] <= c2[0], raw['gain'][0] >= 0, raw['gear'][0] >= 0]
      goal = [t1[1] <= t2[1], t1[0] == 0, t2[0] == 0]
    else:
      hi, lo = raw['cr'][0, 1], raw['cr'][0, 0]
      pre += [z3.Or(z3.And(c1[0] >= hi, c2[0] >= hi), z3.And(c1[0] <= lo, c2[0] <= lo))]
      goal = [t1[d] == t2[d] for d in range(nv)]
    return pre, goal
  text = {'monotone': 'gain, gear >= 0 and ctrl_i <= ctrl_i\' (others equal) => tau <= tau\' on the actuated dof, 0 elsewhere',
          'saturates': 'two controls beyond the same end of the control range give the same tau (constant outside the range)'}[kind]
  return smt_custom('C11/to_tau/%s' % kind, 'brax.actuator:to_tau', text, body)


def nu0():
  def run():
    from brax import actuator
    sys = types.SimpleNamespace(actuator=None, act_size=lambda: 0, qd_size=lambda: 3)
    t = actuator.to_tau(sys, jp.zeros((0,)), jp.zeros((4,)), jp.zeros((3,)))
    ok = t.shape == (3,) and bool(jp.all(t == 0))
    return Result(PROVED if ok else REFUTED, 'nu = 0: tau = zeros(nv) (concrete evaluation)', replay={'reproduced': not ok})
  return Obligation('C11/to_tau/nu0', 'brax.actuator:to_tau', 'no actuators: every dof gets exactly 0', run, backend='eval', budget=60)


def obligations(tier):
  Q, Th = ('quick', 'thorough'), ('thorough',)
  obs = [nu0()]
  # "actuator table from MJCF": the loader half of the property -- load_model builds q_id / qd_id from the transmission joint's qpos / dof address, gain, gear, bias (masked by
  # biastype) and ranges (infinite when unlimited) from the source model, for all field values (C14's load_model contract, carried here as a premise)
  from verif.contracts import C14c
  for ob in C14c.obligations(tier):
    ob.id = ob.id.replace('C14/', 'C11/premise/')
    obs.append(ob)
  seen = set()
  for nu, nv in [(1, 1), (1, 2), (2, 2), (2, 3), (3, 3), (3, 4)]:
    for qd_id in itertools.product(range(nv), repeat=nu):
      offs = [tuple([0] * nu), tuple([1] * nu)] if nu < 3 else [tuple([1] * nu)]
      for off in offs:
        for unl in ((), tuple(('c', i) for i in range(nu)), tuple(('f', i) for i in range(nu))):
          quick = (nu <= 2 and nv <= 2 and (unl == () or off == tuple([1] * nu))) or (nu == 3 and nv == 3 and qd_id in ((0, 0, 0), (0, 1, 1), (2, 0, 2)) and unl == ())
          thorough = nu <= 2 or unl == () or len(set(qd_id)) < nu
          if not (quick or thorough):
            continue
          obs.append(formula(nu, nv, list(qd_id), list(off), unl, Q if quick else Th))
  obs.append(formula(2, 2, [0, 0], [1, 0], (('c', 0), ('f', 1)), Q))
  obs += [relational('monotone'), relational('saturates')]

  def canary(A):
    from brax import actuator
    nu, nv, qd_id, q_id = 1, 1, [0], [1]
    sys, raw = _sys(nu, nv, qd_id, q_id, A)
    ctrl, q, qd = A.arr('ctrl', (nu,)), A.arr('q', (nv + 1,)), A.arr('qd', (nv,))
    tau = sym_call(Interp(A), actuator.to_tau, sys, Sym(ctrl), Sym(q), Sym(qd))
    raw2 = dict(raw)
    # bias without the gear factor
    c = A.min(A.max(ctrl[0], raw['cr'][0, 0]), raw['cr'][0, 1])
    f = raw['gain'][0] * c + (q[1] * raw['bias_q'][0] + qd[0] * raw['bias_qd'][0])
    f = A.min(A.max(f, raw['fr'][0, 0]), raw['fr'][0, 1])
    return [raw['cr'][0, 0] <= raw['cr'][0, 1], raw['fr'][0, 0] <= raw['fr'][0, 1]], [tau[0] == f * raw['gear'][0]]
  obs.append(smt_custom('C11/canary/bias_without_gear', 'brax.actuator:to_tau', 'CANARY: bias term not scaled by gear (must be refuted)', canary, kind='canary'))
  return obs
