"""C13 -- fusing jointless bodies on load preserves the model's geometry.

The REAL functions brax.io.mjcf._offset / _fuse_bodies are executed on ElementTree documents whose pose attributes are SYMBOLIC
(Engine P proxies).  Two mechanical AST rewrites (applied on every run; afterwards no other text<->number conversion may remain in the three functions -- anything else fails closed) replace the
text<->number conversions so that attributes can hold symbolic arrays:
      np.fromstring(X, sep=' ')                 ->  _FS(X)          (parse if X is a string, else pass the array through)
      ' '.join('%f' % i for i in X)             ->  _JN(X)          (keep the array)
      ' '.join(S.split(' ')[a:b])               ->  _SL(S, a, b)    (slice the array)
Dropped by the rewrite: decimal rounding to 6 places and string parsing (covered by the bounded check through MuJoCo)."""
from __future__ import annotations
import ast
import copy
import itertools
import os
from xml.etree import ElementTree
import numpy as np

from verif.contracts.common import Obligation, Result, PROVED, REFUTED, UNDECIDED, ERROR, seed
from verif.engine import pathexec as px

LEVEL = 'other'
EXPECTED_MIN = {'quick': 10, 'thorough': 10}
EXPLANATION = ('PROVED: _transform_do is SE(3) composition (real numpy function on symbolic arrays, z3); on the AST-rewritten _offset/_fuse_bodies, for every enumerated tree '
               'shape (jointless bodies under the world / under jointed bodies / nested, each with pos only, quat only, both or neither; children: geom by pos/quat, geom by fromto, '
               'site, jointed body) and ALL pose values, every surviving element has the same world pose (fromto: the same end points) in the fused tree as in the original -- all '
               'paths of the real code explored, z3 on each.  BOUNDED (not proof): MuJoCo kinematics and inertia matrix of original vs mjcf.fuse_bodies(xml) on generated documents.')
TRUSTED = ['xml.etree.ElementTree', 'the four local AST rules that let attribute values be symbolic (np.fromstring, str.join, one-spec % formatting, float(); applied to the whole module, nothing asserted about the code shape)', 'world pose = composition of ancestor poses (MJCF semantics)']
ASSUMPTIONS = ['6-decimal text rounding and string parsing are dropped by the rewrite (bounded check runs the unmodified function)',
               'mass / inertia preservation is decided only by the bounded stand-in (computed by the MuJoCo compiler)', 'tree shapes: <= 3 levels of jointless bodies, <= 5 elements']
BOUNDED_RULE = 'generator documents with 1-3 jointless bodies inserted at random places; non-trivial = distinct documents'


class TArr(np.ndarray):
  """a symbolic attribute value: truthy like the non-empty string it stands for; `split` gives its components like the string's"""
  def __bool__(self):
    return True

  def split(self, sep=None, maxsplit=-1):
    return list(np.asarray(self, dtype=object).reshape(-1))


# ---- mechanical extraction ----------------------------------------------------------------------------------------------------------
# Attribute values are symbolic, so the text <-> number conversions of the module cannot run as they are.  The WHOLE module source (every function, also helpers a
# refactoring may add) is transformed by four local, pattern-free rules and executed in a namespace of its own:
#     np.fromstring(X, ...)      ->  _FS(X)        numbers of a string, or the components of a symbolic attribute
#     '<sep>'.join(X)            ->  _JN(sep, X)   a string if every item is one, else a symbolic attribute
#     '%f' % E  (one float spec) ->  _FMT(E)       the value itself (dropped: rounding to 6 decimals)
#     float(X)                   ->  _FLOAT(X)
# Nothing is counted or asserted about the shape of the code; a conversion that reaches a proxy some other way raises ProxyLimit (undecided).
def _FS(x, *a, **k):
  if isinstance(x, str):
    return np.array([float(t) for t in x.split()], dtype=object)
  return np.asarray(x, dtype=object).reshape(-1)


def _JN(sep, x):
  items = list(x)
  if all(isinstance(i, str) for i in items):
    return sep.join(items)
  out = []
  for i in items:
    if isinstance(i, str):
      out += [float(t) for t in i.split()]
    elif isinstance(i, np.ndarray):
      out += list(np.asarray(i, dtype=object).reshape(-1))
    else:
      out.append(i)
  return np.asarray(out, dtype=object).view(TArr)


def _FMT(x):
  return x


def _FLOAT(x):
  return float(x) if isinstance(x, (str, int, float, np.floating, np.integer)) else x


class _Rewrite(ast.NodeTransformer):
  def __init__(self):
    self.n = {'fromstring': 0, 'join': 0, 'fmt': 0, 'float': 0}

  def visit_Call(self, node):
    self.generic_visit(node)
    f = node.func
    if isinstance(f, ast.Attribute) and f.attr == 'fromstring' and ast.unparse(f.value) in ('np', 'numpy', 'onp'):
      self.n['fromstring'] += 1
      return ast.Call(func=ast.Name('_FS', ast.Load()), args=node.args, keywords=node.keywords)
    if isinstance(f, ast.Attribute) and f.attr == 'join' and isinstance(f.value, ast.Constant) and isinstance(f.value.value, str) and len(node.args) == 1:
      self.n['join'] += 1
      return ast.Call(func=ast.Name('_JN', ast.Load()), args=[f.value, node.args[0]], keywords=[])
    if isinstance(f, ast.Name) and f.id == 'float' and len(node.args) == 1:
      self.n['float'] += 1
      return ast.Call(func=ast.Name('_FLOAT', ast.Load()), args=node.args, keywords=[])
    return node

  def visit_BinOp(self, node):
    self.generic_visit(node)
    import re
    if isinstance(node.op, ast.Mod) and isinstance(node.left, ast.Constant) and isinstance(node.left.value, str) and re.fullmatch(r'%(\.\d+)?[fge]', node.left.value):
      self.n['fmt'] += 1
      return ast.Call(func=ast.Name('_FMT', ast.Load()), args=[node.right], keywords=[])
    return node


def tarr(a):
  return np.asarray(a, dtype=object).view(TArr)


_EXTRACTED = {}


def extracted():
  """the real brax/io/mjcf.py, transformed by the four rules above and executed as a module of its own; returns its namespace"""
  import brax
  path = os.path.join(os.path.dirname(brax.__file__), 'io', 'mjcf.py')
  src = open(path).read()
  if _EXTRACTED.get('src') == src:
    return _EXTRACTED['ns']
  tree = ast.parse(src)
  rw = _Rewrite()
  mod = ast.fix_missing_locations(rw.visit(tree))
  ns = {'__name__': 'brax.io.mjcf', '__file__': path, '_FS': _FS, '_JN': _JN, '_FMT': _FMT, '_FLOAT': _FLOAT}
  exec(compile(mod, path + ' [rewritten]', 'exec'), ns)
  for need in ('_fuse_bodies',):
    if need not in ns:
      raise AssertionError('mjcf.py: %s not found' % need)
  ns['_rewrite_counts'] = dict(rw.n)
  _EXTRACTED.update(src=src, ns=ns)
  return ns


# ---- spec: world pose by composition of ancestor poses (on proxies) -----------------------------------------------------------------
def qmul(p, q):
  return [p[0] * q[0] - p[1] * q[1] - p[2] * q[2] - p[3] * q[3], p[0] * q[1] + p[1] * q[0] + p[2] * q[3] - p[3] * q[2],
          p[0] * q[2] - p[1] * q[3] + p[2] * q[0] + p[3] * q[1], p[0] * q[3] + p[1] * q[2] - p[2] * q[1] + p[3] * q[0]]


def qrot(q, v):
  z = v[0] * 0
  r = qmul(qmul(q, [z] + list(v)), [q[0], -q[1], -q[2], -q[3]])
  return r[1:]


def compose(P, Q, p, q):
  r = qrot(Q, p)
  return [P[i] + r[i] for i in range(3)], qmul(Q, q)


def _attr(e, name, default):
  v = e.attrib.get(name)
  if v is None:
    return [float(x) for x in default.split()]
  if isinstance(v, str):
    return [float(x) for x in v.split()]
  return list(v)


def world_poses(root):
  """name -> ('pose', pos, quat) or ('fromto', a, b) for every named geom / site / body"""
  out = {}

  def rec(e, P, Q):
    for c in e:
      if c.tag not in ('body', 'geom', 'site'):
        continue
      p, q = _attr(c, 'pos', '0 0 0'), _attr(c, 'quat', '1 0 0 0')
      if c.attrib.get('fromto') is not None:
        ft = _attr(c, 'fromto', '0 0 0 0 0 0')
        a, _ = compose(P, Q, ft[0:3], q)
        b, _ = compose(P, Q, ft[3:6], q)
        out[c.attrib['name']] = ('fromto', a, b)
        continue
      wp, wq = compose(P, Q, p, q)
      out[c.attrib['name']] = ('pose', wp, wq)
      if c.tag == 'body':
        rec(c, wp, wq)
  rec(root, [0.0, 0.0, 0.0], [1.0, 0.0, 0.0, 0.0])
  return out


# ---- tree shapes -------------------------------------------------------------------------------------------------------------------
def shapes(tier):
  """list of (description, builder) ; builder(sym) -> ElementTree root with symbolic pose attributes"""
  out = []
  kinds = ['pos', 'quat', 'both', 'none']
  places = ['world', 'jointed', 'nested']
  child_sets = [('geom',), ('fromto',), ('site', 'jbody'), ('geom', 'fromto', 'jbody')]
  for place in places:
    for kind in kinds:
      for cs in child_sets:
        if tier == 'quick' and not (cs in (('geom',), ('geom', 'fromto', 'jbody')) or (place == 'world' and kind == 'quat')):
          continue
        out.append((place, kind, cs))
  # two jointless SIBLINGS under one parent (A before B), each with its own attribute set: state carried from one loop iteration of _fuse_bodies to the next
  # (a stale pose of the earlier sibling) only shows on such shapes
  for place in ('sibW', 'sibJ'):
    for ka in kinds:
      for kb in kinds:
        for cs in (('geom',), ('geom', 'fromto', 'jbody')):
          if tier == 'quick' and not ((place == 'sibW' and cs == ('geom',) and (ka, kb) in (('both', 'none'), ('pos', 'quat'), ('quat', 'pos'), ('none', 'both'))) or
                                      (place == 'sibJ' and cs != ('geom',) and (ka, kb) == ('both', 'none'))):
            continue
          out.append((place, ka + '|' + kb, cs))
  return out


def build(place, kind, cs, sym):
  """sym(name, n) -> symbolic array"""
  root = ElementTree.Element('worldbody')
  cnt = [0]

  def pose_attrs(e, kind, tag):
    if kind in ('pos', 'both'):
      e.attrib['pos'] = sym(tag + '_p', 3)
    if kind in ('quat', 'both'):
      e.attrib['quat'] = sym(tag + '_q', 4)

  def add_children(parent, tag):
    for k, c in enumerate(cs):
      nm = '%s_%s%d' % (tag, c, k)
      if c == 'geom':
        g = ElementTree.SubElement(parent, 'geom', {'name': nm})
        g.attrib['pos'], g.attrib['quat'] = sym(nm + '_p', 3), sym(nm + '_q', 4)
      elif c == 'fromto':
        g = ElementTree.SubElement(parent, 'geom', {'name': nm})
        g.attrib['fromto'] = sym(nm + '_ft', 6)
      elif c == 'site':
        g = ElementTree.SubElement(parent, 'site', {'name': nm})
        g.attrib['pos'] = sym(nm + '_p', 3)
      else:
        b = ElementTree.SubElement(parent, 'body', {'name': nm})
        b.attrib['pos'], b.attrib['quat'] = sym(nm + '_p', 3), sym(nm + '_q', 4)
        ElementTree.SubElement(b, 'joint', {'name': nm + '_j'})
        gg = ElementTree.SubElement(b, 'geom', {'name': nm + '_g'})
        gg.attrib['pos'] = sym(nm + '_gp', 3)
  holder = root
  if place in ('jointed', 'nested'):
    jb = ElementTree.SubElement(root, 'body', {'name': 'J'})
    jb.attrib['pos'], jb.attrib['quat'] = sym('J_p', 3), sym('J_q', 4)
    ElementTree.SubElement(jb, 'joint', {'name': 'Jj'})
    holder = jb
  if place in ('sibW', 'sibJ'):
    if place == 'sibJ':
      jb = ElementTree.SubElement(root, 'body', {'name': 'J'})
      jb.attrib['pos'], jb.attrib['quat'] = sym('J_p', 3), sym('J_q', 4)
      ElementTree.SubElement(jb, 'joint', {'name': 'Jj'})
      holder = jb
    ka, kb = kind.split('|')
    a = ElementTree.SubElement(holder, 'body', {'name': 'A'})
    pose_attrs(a, ka, 'A')
    add_children(a, 'A')
    b = ElementTree.SubElement(holder, 'body', {'name': 'B'})
    pose_attrs(b, kb, 'B')
    add_children(b, 'B')
    return root
  a = ElementTree.SubElement(holder, 'body', {'name': 'A'})
  pose_attrs(a, kind, 'A')
  if place == 'nested':
    b = ElementTree.SubElement(a, 'body', {'name': 'B'})
    pose_attrs(b, 'both' if kind != 'both' else 'quat', 'B')
    add_children(b, 'B')
    g = ElementTree.SubElement(a, 'geom', {'name': 'A_own'})
    g.attrib['pos'] = sym('A_own_p', 3)
  else:
    add_children(a, 'A')
  return root


def world_pose_ob(tier, shard, nshards):
  def run():
    import z3
    ns = extracted()
    all_shapes = shapes(tier)[shard::nshards]
    npaths = nchecks = 0
    for (place, kind, cs) in all_shapes:
      def sym(name, n):
        return tarr(px.symarr(name, (n,)))

      def go():
        root = build(place, kind, cs, sym)
        before = world_poses(root)
        ns['_fuse_bodies'](root)
        after = world_poses(root)
        left = [e.attrib.get('name') for e in root.iter('body') if e.find('joint') is None and e.find('freejoint') is None]
        return before, after, left
      paths = px.explore(go, catch=())
      npaths += len(paths)
      for p in paths:
        before, after, left = p.value
        if left:
          return Result(REFUTED, 'jointless bodies %s survive fusing (shape %s/%s/%s)' % (left, place, kind, cs), replay=_native_shape(place, kind, cs, None))
        for name, val in before.items():
          if name in ('A', 'B'):
            continue          # the fused bodies themselves disappear
          if name not in after:
            return Result(REFUTED, 'element %s lost by fusing (shape %s/%s/%s)' % (name, place, kind, cs), replay=_native_shape(place, kind, cs, None))
          va = after[name]
          if va[0] != val[0]:
            return Result(REFUTED, 'element %s changed representation %s -> %s' % (name, val[0], va[0]), replay={'reproduced': False})
          eqs = []
          for x, y in zip(list(val[1]) + list(val[2]), list(va[1]) + list(va[2])):
            eqs.append(px.E(x) == px.E(y))
          nchecks += 1
          v, m = px.valid(p.pc, z3.And(*eqs), timeout_s=30)
          if v == 'refuted':
            return Result(REFUTED, 'world pose of %s changes when fusing (shape: jointless body %s, attributes %s, children %s); path condition %s'
                          % (name, place, kind, cs, [str(c) for c in p.pc][:3]), witness={'model': str(m)[:600], 'place': place, 'kind': kind, 'children': list(cs)},
                          replay=_native_shape(place, kind, cs, m), solver_output=str(m)[:1500])
          if v != 'proved':
            return Result(UNDECIDED, 'z3 %s on %s' % (v, name))
    return Result(PROVED, '%d tree shapes, %d paths of the real _fuse_bodies, %d element-pose identities proved for all pose values' % (len(all_shapes), npaths, nchecks),
                  stats={'shapes': len(all_shapes), 'paths': npaths, 'queries': nchecks})
  return Obligation('C13/_fuse_bodies/world_pose[%d/%d]' % (shard + 1, nshards), 'brax.io.mjcf:_fuse_bodies,_offset,_transform_do',
                    'for every tree shape and ALL pose values: every surviving geom / site / jointed body has the same world position and orientation (fromto: the same end points) '
                    'in the fused tree as in the original, and no jointless body survives', run, backend='path', budget=900)


def _native_shape(place, kind, cs, model):
  """replay on the UNMODIFIED mjcf.fuse_bodies through MuJoCo, with the z3 model's values (or a rotation-only default)"""
  import z3
  import mujoco
  from brax.io import mjcf
  rng = np.random.RandomState(5)

  def sym(name, n):
    vals = []
    for i in range(n):
      v = None
      if model is not None:
        x = model.eval(z3.Real('%s_%d' % (name, i)), model_completion=True)
        try:
          v = float(x.numerator_as_long()) / float(x.denominator_as_long())
        except Exception:      # noqa: BLE001
          v = None
      vals.append(v)
    if name.endswith('_q'):
      q = np.array([v if v is not None else 0.0 for v in vals])
      if np.linalg.norm(q) < 1e-6 or model is None:
        q = np.array([0.7071068, 0.7071068, 0, 0]) if name.startswith('A') else rng.normal(size=4)
      q = q / np.linalg.norm(q)
      return ' '.join('%.9g' % x for x in q)
    if name.endswith('_ft'):
      return ' '.join('%.9g' % (v if v is not None else x) for v, x in zip(vals, [0.1, 0, 0, 0.1, 0.2, 0.3]))
    return ' '.join('%.9g' % (v if (v is not None and (model is not None)) else 0.0) for v in vals)
  root = build(place, kind, cs, sym)
  for e in root.iter():
    if e.tag == 'geom':
      e.attrib.setdefault('size', '0.05')
      if 'fromto' in e.attrib:
        e.attrib['type'] = 'capsule'
        e.attrib.pop('pos', None)
        e.attrib.pop('quat', None)
    if e.tag == 'joint':
      e.attrib['type'] = 'hinge'
  xml = '<mujoco>%s</mujoco>' % ElementTree.tostring(root, encoding='unicode')
  try:
    m0 = mujoco.MjModel.from_xml_string(xml)
    m1 = mujoco.MjModel.from_xml_string(mjcf.fuse_bodies(xml))
  except Exception as e:      # noqa: BLE001
    return {'reproduced': False, 'error': str(e)[:200], 'xml': xml}
  d0, d1 = mujoco.MjData(m0), mujoco.MjData(m1)
  mujoco.mj_forward(m0, d0)
  mujoco.mj_forward(m1, d1)
  worst = 0.0
  for g in range(m0.ngeom):
    nm = mujoco.mj_id2name(m0, mujoco.mjtObj.mjOBJ_GEOM, g)
    g1 = mujoco.mj_name2id(m1, mujoco.mjtObj.mjOBJ_GEOM, nm)
    worst = max(worst, float(np.abs(d0.geom_xpos[g] - d1.geom_xpos[g1]).max()), float(np.abs(d0.geom_xmat[g] - d1.geom_xmat[g1]).max()))
  return {'reproduced': worst > 1e-5, 'max_geom_world_pose_difference': worst, 'xml': xml}


def transform_do_ob():
  def run():
    import z3
    from brax.io import mjcf
    P, Q, p, q = px.symarr('P', (3,)), px.symarr('Q', (4,)), px.symarr('p', (3,)), px.symarr('q', (4,))
    res = px.explore(lambda: mjcf._transform_do(parent_pos=P, parent_quat=Q, pos=p, quat=q) if 'parent_pos' in __import__('inspect').signature(mjcf._transform_do).parameters else mjcf._transform_do(P, Q, p, q), catch=())
    if len(res) != 1:
      return Result(UNDECIDED, '_transform_do branches on data')
    pos, rot = res[0].value
    wp, wq = compose(list(P), list(Q), list(p), list(q))
    eqs = [px.E(a) == px.E(b) for a, b in zip(list(pos) + list(rot), wp + wq)]
    v, m = px.valid([], z3.And(*eqs), timeout_s=30)
    if v == 'proved':
      return Result(PROVED, 'the real numpy function on symbolic arrays equals (P + Q p Q*, Q q) for all inputs', stats={'queries': 1})
    return Result(REFUTED if v == 'refuted' else UNDECIDED, '_transform_do is not SE(3) composition: %s' % str(m)[:300], replay={'reproduced': False})
  return Obligation('C13/_transform_do/compose', 'brax.io.mjcf:_transform_do (math.rotate_np, math.quat_mul_np)', '_transform_do(P, Q, p, q) = (P + R(Q) p, Q*q), all real inputs '
                    '(the REAL numpy function, no extraction)', run, backend='path+smt', budget=120)


def bounded(tier):
  def run():
    import mujoco
    import re
    from brax.io import mjcf
    from verif.bounded import modelgen
    rng = np.random.RandomState(seed() + 31)
    n = 15 if tier == 'quick' else 300
    evals = 0
    for k in range(n):
      xml, meta = modelgen.generate(rng, modelgen.Spec(n_links=(1, 4), geom_kinds=('sphere', 'capsule')))
      # wrap randomly chosen elements into 1-3 jointless bodies with pos only / quat only / both / neither
      root = ElementTree.fromstring(xml)
      wb = root.find('worldbody')
      bodies = [wb] + list(wb.iter('body'))
      for t in range(int(rng.randint(1, 4))):
        parent = bodies[int(rng.randint(0, len(bodies)))]
        kids = [c for c in list(parent) if c.tag in ('geom', 'body')]
        if not kids:
          continue
        take = [c for c in kids if rng.rand() < 0.6] or kids[:1]
        jb = ElementTree.Element('body', {'name': 'fuse%d_%d' % (k, t)})
        mode = int(rng.randint(0, 4))
        if mode in (0, 2):
          jb.attrib['pos'] = modelgen._f(rng.uniform(-0.3, 0.3, 3))
        if mode in (1, 2):
          jb.attrib['quat'] = modelgen._f(modelgen.rand_quat(rng))
        for c in take:
          parent.remove(c)
          jb.append(c)
        if rng.rand() < 0.5:
          ElementTree.SubElement(jb, 'geom', {'name': 'ft%d_%d' % (k, t), 'type': 'capsule', 'size': '0.03', 'fromto': modelgen._f(rng.uniform(-0.2, 0.2, 6)), 'contype': '0', 'conaffinity': '0'})
        ElementTree.SubElement(jb, 'site', {'name': 'st%d_%d' % (k, t), 'pos': modelgen._f(rng.uniform(-0.2, 0.2, 3))})
        parent.append(jb)
        bodies.append(jb)
      x0 = ElementTree.tostring(root, encoding='unicode')
      try:
        m0 = mujoco.MjModel.from_xml_string(x0)
      except Exception:      # noqa: BLE001
        continue
      m1 = mujoco.MjModel.from_xml_string(mjcf.fuse_bodies(x0))
      if m0.nq != m1.nq:
        return Result(REFUTED, 'fusing changes the number of coordinates', witness={'xml': x0}, replay={'reproduced': True})
      d0, d1 = mujoco.MjData(m0), mujoco.MjData(m1)
      q = m0.qpos0.copy()
      q += rng.uniform(-0.5, 0.5, m0.nq)
      # keep free-joint quaternions unit
      for j in range(m0.njnt):
        if m0.jnt_type[j] == 0:
          a = m0.jnt_qposadr[j]
          q[a + 3:a + 7] /= np.linalg.norm(q[a + 3:a + 7])
      d0.qpos[:], d1.qpos[:] = q, q
      mujoco.mj_forward(m0, d0)
      mujoco.mj_forward(m1, d1)
      evals += 1
      for typ, n0, pos0, pos1, mat0, mat1 in ((mujoco.mjtObj.mjOBJ_GEOM, m0.ngeom, d0.geom_xpos, d1.geom_xpos, d0.geom_xmat, d1.geom_xmat),
                                               (mujoco.mjtObj.mjOBJ_SITE, m0.nsite, d0.site_xpos, d1.site_xpos, d0.site_xmat, d1.site_xmat)):
        for g in range(n0):
          nm = mujoco.mj_id2name(m0, typ, g)
          g1 = mujoco.mj_name2id(m1, typ, nm)
          if g1 < 0:
            return Result(REFUTED, 'element %s lost by fuse_bodies' % nm, witness={'xml': x0}, replay={'reproduced': True})
          dpos = float(np.abs(pos0[g] - pos1[g1]).max())
          dmat = float(np.abs(mat0[g] - mat1[g1]).max())
          if typ == mujoco.mjtObj.mjOBJ_GEOM and nm.startswith('ft'):
            # from-to capsule: the same two world end points and radius (the roll about the axis is arbitrary).  The end points, not the axis direction, are
            # compared: the direction of a short capsule amplifies the float32 rounding of the rewritten end points by 1/half-length (an axis tolerance
            # raised a false alarm in the thorough tier on a 0.024 long capsule, see DESIGN 0.4)
            a0, a1 = mat0[g].reshape(3, 3)[:, 2] * m0.geom_size[g][1], mat1[g1].reshape(3, 3)[:, 2] * m1.geom_size[g1][1]
            dmat = max(float(np.abs((pos0[g] + a0) - (pos1[g1] + a1)).max()), float(np.abs((pos0[g] - a0) - (pos1[g1] - a1)).max()))
            dmat = max(dmat, float(np.abs(m0.geom_size[g] - m1.geom_size[g1]).max()))
          if dpos > 2e-5 or dmat > 2e-5:
            return Result(REFUTED, 'fuse_bodies moves %s by %g (pos) / %g (orientation)' % (nm, dpos, dmat), witness={'xml': x0, 'element': nm},
                          replay={'reproduced': True, 'element': nm, 'dpos': dpos, 'dmat': dmat})
      for b in range(1, m0.nbody):
        if m0.body_jntnum[b] == 0:
          continue
        nm = mujoco.mj_id2name(m0, mujoco.mjtObj.mjOBJ_BODY, b)
        b1 = mujoco.mj_name2id(m1, mujoco.mjtObj.mjOBJ_BODY, nm)
        if b1 < 0 or np.abs(d0.xpos[b] - d1.xpos[b1]).max() > 2e-5 or np.abs(d0.xmat[b] - d1.xmat[b1]).max() > 2e-5:
          return Result(REFUTED, 'jointed body %s moved by fuse_bodies' % nm, witness={'xml': x0}, replay={'reproduced': True})
      # masses / inertias of the moving parts: the joint-space inertia matrix is unchanged
      if m0.nv:
        M0, M1 = np.zeros((m0.nv, m0.nv)), np.zeros((m0.nv, m0.nv))
        for c in range(m0.nv):
          e, r0, r1 = np.zeros(m0.nv), np.zeros(m0.nv), np.zeros(m0.nv)
          e[c] = 1
          mujoco.mj_mulM(m0, d0, r0, e)
          mujoco.mj_mulM(m1, d1, r1, e)
          M0[:, c], M1[:, c] = r0, r1
        if np.abs(M0 - M1).max() > 1e-4 * max(1.0, np.abs(M0).max()):
          return Result(REFUTED, 'fuse_bodies changes the inertia of the moving bodies (inertia matrix differs by %g)' % np.abs(M0 - M1).max(), witness={'xml': x0}, replay={'reproduced': True})
    return Result(PROVED, 'bounded: %d documents: every geom / site / jointed body at the same world pose, inertia matrix unchanged' % evals,
                  stats={'evaluations': evals, 'distinct_nontrivial': evals})
  return Obligation('C13/bounded/fuse_vs_mujoco', 'brax.io.mjcf:fuse_bodies', 'BOUNDED: MuJoCo forward kinematics and inertia matrix of the original document vs mjcf.fuse_bodies(xml), matched by name',
                    run, backend='bounded', kind='bounded', budget=1800)


def obligations(tier):
  ns = 10
  obs = [transform_do_ob()] + [world_pose_ob(tier, k, ns) for k in range(ns)] + [bounded(tier)]

  def canary():
    # the rewrite must be exercised: a shape with a rotation AND translation on the jointless body where the claim 'geom keeps its LOCAL pos' is false
    import z3
    ns_ = extracted()
    def go():
      root = build('world', 'both', ('geom',), lambda nm, n: tarr(px.symarr(nm, (n,))))
      g0 = list(root.iter('geom'))[0].attrib['pos']
      ns_['_fuse_bodies'](root)
      g1 = list(root.iter('geom'))[0].attrib['pos']
      return g0, g1
    for p in px.explore(go, catch=()):
      g0, g1 = p.value
      v, m = px.valid(p.pc, z3.And(*[px.E(a) == px.E(b) for a, b in zip(g0, g1)]))
      if v == 'refuted':
        return Result(REFUTED, 'as expected: the local pos attribute changes')
    return Result(PROVED, 'canary not refuted')
  obs.append(Obligation('C13/canary/local_pos_unchanged', 'brax.io.mjcf:_fuse_bodies', 'CANARY: fusing leaves the geom\'s LOCAL pos attribute unchanged (must be refuted)', canary, kind='canary', backend='path'))
  return obs
