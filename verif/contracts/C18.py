"""C18 -- running observation statistics equal the statistics of all data seen."""
from __future__ import annotations
from fractions import Fraction
import numpy as np
import jax
import jax.numpy as jp

from verif.contracts.common import (law, smt_custom, Obligation, Result, Sym, sym_call, Interp, Z3Alg, RingAlg, eqs,
                                    flat_scalars, smt_prove, PROVED, REFUTED, UNDECIDED, is_sym, isc, witness_arrays)

LEVEL = 'proof'
EXPECTED_MIN = {'quick': 20, 'thorough': 40}
EXPLANATION = ('Welford update verified as an inductive invariant over ghost sums (S0,S1,S2)=(sum w, sum w x, sum w x^2): Inv(old) => Inv(new) for '
               'ALL data, weights, old states; corollaries (population mean/std of the concatenation, independence of batching, integer weight = '
               'repetition) follow from additivity of the ghost sums and are also checked directly from init_state on small shapes.')
TRUSTED = ['paper lemma: mean = S1/S0 and std^2 = S2/S0 - (S1/S0)^2 are the population statistics; (S0,S1,S2) are additive over batches',
           'sqrt as a constrained real (s >= 0, s^2 = a)']
ASSUMPTIONS = ['floats treated as exact reals: round-off of the accumulator is NOT covered (the max(.,0) guard is float-only)',
               'static configurations: batch sizes {1,2,3,4,6}, 1-2 batch axes, 1-2 features, array and dict nests', 'pmap_axis_name=None']


def _rs():
  from brax.training.acme import running_statistics as rs
  return rs


def inv_step(bshape, feat, weighted, first, tiers):
  """Welford step against the ghost sums, exact rational-function identity.
     later: old state := (count, mean, sv) = (S0, S1/S0, S2 - S1^2/S0) with S0 != 0 -- every state satisfying Inv with S0 > 0
     first: old state := (0, m0, 0) with m0 arbitrary                               -- every state satisfying Inv with S0 = 0"""
  tag = 'b=%s,f=%d,%s,%s' % ('x'.join(map(str, bshape)), feat, 'w' if weighted else 'u', 'first' if first else 'later')

  def run():
    rs = _rs()
    A = RingAlg()
    x = A.arr('x', bshape + (feat,))
    w = A.arr('w', bshape) if weighted else None
    if first:
      S0, S1, S2 = 0, [0] * feat, [0] * feat
      count = np.asarray(0.0)
      mean = A.arr('m0', (feat,))
      sv = np.zeros((feat,))
      st = rs.RunningStatisticsState(mean=Sym(mean), std=jp.ones((feat,)), count=jp.zeros(()), summed_variance=jp.zeros((feat,)))
    else:
      S0 = A.var('S0')
      S1, S2 = A.arr('S1', (feat,)), A.arr('S2', (feat,))
      mean = np.empty((feat,), dtype=object)
      sv = np.empty((feat,), dtype=object)
      for f in range(feat):
        mean[f] = A.div(S1[f], S0)
        sv[f] = A.sub(S2[f], A.div(A.mul(S1[f], S1[f]), S0))
      st = rs.RunningStatisticsState(mean=Sym(mean), std=jp.ones((feat,)), count=Sym(S0), summed_variance=Sym(sv))
    I = Interp(A)
    kw = {'weights': Sym(w)} if weighted else {}
    new = sym_call(I, lambda s, b, **k: (lambda r: (r.count, r.mean, r.summed_variance))(rs.update(s, b, **k)), st, Sym(x), **kw)
    ncount, nmean, nsv = new
    ws = [w[i] if weighted else 1 for i in np.ndindex(*bshape)]
    xs_ = [x[i] for i in np.ndindex(*bshape)]
    b0 = 0
    for e in ws:
      b0 = A.add(b0, e)
    n0 = A.add(S0, b0)
    got, want = [ncount.item() if is_sym(ncount) else A.const(float(ncount), 'f')], [n0]
    for f in range(feat):
      n1, n2 = S1[f], S2[f]
      for wi, xi in zip(ws, xs_):
        n1 = A.add(n1, A.mul(wi, xi[f]))
        n2 = A.add(n2, A.mul(wi, A.mul(xi[f], xi[f])))
      got += [A.mul(nmean[f], n0), A.mul(nsv[f], n0)]
      want += [n1, A.sub(A.mul(n2, n0), A.mul(n1, n1))]
    from verif.contracts.common import ring_equal
    r = ring_equal(A, np.array(got, dtype=object), np.array(want, dtype=object), name=tag)
    # denominators used by the real code must be exactly the ones the precondition makes non-zero
    allowed = [A.normal(A.P(n0))] + ([] if first else [A.normal(A.P(S0))])
    extra = [d for d in A.den_side if not any(_divides_product(A, d, allowed))]
    r.stats['denominators'] = sorted({A.show(d, 5) for d in A.den_side})
    if extra and r.verdict == PROVED:
      return Result(UNDECIDED, 'update divides by %s, which the precondition does not make non-zero' % A.show(extra[0], 5), stats=r.stats)
    if r.verdict == REFUTED:
      r.replay = _native_counter(bshape, feat, weighted, first)
    return r
  return Obligation('C18/update/inv[%s]' % tag, 'brax.training.acme.running_statistics:update',
                    'Inv(old; S0,S1,S2) (%s), S0 + sum w != 0  =>  count\' = S0 + sum w, mean\' (S0+b0) = S1 + sum w x, '
                    'summed_variance\' (S0+b0) = (S2 + sum w x^2)(S0+b0) - (S1 + sum w x)^2 ; only denominators S0, S0+b0'
                    % ('S0 = 0: first update' if first else 'S0 != 0'), run, backend='ring', tiers=tiers, budget=200)


def _divides_product(A, d, allowed):
  """d is, up to a constant, a product of powers of the allowed polynomials (checked for the single-factor and square cases)"""
  d = A.normal(d)
  cands = list(allowed)
  for a in allowed:
    for b in allowed:
      cands.append(A.normal(A.mul(a, b)))
  for c in cands:
    if c.t and d.t and set(c.t) == set(d.t):
      k = None
      ok = True
      for m, v in d.t.items():
        q = Fraction(v) / Fraction(c.t[m])
        if k is None:
          k = q
        elif q != k:
          ok = False
          break
      if ok:
        yield True
        return
  yield False


def _native_counter(bshape, feat, weighted, first):
  """native search: random histories, compare with numpy population statistics"""
  rs = _rs()
  rng = np.random.RandomState(3)
  for _ in range(50):
    x0 = rng.normal(size=(3, feat)) * 2 + 1
    x = rng.normal(size=bshape + (feat,)) * 2 + 1
    w = rng.randint(0, 4, size=bshape).astype(float) if weighted else None
    if weighted and w.sum() == 0:
      continue
    s = rs.init_state(jp.zeros((feat,)))
    allx, allw = [], []
    if not first:
      s = rs.update(s, jp.asarray(x0))
      allx.append(x0)
      allw.append(np.ones(3))
    s = rs.update(s, jp.asarray(x), weights=None if w is None else jp.asarray(w))
    allx.append(x.reshape(-1, feat))
    allw.append(np.ones(int(np.prod(bshape))) if w is None else w.reshape(-1))
    X, W = np.concatenate(allx), np.concatenate(allw)
    mu = (W[:, None] * X).sum(0) / W.sum()
    var = (W[:, None] * (X - mu) ** 2).sum(0) / W.sum()
    if not (np.allclose(np.asarray(s.mean), mu, atol=1e-9) and np.allclose(np.asarray(s.summed_variance) / float(s.count), var, atol=1e-9)):
      return {'reproduced': True, 'data': X.tolist(), 'weights': W.tolist(), 'observed_mean': np.asarray(s.mean).tolist(),
              'expected_mean': mu.tolist(), 'observed_var': (np.asarray(s.summed_variance) / float(s.count)).tolist(), 'expected_var': var.tolist()}
  return {'reproduced': False}


def std_clause(bshape, feat, tiers):
  tag = 'b=%s,f=%d' % ('x'.join(map(str, bshape)), feat)

  def body(A):
    import z3
    rs = _rs()
    x = A.arr('x', bshape + (feat,))
    count = A.var('count')
    mean, sv, std0 = A.arr('mean', (feat,)), A.arr('sv', (feat,)), A.arr('std', (feat,))
    st = rs.RunningStatisticsState(mean=Sym(mean), std=Sym(std0), count=Sym(count), summed_variance=Sym(sv))
    new = sym_call(Interp(A), rs.update, st, Sym(x))
    n = int(np.prod(bshape))
    pre = [count >= 0]
    lo, hi = z3.RealVal(str(Fraction(1e-6))), z3.RealVal(str(Fraction(1e6)))
    goal = []
    for f in range(feat):
      svn, s = new.summed_variance[f], new.std[f]
      r = A.fresh('r')
      A.assume += [r >= 0, r * r * (count + n) == z3.If(svn >= 0, svn, 0)]
      goal.append(s == z3.If(r < lo, lo, z3.If(r > hi, hi, r)))
    goal += [c for _, c in A.side]
    return pre, goal
  return smt_custom('C18/update/std[%s]' % tag, 'brax.training.acme.running_statistics:update',
                    "count >= 0: std' = clip(sqrt(max(summed_variance',0)/count'), 1e-6, 1e6) and every division/sqrt in update is defined",
                    body, tiers=tiers, timeout=100, budget=240)


def _init(rs, feat, nest):
  if nest == 'dict':
    return rs.init_state({'a': jp.zeros((feat,)), 'b': jp.zeros((1,))})
  return rs.init_state(jp.zeros((feat,)))


def split(n1, n2, feat, nest, tiers):
  """update(update(init, x[:n1]), x[n1:]) == update(init, x) on (count, mean, summed_variance)"""
  def pick(s):
    return (s.count, s.mean, s.summed_variance)

  def fn(x, y):
    rs = _rs()
    if nest == 'dict':
      mk = lambda a: {'a': a, 'b': a[..., :1] * 2.0}
    else:
      mk = lambda a: a
    s0 = _init(rs, feat, nest)
    two = rs.update(rs.update(s0, mk(x)), mk(y))
    one = rs.update(s0, mk(jp.concatenate([x, y], axis=0)))
    return pick(two), pick(one)
  return law('C18/update/split[%d+%d,f=%d,%s]' % (n1, n2, feat, nest), 'brax.training.acme.running_statistics:update',
             'from init_state: updating with two batches = updating with their concatenation (count, mean, summed_variance), all data',
             fn, {'x': (n1, feat), 'y': (n2, feat)}, backend='ring', tiers=tiers)


def batch_axes(feat, tiers):
  def pick(s):
    return (s.count, s.mean, s.summed_variance)

  def fn(x):
    rs = _rs()
    s0 = rs.init_state(jp.zeros((feat,)))
    return pick(rs.update(s0, x)), pick(rs.update(s0, x.reshape((-1, feat))))
  return law('C18/update/batch_axes[2x3,f=%d]' % feat, 'brax.training.acme.running_statistics:update',
             'two leading batch axes = the flattened batch', fn, {'x': (2, 3, feat)}, backend='ring', tiers=tiers)


def weight_rep(tiers):
  def pick(s):
    return (s.count, s.mean, s.summed_variance)

  def fn(x):
    rs = _rs()
    s0 = rs.init_state(jp.zeros((2,)))
    wts = jp.array([2.0, 0.0, 3.0, 1.0])
    rep = jp.concatenate([x[0:1], x[0:1], x[2:3], x[2:3], x[2:3], x[3:4]], axis=0)
    return pick(rs.update(s0, x, weights=wts)), pick(rs.update(s0, rep))
  return law('C18/update/weight_is_repetition', 'brax.training.acme.running_statistics:update',
             'integer weights (2,0,3,1) = presenting the samples 2,0,3,1 times', fn, {'x': (4, 2)}, backend='ring', tiers=tiers)


def population(n, tiers):
  def fn(x):
    rs = _rs()
    s = rs.update(rs.init_state(jp.zeros((1,))), x)
    mu = jp.sum(x, axis=0) / n
    var = jp.sum((x - mu) ** 2, axis=0) / n
    return (s.mean, s.summed_variance / s.count), (mu, var)
  return law('C18/update/population[n=%d]' % n, 'brax.training.acme.running_statistics:update',
             'one batch from init_state: mean and summed_variance/count are the population mean and variance', fn, {'x': (n, 1)}, backend='ring', tiers=tiers)


def norm_roundtrip():
  def fn(x, m, s):
    rs = _rs()
    ms = rs.NestedMeanStd(mean={'o': m, 'k': jp.zeros((2,))}, std={'o': s, 'k': jp.ones((2,))})
    ints = jp.array([3, -7], dtype=jp.int32)
    nx = rs.normalize({'o': x, 'k': ints}, ms)
    back = rs.denormalize(nx, ms)
    return (back['o'], nx['k'], back['k'], nx['o'] * s), (x, ints, ints, x - m)
  return law('C18/normalize/roundtrip', 'brax.training.acme.running_statistics:normalize,denormalize',
             'std != 0: denormalize(normalize(x)) = x, normalize(x) = (x-mean)/std on float leaves; integer leaves are returned untouched by both',
             fn, {'x': (2, 3), 'm': (3,), 's': (3,)}, backend='ring')


def norm_clip():
  def body(A):
    import z3
    rs = _rs()
    x, m, s = A.arr('x', (3,)), A.arr('m', (3,)), A.arr('s', (3,))
    ms = rs.NestedMeanStd(mean=Sym(m), std=Sym(s))
    out = sym_call(Interp(A), lambda b, mm: rs.normalize(b, mm, max_abs_value=5.0), Sym(x), ms)
    pre = [e > 0 for e in s]
    goal = []
    for o, xi, mi, si in zip(out, x, m, s):
      z = (xi - mi) / si
      goal.append(o == z3.If(z < -5, -5, z3.If(z > 5, 5, z)))
    return pre, goal
  return smt_custom('C18/normalize/max_abs_value', 'brax.training.acme.running_statistics:normalize',
                    'std > 0: normalize(x, max_abs_value=M) = clip((x-mean)/std, -M, M)', body)


def init_state_ob():
  def run():
    rs = _rs()
    s = rs.init_state({'a': jp.zeros((3,)), 'b': jp.zeros((2, 2))})
    ok = (float(s.count) == 0 and all(float(jp.abs(v).sum()) == 0 for v in jax.tree_util.tree_leaves(s.mean))
          and all(float(jp.abs(v).sum()) == 0 for v in jax.tree_util.tree_leaves(s.summed_variance))
          and all(bool(jp.all(v == 1)) for v in jax.tree_util.tree_leaves(s.std)))
    if ok:
      return Result(PROVED, 'init_state is (count 0, mean 0, summed_variance 0, std 1): concrete evaluation, no inputs besides shapes')
    return Result(REFUTED, 'init_state is not (0,0,0,1)', replay={'reproduced': True, 'observed': str(s)})
  return Obligation('C18/init_state/values', 'brax.training.acme.running_statistics:init_state',
                    'init_state satisfies Inv with S = 0 (count = 0, mean = 0, summed_variance = 0) and std = 1', run, backend='eval', budget=60)


def obligations(tier):
  Q, Th = ('quick', 'thorough'), ('thorough',)
  obs = []
  cfgs = [((1,), 1, False, Q), ((2,), 1, False, Q), ((3,), 2, False, Q), ((4,), 1, True, Q), ((2,), 2, True, Q), ((2, 2), 1, True, Q),
          ((2, 3), 1, False, Q), ((6,), 1, True, Q), ((6,), 2, False, Th), ((3,), 1, True, Th), ((1,), 2, True, Th), ((2, 3), 2, True, Th),
          ((4,), 2, False, Th), ((1, 1), 1, False, Th)]
  for b, f, w, t in cfgs:
    obs.append(inv_step(b, f, w, False, t))
    obs.append(inv_step(b, f, w, True, t))
  obs += [std_clause((1,), 1, Q), std_clause((2,), 1, Q), std_clause((1,), 2, Th)]
  for n1, n2, f, nest, t in [(1, 1, 1, 'array', Q), (2, 1, 1, 'array', Q), (1, 3, 2, 'array', Q), (2, 2, 1, 'dict', Q), (3, 3, 1, 'array', Th), (2, 4, 2, 'dict', Th)]:
    obs.append(split(n1, n2, f, nest, t))
  obs.append(batch_axes(1, Q))
  obs.append(batch_axes(2, Th))
  obs.append(weight_rep(Q))
  for n, t in [(1, Q), (2, Q), (3, Q), (5, Th), (8, Th)]:
    obs.append(population(n, t))
  obs += [norm_roundtrip(), norm_clip(), init_state_ob()]

  # canary: invariant with the OLD count in the mean denominator must be refuted
  def canary(A):
    rs = _rs()
    x = A.arr('x', (2, 1))
    count, mean, sv, std0 = A.var('count'), A.arr('mean', (1,)), A.arr('sv', (1,)), A.arr('std', (1,))
    st = rs.RunningStatisticsState(mean=Sym(mean), std=Sym(std0), count=Sym(count), summed_variance=Sym(sv))
    new = sym_call(Interp(A), rs.update, st, Sym(x))
    return [count > 0], [new.mean[0] * count == mean[0] * count + (x[0, 0] - mean[0]) + (x[1, 0] - mean[0])]
  obs.append(smt_custom('C18/canary/old_count', 'brax.training.acme.running_statistics:update',
                        'CANARY: mean update divided by the old count (must be refuted)', canary, kind='canary'))
  return obs
