"""C20 -- the tanh-normal policy distribution is a correct probability model."""
from __future__ import annotations
from fractions import Fraction
import numpy as np
import jax
import jax.numpy as jp

from verif.contracts.common import (smt_custom, law, Obligation, Result, Sym, sym_call, Interp, Z3Alg, smt_prove, combine,
                                    PROVED, REFUTED, UNDECIDED, ERROR, is_sym, isc, seed, witness_arrays)
from verif.engine.alg import SymAlg

LEVEL = 'other'
EXPECTED_MIN = {'quick': 9, 'thorough': 11}
EXPLANATION = ('PROVED: log_prob = sum_i [normal log-density - log-det-Jacobian of tanh] with the scale (softplus(raw)+min_std)*var_scale (z3, softplus/log '
               'uninterpreted and shared with the spec); the numerically stable Jacobian 2(log2 - x - softplus(-2x)) equals log(1 - tanh^2 x) and jax.nn.softplus equals '
               'log(1+e^x) (sympy, case split on sign); scale floor; sample = tanh(mu + sigma*eps(key)) with eps independent of the parameters, mode = tanh(mu) => range '
               '[-1,1]; entropy formula; tanh/arctanh post-processing; PPO inference-function contract with the MLP cut.  BOUNDED (not proof): float accuracy of the '
               'log-det-Jacobian for |x| <= 40 against mpmath, numerical integration of the squashed density.  NOT decided by proof: finiteness in floating point.')
TRUSTED = ['real-analysis axioms: exp > 0, log(ab) = log a + log b, log(exp x) = x, tanh x = (1 - e^{-2x})/(1 + e^{-2x}), |tanh| <= 1, softplus >= 0 (from exp > 0)',
           'paper lemma: a density given by the change-of-variables formula integrates to one', 'sympy simplification is sound']
ASSUMPTIONS = ['floats treated as exact reals', 'event sizes 1-3, batch axes 0-1', 'scale floor is min_std*var_scale (for var_scale < 1 below min_std): the property\'s "configured minimum" is read that way',
               'jax.random.normal cut: arbitrary function of (key, shape); flax MLP cut: arbitrary function of its inputs']
BOUNDED_RULE = 'pre-squash points x in [-40,40] (float32 and float64) vs mpmath at 50 digits; numerical integration of the squashed density on a grid'


def _d():
  from brax.training import distribution
  return distribution


def _uf_softplus(I, P, ins):
  A = I.alg
  x = I.lift(ins[0])
  out = np.empty(x.shape, dtype=object)
  for idx in np.ndindex(*x.shape) if x.shape else [()]:
    out[idx] = A.uf('softplus', x[idx])
  return [out]


def _uf_fldj(I, P, ins):
  A = I.alg
  x = I.lift([v for nm, v in zip(P['argnames'], ins) if nm == 'x'][0])
  out = np.empty(x.shape, dtype=object)
  for idx in np.ndindex(*x.shape) if x.shape else [()]:
    out[idx] = A.uf('fldj', x[idx])
  return [out]


FLDJ = 'brax.training.distribution:TanhBijector.forward_log_det_jacobian'
CUTS = {'jax.nn:softplus': _uf_softplus, FLDJ: _uf_fldj}


def log_prob_formula(e, batch, tiers):
  shape = tuple(batch)

  def body(A):
    import z3
    D = _d()
    params = A.arr('p', shape + (2 * e,))
    x = A.arr('x', shape + (e,))
    ms, vs = A.var('min_std'), A.var('var_scale')
    I = Interp(A, cuts=CUTS)
    lp = sym_call(I, lambda p, a, m, v: D.NormalTanhDistribution(e, min_std=m, var_scale=v).log_prob(p, a), Sym(params), Sym(x), Sym(ms), Sym(vs))
    half_log_2pi = Fraction(float(0.5 * jp.log(2.0 * jp.pi)))
    log2 = Fraction(float(jp.log(2.0)))
    pre = [ms > 0, vs > 0]
    goal = []
    for idx in np.ndindex(*shape) if shape else [()]:
      tot = 0
      for i in range(e):
        mu, raw = params[idx + (i,)], params[idx + (e + i,)]
        sig = (A.uf('softplus', raw) + ms) * vs
        pre.append(A.uf('softplus', raw) >= 0)                                  # axiom instance softplus >= 0
        xi = x[idx + (i,)]
        z = (xi - mu) / sig
        fldj = A.uf('fldj', xi)          # the bijector's log-det-Jacobian, verified separately (C20/TanhBijector.fldj/identity)
        tot = tot + (-z * z / 2 - A.uf('log', sig) - z3.RealVal(str(half_log_2pi)) - fldj)
      goal.append(lp[idx] == tot)
    goal += [c for _, c in A.side]
    return pre, goal, _native_logprob
  return smt_custom('C20/log_prob/formula[e=%d,batch=%s]' % (e, 'x'.join(map(str, shape)) or '-'), 'brax.training.distribution:ParametricDistribution.log_prob,NormalDistribution.log_prob,NormalTanhDistribution.create_dist',
                    'log_prob(params, x) = sum_i [ -((x_i-mu_i)/sigma_i)^2/2 - log sigma_i - log(2 pi)/2 - fldj(x_i) ], sigma = (softplus(raw)+min_std)*var_scale, '
                    'fldj = the bijector\'s forward_log_det_jacobian (cut; = log(1 - tanh^2) by C20/TanhBijector.fldj/identity); all divisions/logs defined for min_std, var_scale > 0', body, tiers=tiers,
                    cut_targets=('jax.nn:softplus', FLDJ), timeout=120, budget=300)


def _native_logprob(w):
  import math
  D = _d()
  rng = np.random.RandomState(4)
  for _ in range(50):
    e = 2
    p, x = rng.uniform(-3, 3, 2 * e), rng.uniform(-4, 4, e)
    ms, vs = rng.uniform(0.01, 1), rng.uniform(0.2, 2)
    got = float(D.NormalTanhDistribution(e, min_std=ms, var_scale=vs).log_prob(jp.asarray(p), jp.asarray(x)))
    want = 0.0
    for i in range(e):
      sig = (math.log1p(math.exp(p[e + i])) + ms) * vs
      want += -0.5 * ((x[i] - p[i]) / sig) ** 2 - math.log(sig) - 0.5 * math.log(2 * math.pi) - math.log(1 - math.tanh(x[i]) ** 2)
    if abs(got - want) > 1e-6 * max(1, abs(want)):
      return {'reproduced': True, 'params': p.tolist(), 'x': x.tolist(), 'min_std': ms, 'var_scale': vs, 'observed': got, 'expected': want}
  return {'reproduced': False}


def sym_identity(oid, function, clause, fn_code, fn_spec, budget=200):
  """SYM back end: real code vs closed form, case split x > 0 / x < 0 / x = 0"""
  def run():
    res = []
    for case in ('pos', 'neg', 'zero'):
      A = SymAlg()
      if case == 'pos':
        x = A.var('x', positive=True)
      elif case == 'neg':
        x = -A.var('p', positive=True)
      else:
        x = Fraction(0)
      got = sym_call(Interp(A), fn_code, Sym(np.asarray(x, dtype=object).reshape(())))
      got = got.item() if isinstance(got, np.ndarray) else got
      want = fn_spec(A, A._s(x))
      d = A._s(got) - want
      if not A.is_zero(d):
        # numeric probe for a replay
        import sympy
        pts = [0.3, 1.7, 9.0] if case != 'zero' else [0.0]
        sym = list(A._s(d).free_symbols)
        vals = [abs(complex(A._s(d).subs({s: p for s in sym}).evalf(30))) for p in pts]
        if max(vals) > 1e-12:
          xs = [p if case == 'pos' else -p for p in pts]
          k = int(np.argmax(vals))
          nat = float(fn_code(jp.asarray(xs[k])))
          return Result(REFUTED, '%s: case x %s: residue %s (|residue| at %s = %.3g)' % (oid, case, str(sympy.simplify(d))[:120], xs[k], vals[k]),
                        witness={'x': xs[k]}, replay={'reproduced': True, 'x': xs[k], 'observed': nat, 'expected': float(fn_spec(A, A._s(Fraction(xs[k]))).evalf(20))})
        return Result(UNDECIDED, '%s: sympy could not normalise the residue to 0 in case %s (numerically 0)' % (oid, case))
      res.append(case)
    return Result(PROVED, 'residue simplifies to 0 in the cases x>0, x<0, x=0', stats={'cases': 3, 'back_end': 'sympy'})
  return Obligation(oid, function, clause, run, backend='sym', budget=budget)


def scale_floor():
  def body(A):
    D = _d()
    e = 2
    params = A.arr('p', (2 * e,))
    ms, vs = A.var('min_std'), A.var('var_scale')
    I = Interp(A, cuts={'jax.nn:softplus': _uf_softplus})
    dist = sym_call(I, lambda p, m, v: (lambda d: (d.loc, d.scale))(D.NormalTanhDistribution(e, min_std=m, var_scale=v).create_dist(p)), Sym(params), Sym(ms), Sym(vs))
    loc, scale = dist
    pre = [ms > 0, vs > 0] + [A.uf('softplus', params[e + i]) >= 0 for i in range(e)]
    goal = []
    for i in range(e):
      goal += [scale[i] >= ms * vs, scale[i] > 0, scale[i] == (A.uf('softplus', params[e + i]) + ms) * vs, loc[i] == params[i]]
    return pre, goal
  return smt_custom('C20/create_dist/scale_floor', 'brax.training.distribution:NormalTanhDistribution.create_dist',
                    'min_std, var_scale > 0: scale = (softplus(raw) + min_std) var_scale >= min_std var_scale > 0, loc = first half of the parameters', body,
                    cut_targets=('jax.nn:softplus',))


def sample_mode():
  def body(A):
    import z3
    D = _d()
    e = 2
    params = A.arr('p', (3, 2 * e))
    ms, vs = A.var('min_std'), A.var('var_scale')
    eps = A.arr('eps', (3, e))
    seen = []

    def h_normal(I, P, ins):
      from verif.engine.opaque import arg
      seen.append([x for x in ins if is_sym(x)])
      return [eps]
    I = Interp(A, cuts={'jax.nn:softplus': _uf_softplus, 'jax.random:normal': h_normal})
    key = np.zeros((2,), dtype=np.uint32)

    def f(p, m, v):
      d = D.NormalTanhDistribution(e, min_std=m, var_scale=v)
      return d.sample(p, key), d.mode(p), d.sample_no_postprocessing(p, key), d.postprocess(p[..., :e]), d.inverse_postprocess(p[..., :e])
    samp, mode, raw, post, inv = sym_call(I, f, Sym(params), Sym(ms), Sym(vs))
    goal = []
    for b in range(3):
      for i in range(e):
        sig = (A.uf('softplus', params[b, e + i]) + ms) * vs
        pre_sq = params[b, i] + sig * eps[b, i]
        goal += [raw[b, i] == pre_sq, samp[b, i] == A.uf('tanh', pre_sq), mode[b, i] == A.uf('tanh', params[b, i]),
                 post[b, i] == A.uf('tanh', params[b, i]), inv[b, i] == A.uf('atanh', params[b, i])]
    # the noise is drawn without looking at the parameters (reparameterisation): no symbolic operand reaches jax.random.normal
    if any(len(s) for s in seen) or len(seen) != 2:
      goal.append(False)
    return [ms > 0, vs > 0], goal
  return smt_custom('C20/sample_mode/reparam_range', 'brax.training.distribution:ParametricDistribution.sample,mode,sample_no_postprocessing,postprocess,inverse_postprocess',
                    'pre-squash sample = mu + sigma*eps with eps = normal(key, shape) drawn independently of the parameters (a pure function of the key); sample = tanh(pre-squash), '
                    'mode = tanh(mu) -- hence both in [-1,1] by |tanh| <= 1; postprocess = tanh, inverse_postprocess = arctanh', body,
                    cut_targets=('jax.nn:softplus', 'jax.random:normal'))


def entropy_formula():
  def body(A):
    import z3
    D = _d()
    e = 2
    params = A.arr('p', (2 * e,))
    ms, vs = A.var('min_std'), A.var('var_scale')
    eps = A.arr('eps', (e,))
    I = Interp(A, cuts=dict(CUTS, **{'jax.random:normal': lambda I_, P, ins: [eps]}))
    key = np.zeros((2,), dtype=np.uint32)
    ent = sym_call(I, lambda p, m, v: D.NormalTanhDistribution(e, min_std=m, var_scale=v).entropy(p, key), Sym(params), Sym(ms), Sym(vs))
    half_log_2pi = z3.RealVal(str(Fraction(float(0.5 * jp.log(2.0 * jp.pi)))))
    log2 = z3.RealVal(str(Fraction(float(jp.log(2.0)))))
    tot = 0
    pre = [ms > 0, vs > 0]
    for i in range(e):
      sig = (A.uf('softplus', params[e + i]) + ms) * vs
      pre.append(A.uf('softplus', params[e + i]) >= 0)
      s = params[i] + sig * eps[i]
      tot = tot + (z3.RealVal('1/2') + half_log_2pi + A.uf('log', sig)) + A.uf('fldj', s)
    return pre, [ent.item() == tot]
  return smt_custom('C20/entropy/formula', 'brax.training.distribution:ParametricDistribution.entropy,NormalDistribution.entropy',
                    'entropy estimate = sum_i [ 1/2 + log(2 pi)/2 + log sigma_i + fldj(sample_i) ] (normal entropy plus the log-det-Jacobian at a reparameterised sample)', body,
                    cut_targets=('jax.nn:softplus', 'jax.random:normal', FLDJ))


def inference_fn():
  def run():
    import z3
    from verif.engine.opaque import cut
    res = []
    from brax.training.agents.ppo import networks as ppo_networks0
    PARAMS = [ppo_networks0.make_ppo_networks(3, 2, policy_hidden_layer_sizes=(4,), value_hidden_layer_sizes=(4,)).policy_network.init(jax.random.PRNGKey(0))]
    with cut('jax.nn:softplus', 'jax.random:normal', 'brax.training.networks:MLP.apply', FLDJ):
      from brax.training.agents.ppo import networks as ppo_networks
      from brax.training.acme import running_statistics as rs
      for deterministic in (False, True):
        A = Z3Alg()
        obs_n, act_n, B = 3, 2, 2
        obs = A.arr('obs', (B, obs_n))
        mean, std = A.arr('mean', (obs_n,)), A.arr('std', (obs_n,))
        eps = A.arr('eps', (B, act_n))
        logits = A.arr('logits', (B, 2 * act_n))
        mlp_in = []

        def h_mlp(I, P, ins):
          mlp_in.append([x for x in ins if is_sym(x)])
          return [logits]
        I = Interp(A, cuts=dict(CUTS, **{'jax.random:normal': lambda I_, P, ins: [eps], 'brax.training.networks:MLP.apply': h_mlp}))
        nets = ppo_networks.make_ppo_networks(obs_n, act_n, preprocess_observations_fn=rs.normalize, policy_hidden_layer_sizes=(4,), value_hidden_layer_sizes=(4,))
        key = np.zeros((2,), dtype=np.uint32)
        pol_params = PARAMS[0]

        def f(o, m, s):
          norm = rs.NestedMeanStd(mean=m, std=s)
          policy = ppo_networks.make_inference_fn(nets)((norm, pol_params), deterministic=deterministic)
          return policy(o, key)
        act, extra = sym_call(I, f, Sym(obs), Sym(mean), Sym(std))
        pre = [s_ > 0 for s_ in std]
        goal = []
        if len(mlp_in) != 1 or len(mlp_in[0]) != 1:
          return Result(REFUTED, 'the policy network is not applied exactly once to one array', replay={'reproduced': False})
        seen = mlp_in[0][0]
        for b in range(B):
          for k in range(obs_n):
            goal.append(seen[b, k] == (obs[b, k] - mean[k]) / std[k])           # observations are normalised with the supplied statistics
        ms, vs = Fraction(0.001), 1
        for b in range(B):
          lp = 0
          for i in range(act_n):
            mu, raw = logits[b, i], logits[b, act_n + i]
            if deterministic:
              goal.append(act[b, i] == A.uf('tanh', mu))
              continue
            sig = (A.uf('softplus', raw) + z3.RealVal(str(ms))) * vs
            pre.append(A.uf('softplus', raw) >= 0)
            x = mu + sig * eps[b, i]
            goal += [extra['raw_action'][b, i] == x, act[b, i] == A.uf('tanh', x)]
            z = (x - mu) / sig
            lp = lp + (-z * z / 2 - A.uf('log', sig) - z3.RealVal(str(Fraction(float(0.5 * jp.log(2.0 * jp.pi))))) - A.uf('fldj', x))
          if not deterministic:
            goal.append(extra['log_prob'][b] == lp)
          elif extra != {}:
            goal.append(False)
        res.append(smt_prove(A, pre, goal, timeout_s=60, seed=seed()))
    r = combine(res)
    if r.verdict == REFUTED:
      r.replay = _native_inference()
    return r
  return Obligation('C20/ppo.make_inference_fn/contract', 'brax.training.agents.ppo.networks:make_inference_fn + brax.training.networks:make_policy_network.apply',
                    'the MLP receives (obs - mean)/std; stochastic: returns (tanh(x), {log_prob: log_prob(logits, x), raw_action: x}) with x = mu + sigma*eps; '
                    'deterministic: returns tanh(mu) and no extras', run, backend='smt', budget=300,
                    assumes=('flax MLP cut: arbitrary function of its inputs',))


def _native_inference():
  from brax.training.agents.ppo import networks as ppo_networks
  from brax.training.acme import running_statistics as rs
  D = _d()
  nets = ppo_networks.make_ppo_networks(3, 2, preprocess_observations_fn=rs.normalize, policy_hidden_layer_sizes=(4,), value_hidden_layer_sizes=(4,))
  key = jax.random.PRNGKey(0)
  pp = nets.policy_network.init(key)
  norm = rs.NestedMeanStd(mean=jp.array([0.5, -1.0, 2.0]), std=jp.array([2.0, 0.5, 1.5]))
  obs = jax.random.normal(jax.random.PRNGKey(1), (4, 3))
  act, ex = ppo_networks.make_inference_fn(nets)((norm, pp))(obs, jax.random.PRNGKey(2))
  logits = nets.policy_network.apply(norm, pp, obs)
  logits_manual = nets.policy_network.apply(rs.NestedMeanStd(mean=jp.zeros(3), std=jp.ones(3)), pp, (obs - norm.mean) / norm.std)
  bad = []
  if not np.allclose(np.asarray(logits), np.asarray(logits_manual), atol=1e-6):
    bad.append('observations are not normalised as (obs-mean)/std')
  if not np.allclose(np.asarray(act), np.tanh(np.asarray(ex['raw_action'])), atol=1e-6):
    bad.append('action != tanh(raw_action)')
  import math
  lg, ra = np.asarray(logits, dtype=float), np.asarray(ex['raw_action'], dtype=float)
  want = np.zeros(4)
  for b in range(4):
    for i in range(2):
      sig = math.log1p(math.exp(lg[b, 2 + i])) + 0.001
      want[b] += -0.5 * ((ra[b, i] - lg[b, i]) / sig) ** 2 - math.log(sig) - 0.5 * math.log(2 * math.pi) - math.log(1 - math.tanh(ra[b, i]) ** 2)
  if not np.allclose(want, np.asarray(ex['log_prob']), atol=1e-4):
    bad.append('log_prob extra != normal log-density - log(1 - tanh^2) at the raw action: %s vs %s' % (np.asarray(ex['log_prob']).tolist(), want.tolist()))
  actd, exd = ppo_networks.make_inference_fn(nets)((norm, pp), deterministic=True)(obs, jax.random.PRNGKey(2))
  if not np.allclose(np.asarray(actd), np.tanh(np.asarray(logits)[:, :2]), atol=1e-6):
    bad.append('deterministic action != tanh(loc)')
  return {'reproduced': bool(bad), 'what': bad}


def bounded(tier):
  def run():
    import mpmath
    D = _d()
    mpmath.mp.dps = 50
    rng = np.random.RandomState(seed() + 9)
    n = 200 if tier == 'quick' else 5000
    xs = np.concatenate([rng.uniform(-40, 40, n), [0.0, 40.0, -40.0, 1e-9, -1e-9, 20.0, -20.0]])
    worst = {32: 0.0, 64: 0.0}
    evals = 0
    for dt, tol in ((jp.float32, 2e-5), (jp.float64, 1e-12)):
      got = np.asarray(D.TanhBijector().forward_log_det_jacobian(jp.asarray(xs, dtype=dt)), dtype=float)
      for x, g in zip(xs, got):
        xx = mpmath.mpf(float(np.asarray(x, dtype=np.float32 if dt == jp.float32 else np.float64)))
        ax = abs(xx)
        want = mpmath.log(4) - 2 * ax - 2 * mpmath.log1p(mpmath.exp(-2 * ax))          # log(1 - tanh^2 x), stable closed form
        err = abs(float(g) - float(want)) / max(1.0, abs(float(want)))
        evals += 1
        worst[32 if dt == jp.float32 else 64] = max(worst[32 if dt == jp.float32 else 64], err)
        if not np.isfinite(g) or err > tol:
          return Result(REFUTED, 'log-det-Jacobian inaccurate/non-finite at x=%r (%s): %r vs %s' % (float(x), dt.__name__, float(g), want),
                        witness={'x': float(x)}, replay={'reproduced': True, 'observed': float(g), 'expected': float(want)})
    # density of the squashed action integrates to one (1-d), by change of variables on a grid in pre-squash space
    d = D.NormalTanhDistribution(1, min_std=0.01, var_scale=1.0)
    tot_err = 0.0
    for mu, raw in ((0.0, 0.5), (1.5, -1.0), (-2.0, 1.0)):
      x = jp.linspace(-30, 30, 200001)
      lp = d.log_prob(jp.array([mu, raw]), x[:, None])
      dens_y = jp.exp(lp)                       # density wrt y = tanh(x)
      dy = 1 - jp.tanh(x) ** 2                  # dy/dx
      integral = float(jp.trapezoid(dens_y * dy, x))
      evals += 1
      tot_err = max(tot_err, abs(integral - 1))
      if abs(integral - 1) > 1e-4:
        return Result(REFUTED, 'squashed density integrates to %g for (mu, raw)=(%g, %g)' % (integral, mu, raw), replay={'reproduced': True, 'integral': integral})
    return Result(PROVED, 'bounded: %d evaluations; worst relative error float32 %.1e, float64 %.1e; |integral - 1| <= %.1e' % (evals, worst[32], worst[64], tot_err),
                  stats={'evaluations': evals, 'distinct_nontrivial': evals - 6})
  return Obligation('C20/bounded/fldj_accuracy', 'brax.training.distribution:TanhBijector.forward_log_det_jacobian', 'BOUNDED: finite and accurate for |x| <= 40 in float32/64 '
                    'against mpmath; squashed density integrates to one numerically', run, backend='bounded', kind='bounded', budget=600)


def obligations(tier):
  Q, Th = ('quick', 'thorough'), ('thorough',)
  D = _d
  obs = [log_prob_formula(1, (), Q), log_prob_formula(2, (), Q), log_prob_formula(3, (), Th), log_prob_formula(2, (2,), Q), log_prob_formula(1, (2, 2), Th)]
  obs.append(sym_identity('C20/TanhBijector.fldj/identity', 'brax.training.distribution:TanhBijector.forward_log_det_jacobian',
                          '2(log 2 - x - softplus(-2x)) = log(1 - tanh^2 x) = log d tanh(x)/dx for all real x (real code incl. jax.nn.softplus inlined)',
                          lambda x: _d().TanhBijector().forward_log_det_jacobian(x), lambda A, x: A.sp.log(1 - A.sp.tanh(x) ** 2)))
  obs.append(sym_identity('C20/softplus/def', 'jax.nn:softplus (external, verified here against its definition)',
                          'jax.nn.softplus(x) = log(1 + e^x) for all real x (so softplus > 0: the axiom used by the SMT obligations)',
                          lambda x: jax.nn.softplus(x), lambda A, x: A.sp.log(1 + A.sp.exp(x))))
  obs += [scale_floor(), sample_mode(), entropy_formula(), inference_fn(), bounded(tier)]

  def canary(A):
    import z3
    D_ = _d()
    params, x = A.arr('p', (2,)), A.arr('x', (1,))
    I = Interp(A, cuts=CUTS)
    lp = sym_call(I, lambda p, a: D_.NormalTanhDistribution(1).log_prob(p, a), Sym(params), Sym(x))
    sig = (A.uf('softplus', params[1]) + z3.RealVal(str(Fraction(0.001)))) * 1
    z = (x[0] - params[0]) / sig
    fldj = A.uf('fldj', x[0])
    return [A.uf('softplus', params[1]) >= 0], [lp.item() == -z * z / 2 - A.uf('log', sig) - z3.RealVal(str(Fraction(float(0.5 * jp.log(2.0 * jp.pi))))) + fldj]
  obs.append(smt_custom('C20/canary/jacobian_sign', 'brax.training.distribution:ParametricDistribution.log_prob', 'CANARY: log_prob ADDS the log-det-Jacobian (must be refuted)',
                        canary, kind='canary', cut_targets=('jax.nn:softplus', FLDJ)))
  return obs
