"""C14 -- unsupported models are rejected, accepted models load consistently.

validate_model is executed path-exhaustively (Engine P) on the REAL function with a proxy MjModel whose real-valued fields are
symbolic and whose discrete structure (joint-type vector, joint->body grouping, geom types, collision bits, limited flags) is
enumerated.  For every feature predicate F_k:  (path accepts) & F_k  is unsatisfiable."""
from __future__ import annotations
import ast
import itertools
import os
import types
from fractions import Fraction
import numpy as np

from verif.contracts.common import (Obligation, Result, PROVED, REFUTED, UNDECIDED, ERROR, seed)
from verif.engine import pathexec as px

LEVEL = 'other'
EXPECTED_MIN = {'quick': 12, 'thorough': 18}
EXPLANATION = ('PROVED: validate_model rejects every model exhibiting one of 16 unsupported-feature predicates, wherever the feature sits, for all '
               'real-valued field values, at every enumerated model structure (path-exhaustive execution of the real function, z3 on path conditions); the '
               'validate_model call dominates each native pipeline init (AST); System index helpers agree with the per-type widths for all type strings <= 6; load_model (the real function on a proxy MjModel with symbolic '
               'real-valued fields, enumerated structures of 1-3 bodies) builds a System whose link types, parents, coordinate widths, link frames, joint anchors, inertias, dof axes / limits / stiffness / '
               'armature / damping, actuator indices / gains / ranges and init_q are the source-model values, for all field values. '
               'BOUNDED (not proof): mjcf.loads + pipeline.init on generated XML documents with one injected feature, and structural facts of accepted models vs MuJoCo.')
TRUSTED = ['the feature predicates F_k are my reading of the property text', 'numpy object-array semantics (any/all/==) on proxies']
ASSUMPTIONS = ['model sizes njnt <= 3, ngeom <= 2, nu <= 2 (structure enumerated, values symbolic)',
               'the MuJoCo compiler (XML -> MjModel) is covered only by the bounded stand-in; in the load_model clause mjx.put_model and the final jax.tree.map(jp.array, sys) are shimmed (dropped: device model / placement)',
               'jnt_range / jnt_limited / contype / conaffinity are enumerated concretely']
BOUNDED_RULE = 'generated MJCF documents (clean or with exactly one unsupported feature injected) x 3 pipeline inits; non-trivial = distinct (document, feature) pairs'

QW = {0: 7, 1: 4, 2: 1, 3: 1}


def _mjcf():
  from brax.io import mjcf
  return mjcf


QDW = {0: 6, 1: 3, 2: 1, 3: 1}


def _struct(jtypes, bodies, gtypes, nu):
  """the derived index fields of an MjModel with this structure (all concrete)"""
  njnt = len(jtypes)
  qadr = np.cumsum([0] + [QW[t] for t in jtypes])[:-1]
  dadr = np.cumsum([0] + [QDW[t] for t in jtypes])[:-1]
  nq, nv = sum(QW[t] for t in jtypes), sum(QDW[t] for t in jtypes)
  dof_jnt = np.array([j for j, t in enumerate(jtypes) for _ in range(QDW[t])], dtype=int)
  nbody = max(bodies) + 1
  return dict(jnt_qposadr=np.array(qadr, dtype=int), jnt_dofadr=np.array(dadr, dtype=int), nq=nq, nv=nv, njnt=njnt, ngeom=len(gtypes), nu=nu, nbody=nbody,
              dof_jntid=dof_jnt, dof_bodyid=np.array([bodies[j] for j in dof_jnt], dtype=int), body_parentid=np.array([0] + list(range(0, nbody - 1)), dtype=int),
              geom_bodyid=np.array([min(nbody - 1, 1 + g) for g in range(len(gtypes))], dtype=int),
              body_jntnum=np.array([sum(1 for b in bodies if b == k) for k in range(nbody)], dtype=int),
              body_jntadr=np.array([next((j for j, b in enumerate(bodies) if b == k), -1) for k in range(nbody)], dtype=int))


def make_mj(jtypes, bodies, limited, gtypes, con, nu):
  """proxy MjModel: structure concrete, values symbolic"""
  import z3
  njnt, ngeom = len(jtypes), len(gtypes)
  nq = sum(QW[t] for t in jtypes)
  R = lambda n: px.SN(z3.Real(n))
  opt = types.SimpleNamespace(integrator=R('integrator'), cone=R('cone'), wind=px.symarr('wind', (3,)), impratio=R('impratio'))
  jr = np.zeros((njnt, 2))
  jr[:, 0], jr[:, 1] = -1.0, 1.0
  return types.SimpleNamespace(
      **_struct(jtypes, bodies, gtypes, nu),
      opt=opt, geom_fluid=px.symarr('fluid', (ngeom, 2)), actuator_biastype=px.symarr('biastype', (nu,)),
      actuator_gaintype=px.symarr('gaintype', (nu,)), actuator_trntype=px.symarr('trntype', (nu,)),
      geom_solmix=px.symarr('solmix', (ngeom,)), geom_priority=px.symarr('prio', (ngeom,)),
      jnt_type=np.array(jtypes), qpos0=px.symarr('qpos0', (nq,)), jnt_bodyid=np.array(bodies), jnt_pos=px.symarr('jpos', (njnt, 3)),
      jnt_range=jr, jnt_limited=np.array(limited), jnt_stiffness=px.symarr('stiff', (njnt,)),
      geom_type=np.array(gtypes, dtype=np.int32), geom_contype=np.array([c[0] for c in con], dtype=np.int32), geom_conaffinity=np.array([c[1] for c in con], dtype=np.int32),
      geom_size=px.symarr('gsize', (ngeom, 3)))


def features(jtypes, bodies, limited, gtypes, con, nu):
  """feature predicates as z3 formulas over the proxy's symbols (None if structurally decided: then a bool)"""
  import z3
  njnt, ngeom = len(jtypes), len(gtypes)
  R, V = z3.Real, lambda n, idx: z3.Real(n + ''.join('_%d' % i for i in idx))
  F = {}
  F['integrator!=euler'] = R('integrator') != 0
  F['cone!=pyramidal'] = R('cone') != 0
  F['ellipsoid-fluid'] = z3.Or(*[V('fluid', (g, k)) != 0 for g in range(ngeom) for k in range(2)])
  F['wind'] = z3.Or(*[V('wind', (i,)) != 0 for i in range(3)])
  F['impratio!=1'] = R('impratio') != 1
  if nu:
    F['biastype'] = z3.Or(*[z3.And(V('biastype', (i,)) != 0, V('biastype', (i,)) != 1) for i in range(nu)])
    F['gaintype'] = z3.Or(*[V('gaintype', (i,)) != 0 for i in range(nu)])
    F['trntype'] = z3.Or(*[V('trntype', (i,)) != 0 for i in range(nu)])
  if ngeom > 1:
    F['solmix-mixed'] = z3.Or(*[V('solmix', (i,)) != V('solmix', (0,)) for i in range(1, ngeom)])
    F['priority-mixed'] = z3.Or(*[V('prio', (i,)) != V('prio', (0,)) for i in range(1, ngeom)])
  # joint reference offsets: non-free joint coordinate with qpos0 != 0
  terms, off = [], 0
  for t in jtypes:
    if t != 0:
      terms += [V('qpos0', (off + k,)) != 0 for k in range(QW[t])]
    off += QW[t]
  if terms:
    F['joint-ref'] = z3.Or(*terms)
  # stacked joints with different anchors
  terms = []
  for b in sorted(set(bodies)):
    js = [j for j in range(njnt) if bodies[j] == b]
    for j in js[1:]:
      terms.append(z3.Or(*[V('jpos', (j, k)) != V('jpos', (js[0], k)) for k in range(3)]))
  if terms:
    F['stack-anchors-differ'] = z3.Or(*terms)
  terms = [V('stiff', (j,)) > 0 for j in range(njnt) if jtypes[j] == 0]
  if terms:
    F['free-joint-stiffness'] = z3.Or(*terms)
  F['ball-joint'] = any(t == 1 for t in jtypes)
  F['free-in-stack'] = any(jtypes[j] == 0 and sum(1 for k in range(njnt) if bodies[k] == bodies[j]) > 1 for j in range(njnt))
  terms = [V('gsize', (g, 1)) > z3.RealVal(str(Fraction(0.001))) for g in range(ngeom) if gtypes[g] == 5 and (con[g][0] != 0 or con[g][1] != 0)]
  if terms:
    F['colliding-long-cylinder'] = z3.Or(*terms)
  return F


def structures(tier):
  """enumerated discrete structures"""
  out = []
  jt_sets = []
  for n in (1, 2, 3):
    for jt in itertools.product((0, 1, 2, 3), repeat=n):
      jt_sets.append(jt)
  groupings = {1: [[1]], 2: [[1, 1], [1, 2]], 3: [[1, 1, 1], [1, 1, 2], [1, 2, 2], [1, 2, 3]]}
  geoms = [((2,), ((1, 1),)), ((5, 2), ((1, 1), (0, 0))), ((2, 5), ((0, 0), (0, 1))), ((5, 5), ((0, 0), (1, 0)))]
  rng = np.random.RandomState(seed() + 3)
  for jt in jt_sets:
    for bodies in groupings[len(jt)]:
      lim = tuple(int(rng.randint(0, 2)) for _ in jt)
      g = geoms[(len(out)) % len(geoms)]
      nu = (len(out) % 3)
      out.append((jt, tuple(bodies), lim, g[0], g[1], nu))
  if tier == 'quick':
    keep = [s for s in out if len(s[0]) <= 2] + [s for i, s in enumerate(out) if len(s[0]) == 3 and i % 7 == 0]
    return keep
  return out


def rejects(tier, shard, nshards):
  def run():
    import z3
    mjcf = _mjcf()
    structs = structures(tier)[shard::nshards]
    npaths = nacc = nchecks = 0
    per_feature = {}
    for (jt, bodies, lim, gt, con, nu) in structs:
      paths = px.explore(lambda: mjcf.validate_model(make_mj(jt, bodies, lim, gt, con, nu)), catch=(NotImplementedError, RuntimeError))
      F = features(jt, bodies, lim, gt, con, nu)
      acc = [p for p in paths if p.outcome == 'return']
      npaths += len(paths)
      nacc += len(acc)
      for name, f in F.items():
        per_feature[name] = per_feature.get(name, 0) + 1
        if isinstance(f, bool):
          if f and acc:
            return Result(REFUTED, 'structure jnt_type=%s bodies=%s has feature %s but validate_model accepts on %d paths' % (jt, bodies, name, len(acc)),
                          witness={'jnt_type': list(jt), 'jnt_bodyid': list(bodies), 'feature': name},
                          replay=_concrete(jt, bodies, lim, gt, con, nu, None))
          continue
        for p in acc:
          nchecks += 1
          s = z3.Solver()
          s.set('timeout', 10000)
          s.add(*p.pc)
          s.add(f)
          r = s.check()
          if r == z3.sat:
            m = s.model()
            return Result(REFUTED, 'feature %s present but validate_model accepts (jnt_type=%s bodies=%s geoms=%s nu=%d)' % (name, jt, bodies, gt, nu),
                          witness={'feature': name, 'model': str(m)[:800], 'jnt_type': list(jt), 'jnt_bodyid': list(bodies)},
                          replay=_concrete(jt, bodies, lim, gt, con, nu, m), solver_output=str(m)[:2000])
          if r == z3.unknown:
            return Result(UNDECIDED, 'z3 unknown on accept-path & %s' % name)
      # clean model of this structure (if structurally clean) must be accepted
      if not any(isinstance(f, bool) and f for f in F.values()):
        ok = _concrete(jt, bodies, lim, gt, con, nu, None, clean=True)
        if ok.get('raised'):
          return Result(REFUTED, 'clean model (no listed feature) rejected: %s' % ok['raised'], witness={'jnt_type': list(jt), 'jnt_bodyid': list(bodies)},
                        replay={'reproduced': True, **ok})
    if nchecks == 0 or nacc == 0:
      return Result(ERROR, 'no accepting path explored (vacuous)')
    return Result(PROVED, '%d structures, %d paths of the real validate_model (%d accepting); accept & F_k unsat for all %d feature predicates (%d path checks)'
                  % (len(structs), npaths, nacc, len(per_feature), nchecks),
                  stats={'structures': len(structs), 'paths': npaths, 'accepting_paths': nacc, 'queries': nchecks, 'features': sorted(per_feature),
                         'solver_calls': px._STATS['solver_calls']})
  return Obligation('C14/validate_model/rejects[%d/%d]' % (shard + 1, nshards), 'brax.io.mjcf:validate_model',
                    'for each of the unsupported-feature predicates F_k (non-Euler integrator, elliptic cone, ellipsoid fluid, wind, impratio != 1, biastype, gaintype, '
                    'non-joint transmission, mixed solmix, mixed priority, joint ref, stacked anchors differ, free-joint stiffness, ball joint, free joint in a stack, '
                    'colliding long cylinder): F_k(mj) => validate_model raises, wherever the feature sits, for all field values; and a model with no feature is accepted',
                    run, backend='path', budget=900)


def _concrete(jt, bodies, lim, gt, con, nu, model, clean=False):
  """run the real validate_model on a concrete SimpleNamespace built from the z3 model (or the clean assignment)"""
  import z3
  mjcf = _mjcf()
  njnt, ngeom = len(jt), len(gt)
  nq = sum(QW[t] for t in jt)

  def val(name, idx, default):
    if model is None:
      return default
    v = model.eval(z3.Real(name + ''.join('_%d' % i for i in idx)), model_completion=True)
    try:
      return float(v.numerator_as_long()) / float(v.denominator_as_long())
    except Exception:      # noqa: BLE001
      return default

  def arr(name, shape, default):
    a = np.zeros(shape)
    for idx in np.ndindex(*shape):
      a[idx] = val(name, idx, default)
    return a
  opt = types.SimpleNamespace(integrator=val('integrator', (), 0), cone=val('cone', (), 0), wind=arr('wind', (3,), 0), impratio=val('impratio', (), 1))
  jr = np.zeros((njnt, 2))
  jr[:, 0], jr[:, 1] = -1.0, 1.0
  mj = types.SimpleNamespace(**_struct(jt, bodies, gt, nu), opt=opt, geom_fluid=arr('fluid', (ngeom, 2), 0), actuator_biastype=arr('biastype', (nu,), 0), actuator_gaintype=arr('gaintype', (nu,), 0),
                             actuator_trntype=arr('trntype', (nu,), 0), geom_solmix=arr('solmix', (ngeom,), 1), geom_priority=arr('prio', (ngeom,), 0),
                             jnt_type=np.array(jt), qpos0=arr('qpos0', (nq,), 0), jnt_bodyid=np.array(bodies), jnt_pos=arr('jpos', (njnt, 3), 0),
                             jnt_range=jr, jnt_limited=np.array(lim), jnt_stiffness=arr('stiff', (njnt,), 0), geom_type=np.array(gt),
                             geom_contype=np.array([c[0] for c in con], dtype=np.int32), geom_conaffinity=np.array([c[1] for c in con], dtype=np.int32), geom_size=arr('gsize', (ngeom, 3), 0.0005))
  try:
    mjcf.validate_model(mj)
    return {'reproduced': not clean, 'accepted': True}
  except (NotImplementedError, RuntimeError) as e:
    return {'reproduced': False, 'raised': str(e)}


def init_dominates():
  def run():
    import brax
    bad = []
    for pl in ('generalized', 'spring', 'positional'):
      path = os.path.join(os.path.dirname(brax.__file__), pl, 'pipeline.py')
      tree = ast.parse(open(path).read())
      fn = [n for n in tree.body if isinstance(n, ast.FunctionDef) and n.name == 'init']
      if len(fn) != 1:
        bad.append('%s: init not found' % pl)
        continue
      body = [s for s in fn[0].body if not (isinstance(s, ast.Expr) and isinstance(getattr(s, 'value', None), ast.Constant))]
      first = body[0]
      ok = (isinstance(first, ast.If) and ast.unparse(first.test) == 'sys.mj_model is not None' and len(first.body) >= 1
            and isinstance(first.body[0], ast.Expr) and ast.unparse(first.body[0].value) == 'mjcf.validate_model(sys.mj_model)' and not first.orelse)
      if not ok:
        bad.append('%s: first statement of init is `%s`' % (pl, ast.unparse(first)[:80]))
    if bad:
      return Result(REFUTED, 'validate_model does not dominate init: %s' % bad, replay=_replay_init())
    return Result(PROVED, 'in generalized/spring/positional pipeline.init the first statement is `if sys.mj_model is not None: mjcf.validate_model(sys.mj_model)`; '
                  'it dominates every other statement', stats={'files': 3})
  return Obligation('C14/pipeline.init/validates', 'brax.{generalized,spring,positional}.pipeline:init',
                    'the validate_model(sys.mj_model) call, guarded only by `sys.mj_model is not None`, dominates every other statement of init (AST check of the real files)',
                    run, backend='ast', budget=60)


BALL_XML = '''<mujoco><worldbody><body name="a" pos="0 0 1"><joint type="ball"/><geom size="0.1"/></body></worldbody></mujoco>'''


def _replay_init():
  import jax.numpy as jp
  mjcf = _mjcf()
  out = {}
  from brax.generalized import pipeline as g
  from brax.spring import pipeline as s
  from brax.positional import pipeline as p
  try:
    sys = mjcf.loads(BALL_XML)
  except Exception as e:      # noqa: BLE001
    return {'reproduced': False, 'note': 'loader itself rejects: %s' % e}
  acc = []
  for nm, pl in (('generalized', g), ('spring', s), ('positional', p)):
    try:
      pl.init(sys, sys.init_q, jp.zeros(sys.qd_size()))
      acc.append(nm)
    except (NotImplementedError, RuntimeError):
      pass
    except Exception as e:      # noqa: BLE001
      acc.append('%s (crashed later: %s)' % (nm, type(e).__name__))
  return {'reproduced': bool(acc), 'pipelines_accepting_a_ball_joint_model': acc}


def system_helpers():
  def run():
    from brax import base
    QW_, QDW = base.Q_WIDTHS, base.QD_WIDTHS
    n = 0
    for L in range(1, 7):
      for ts in itertools.product('f123', repeat=L):
        if L > 4 and (hash(ts) % 5):
          continue
        ts = ''.join(ts)
        sys = types.SimpleNamespace(link_types=ts, link_parents=tuple(range(-1, L - 1)))
        S = base.System
        n += 1
        nq, nv = sum(QW_[t] for t in ts), sum(QDW[t] for t in ts)
        if S.num_links(sys) != L:
          return Result(REFUTED, 'num_links(%s)' % ts, replay={'reproduced': True})
        sys.num_links = lambda L=L: L
        dl = list(np.asarray(S.dof_link(sys)))
        want_dl = [i for i, t in enumerate(ts) for _ in range(QDW[t])]
        dr = S.dof_ranges(sys)
        flat = [d for r in dr for d in r]
        if dl != want_dl or flat != list(range(nv)) or [len(r) for r in dr] != [QDW[t] for t in ts]:
          return Result(REFUTED, 'dof_link/dof_ranges(%s): %s %s' % (ts, dl, dr), witness={'link_types': ts}, replay={'reproduced': True})
        allq, allqd = [], []
        for typ in 'f123':
          qi, qdi = list(np.asarray(S.q_idx(sys, typ)).astype(int)), list(np.asarray(S.qd_idx(sys, typ)).astype(int))
          allq += qi
          allqd += qdi
          wq, off = [], 0
          for t in ts:
            if t == typ:
              wq += list(range(off, off + QW_[t]))
            off += QW_[t]
          if qi != wq:
            return Result(REFUTED, 'q_idx(%s,%s) = %s != %s' % (ts, typ, qi, wq), witness={'link_types': ts}, replay={'reproduced': True})
        if sorted(allq) != list(range(nq)) or sorted(allqd) != list(range(nv)):
          return Result(REFUTED, 'q_idx/qd_idx do not partition the coordinates for %s' % ts, witness={'link_types': ts}, replay={'reproduced': True})
    return Result(PROVED, 'all %d type strings: q_idx/qd_idx partition [0,nq)/[0,nv) by type in order, dof_link and dof_ranges agree with QD_WIDTHS' % n,
                  stats={'type_strings': n, 'exhaustive_up_to': 4})
  return Obligation('C14/System/index_helpers', 'brax.base:System.q_idx,qd_idx,dof_link,dof_ranges,num_links',
                    'for every link-type string (exhaustive to length 4, sampled to 6): the per-type q/qd index sets are the contiguous per-link blocks, they '
                    'partition the coordinate ranges, dof_link/dof_ranges follow QD_WIDTHS', run, backend='enum', budget=300)


def obligations(tier):
  ns = 8 if tier == 'quick' else 14
  obs = [rejects(tier, k, ns) for k in range(ns)] + [init_dominates(), system_helpers()]
  from verif.contracts import C14b, C14c
  obs += C14c.obligations(tier)
  obs += C14b.obligations(tier)

  def canary():
    import z3
    mjcf = _mjcf()
    jt, bodies, lim, gt, con, nu = (3,), (1,), (0,), (2,), ((1, 1),), 1
    paths = px.explore(lambda: mjcf.validate_model(make_mj(jt, bodies, lim, gt, con, nu)), catch=(NotImplementedError, RuntimeError))
    for p in paths:
      if p.outcome == 'return':
        s = z3.Solver()
        s.add(*p.pc)
        s.add(z3.Real('gsize_0_1') > 1)       # a long NON-cylinder is fine: claiming it is rejected must fail
        if s.check() == z3.sat:
          return Result(REFUTED, 'as expected: a sphere with large size[1] is accepted')
    return Result(PROVED, 'canary not refuted')
  obs.append(Obligation('C14/canary/sphere_size', 'brax.io.mjcf:validate_model', 'CANARY: every geom with size[1] > 1 is rejected (must be refuted)', canary, kind='canary', backend='path'))
  return obs
