"""C01 -- forward kinematics matches the reference engine for every model and pose."""
from __future__ import annotations
import itertools
from fractions import Fraction
import numpy as np
import jax
import jax.numpy as jp

from verif.contracts.common import (Obligation, Result, Sym, sym_call, Interp, RingAlg, Z3Alg, ring_equal, combine, smt_prove,
                                    PROVED, REFUTED, UNDECIDED, ERROR, is_sym, isc, seed, Stub)
from verif.contracts import cuts, physsys
from verif.specs import fk, sx

LEVEL = 'other'
EXPECTED_MIN = {'quick': 20, 'thorough': 30}
EXPLANATION = ('PROVED (exact normal form in Q[x]/<unit relations>): the link-step theorem -- for a link of every hinge/slide stack word under a FREE parent (an '
               'arbitrary parent pose and twist) and as a world-attached root, with every model parameter symbolic (any link transform, shared anchor, any unit axes, '
               'also non-orthogonal), kinematics.forward returns exactly the reference (MuJoCo mj_kinematics) pose; velocity clauses for free links and single '
               'hinge/slide joints anchored at the link origin; scan.tree / scan.link_types regroup and restore link order for every forest <= 4 links (exhaustive). '
               'Induction over tree depth (paper lemma) extends the pose theorem to every forest.  BOUNDED (not proof): forward vs the MuJoCo binary on generated models.')
TRUSTED = ['FK_spec transcribed from MuJoCo documentation (validated against the binary in the bounded check, not proved equal to it)',
           'paper lemma: induction over depth from link_step + root + regroup obligations',
           'brax.math.normalize used through its verified contract (C09/normalize/contract_*)']
ASSUMPTIONS = ['exact reals; slide coordinates with cos(q/2) > 0 (|q| <= 2 < pi)', 'velocities of stacked / offset-anchor joints are outside the claim (documented upstream TODO)',
               'the MuJoCo compiler (XML -> MjModel) is covered by the bounded check only; the MjModel -> System field mapping of load_model is a proved premise (C01/premise/load_model/mapping)']
BOUNDED_RULE = 'generator models (1-6 links) x random states; non-trivial = distinct (model, state) pairs'

WORDS = ['h', 's', 'hh', 'hs', 'sh', 'ss', 'hhh', 'hhs', 'hsh', 'shh', 'hss', 'shs', 'ssh', 'sss']
CUT = ('brax.math:normalize',)
CUTS = {'brax.math:normalize': cuts.normalize_ring}


def _forward(ss, q, qd, A, outputs):
  from brax import kinematics
  I = Interp(A, cuts=CUTS)

  def f(sys, q_, qd_):
    x, xd = kinematics.forward(sys, q_, qd_)
    return {'pos': x.pos, 'rot': x.rot, 'ang': xd.ang, 'vel': xd.vel}
  out = sym_call(I, f, ss.sys, Sym(q), Sym(qd))
  return out, I


def _cmp(A, got, want_lists, name):
  want = np.empty(np.shape(got), dtype=object)
  for idx in np.ndindex(*want.shape):
    w = want_lists
    for k in idx:
      w = w[k]
    want[idx] = w.v if isinstance(w, sx.X) else w
  return ring_equal(A, np.asarray(got, dtype=object), want, name=name)


def _native(xml, which, tol=1e-7):
  """native search: brax forward vs the transcribed spec in floats AND vs MuJoCo"""
  from verif.bounded import oracles
  return oracles.search_forward_mismatch(xml, which=which, tries=30, seed=seed())


def link_step(word, mode, which, tiers, origin=False, budget=600):
  """mode: 'free' (f+X) or 'root' (world-attached X); which: 'pose' or 'vel'"""
  tag = ('f+' if mode == 'free' else '') + word + ('@0' if origin else '')
  xml = (physsys.xml_free_parent if mode == 'free' else physsys.xml_world_root)(word, anchor='0 0 0' if origin else '0.1 -0.2 0.05')

  def run():
    from verif.engine.opaque import cut
    A = RingAlg()
    sys = physsys.load(xml)
    ss = physsys.SymSys(A, sys, origin_anchor=origin)
    ss.declare_units()
    q, qd = ss.state()
    ss.slide_hints(q)
    with cut(*CUT):
      out, I = _forward(ss, q, qd, A, which)
    pos, quat, angv, linv = fk.fk(A, ss, q, qd, with_vel=(which == 'vel'))
    i = sys.num_links() - 1
    if which == 'pose':
      rs = [_cmp(A, out['pos'], pos, 'pos'), _cmp(A, out['rot'], quat, 'rot')]
    else:
      if angv[i] is None:
        return Result(ERROR, 'configuration is outside the velocity claim')
      rs = [_cmp(A, out['ang'], angv, 'ang'), _cmp(A, out['vel'], linv, 'vel')]
    r = combine(rs)
    r.stats.update({'peak_terms': A.peak, 'generators': len(A.names), 'eqns': I.stats['eqns'],
                    'branch_hints': sorted({'%s := %s (%s)' % h for h in A.hints_used}), 'cut_side_conditions': sorted(set(I.side_notes))[:6]})
    if r.verdict == REFUTED:
      r.replay = _native(xml, which)
    return r
  return Obligation('C01/forward/link_step_%s[%s]' % (which, tag), 'brax.kinematics:forward (jcalc, anchor offset, world, scan.tree)',
                    {'pose': 'child x.pos, x.rot = FK_spec for ALL parent poses, link transforms (unit quaternion), anchors, unit axes, joint coordinates',
                     'vel': 'xd.ang, xd.vel = reference twist: hinge w = w_p + R(x.rot) axis qd, v = v_p + w_p x (x - x_p); slide v += R(x.rot) axis qd; free root v = qd[0:3], w = R(q) qd[3:6]'}[which],
                    run, backend='ring', tiers=tiers, budget=budget)


def free_root(which):
  def run():
    from verif.engine.opaque import cut
    A = RingAlg()
    sys = physsys.load(physsys.xml_free())
    ss = physsys.SymSys(A, sys)
    q, qd = ss.state()
    with cut(*CUT):
      out, I = _forward(ss, q, qd, A, which)
    pos, quat, angv, linv = fk.fk(A, ss, q, qd, with_vel=True)
    rs = [_cmp(A, out['pos'], pos, 'pos'), _cmp(A, out['rot'], quat, 'rot')] if which == 'pose' else [_cmp(A, out['ang'], angv, 'ang'), _cmp(A, out['vel'], linv, 'vel')]
    r = combine(rs)
    if r.verdict == REFUTED:
      r.replay = _native(physsys.xml_free(), which)
    return r
  return Obligation('C01/forward/link_step_%s[f]' % which, 'brax.kinematics:forward', 'free root: pose = (q[0:3], q[3:7]); v = qd[0:3], w = R(q_rot) qd[3:6]', run, backend='ring', budget=200)


# ---- scan bookkeeping ----------------------------------------------------------------------------------------------------
def forests(n):
  """all parent vectors of forests with n links (parents before children)"""
  out = [[]]
  for i in range(n):
    out = [p + [k] for p in out for k in range(-1, i)]
  return [tuple(p) for p in out]


def regroup_tree(nmax):
  def run():
    from brax import scan
    from brax.base import Q_WIDTHS, QD_WIDTHS
    count = 0
    rng = np.random.RandomState(seed())
    for n in range(1, nmax + 1):
      for parents in forests(n):
        # link types: free only at roots; sample a few type strings per topology
        cands = []
        for _ in range(3 if n > 2 else 6):
          ts = ''.join(('f' if (parents[i] == -1 and rng.rand() < 0.4) else str(rng.randint(1, 4))) for i in range(n))
          cands.append(ts)
        for ts in set(cands):
          for reverse in (False, True):
            count += 1
            sys = Stub(static={'link_types': ts, 'link_parents': parents})
            nq, nv = sum(Q_WIDTHS[t] for t in ts), sum(QD_WIDTHS[t] for t in ts)
            L, Qv, Dv = np.arange(n, dtype=float) + 1, np.arange(nq, dtype=float) + 101, np.arange(nv, dtype=float) + 201
            calls = []

            def f(y, l, qq, dd):
              calls.append((None if y is None else np.asarray(y), np.asarray(l), np.asarray(qq), np.asarray(dd)))
              # result: own id + 1000 * carried value (parent's result for forward, summed children for reverse)
              return l + (0 if y is None else 1000.0 * y)
            out = np.asarray(scan.tree(sys, f, 'lqd', jp.asarray(L), jp.asarray(Qv), jp.asarray(Dv), reverse=reverse))
            depth = lambda i: 0 if parents[i] == -1 else 1 + depth(parents[i])
            # expected result, computed independently by recursion over the tree
            if not reverse:
              want = np.zeros(n)
              for i in range(n):
                want[i] = L[i] + (0 if parents[i] == -1 else 1000.0 * want[parents[i]])
            else:
              maxd = max(depth(i) for i in range(n))
              want = np.zeros(n)
              for i in sorted(range(n), key=lambda k: -depth(k)):
                ch = [c for c in range(n) if parents[c] == i]
                if depth(i) == maxd:
                  want[i] = L[i]
                else:
                  want[i] = L[i] + 1000.0 * sum(want[c] for c in ch)
            if not np.allclose(out, want):
              return Result(REFUTED, 'scan.tree(%s, parents=%s, reverse=%s): %s != %s' % (ts, parents, reverse, out, want),
                            witness={'link_types': ts, 'link_parents': list(parents), 'reverse': reverse}, replay={'reproduced': True, 'observed': out.tolist(), 'expected': want.tolist()})
            # every call receives exactly the links of one depth, in link order, with their q / qd blocks
            qoff = np.cumsum([0] + [Q_WIDTHS[t] for t in ts])
            doff = np.cumsum([0] + [QD_WIDTHS[t] for t in ts])
            for (y, l, qq, dd) in calls:
              ids = [int(v) - 1 for v in l]
              if len({depth(i) for i in ids}) != 1 or ids != sorted(ids) or ids != [i for i in range(n) if depth(i) == depth(ids[0])]:
                return Result(REFUTED, 'scan.tree call does not receive one whole depth level in link order: %s' % ids, witness={'link_types': ts, 'link_parents': list(parents)}, replay={'reproduced': True})
              wq = [101 + k for i in ids for k in range(qoff[i], qoff[i + 1])]
              wd = [201 + k for i in ids for k in range(doff[i], doff[i + 1])]
              if list(qq) != wq or list(dd) != wd:
                return Result(REFUTED, 'scan.tree passes wrong q/qd blocks for links %s' % ids, witness={'link_types': ts, 'link_parents': list(parents)}, replay={'reproduced': True})
    return Result(PROVED, '%d (forest, type string, direction) cases with an id payload: one call per depth with that depth\'s links/q/qd blocks in link order, carry = parent\'s '
                  'result (forward) or sum over children (reverse), outputs in link order' % count, stats={'cases': count, 'exhaustive_forests_up_to': nmax})
  return Obligation('C01/scan.tree/regroup[n<=%d]' % nmax, 'brax.scan:tree', 'for every forest with <= n links (exhaustive) and sampled type strings: f is called once per depth with exactly '
                    'that depth\'s sub-selected arguments in link order, the carry handed to depth d+1 is the parent\'s output, results are returned in link order; reverse sums children', run,
                    backend='enum+id-payload', budget=900)


def regroup_types(nmax):
  def run():
    from brax import scan
    from brax.base import Q_WIDTHS, QD_WIDTHS
    count = 0
    for n in range(1, nmax + 1):
      for ts in itertools.product('f123', repeat=n):
        ts = ''.join(ts)
        count += 1
        sys = Stub(static={'link_types': ts, 'link_parents': tuple([-1] * n)})
        nq, nv = sum(Q_WIDTHS[t] for t in ts), sum(QD_WIDTHS[t] for t in ts)
        L, Qv, Dv = np.arange(n, dtype=float) + 1, np.arange(nq, dtype=float) + 101, np.arange(nv, dtype=float) + 201
        seen = []

        def f(typ, l, qq, dd):
          seen.append(typ)
          # per-link output: id*10 + type code ; per-dof output: dof id
          code = {'f': 7, '1': 1, '2': 2, '3': 3}[typ]
          w = QD_WIDTHS[typ]
          if len(dd) != w * len(l) or len(qq) != Q_WIDTHS[typ] * len(l):
            raise AssertionError('wrong block widths for type %s' % typ)
          return l * 10 + code, dd
        lo, do = scan.link_types(sys, f, 'lqd', 'ld', jp.asarray(L), jp.asarray(Qv), jp.asarray(Dv))
        wl = [10 * (i + 1) + {'f': 7, '1': 1, '2': 2, '3': 3}[t] for i, t in enumerate(ts)]
        if list(np.asarray(lo)) != wl or list(np.asarray(do)) != list(Dv) or sorted(seen) != sorted(set(ts)):
          return Result(REFUTED, 'scan.link_types(%s): link out %s (want %s), dof out %s, types %s' % (ts, np.asarray(lo), wl, np.asarray(do), seen),
                        witness={'link_types': ts}, replay={'reproduced': True})
    return Result(PROVED, 'all %d type strings of length <= %d: f called once per type with that type\'s links and q/qd blocks, per-link and per-dof outputs restored to system order'
                  % (count, nmax), stats={'cases': count})
  return Obligation('C01/scan.link_types/regroup[n<=%d]' % nmax, 'brax.scan:link_types', 'every type string: one call per link type with the right sub-selection; outputs restored to link / dof order', run,
                    backend='enum+id-payload', budget=600)


def bounded(tier):
  def run():
    from verif.bounded import oracles
    n_models, n_states = (25, 3) if tier == 'quick' else (400, 5)
    return oracles.forward_vs_mujoco(n_models, n_states, seed())
  return Obligation('C01/bounded/forward_vs_mujoco', 'brax.kinematics:forward + brax.io.mjcf:load_model', 'BOUNDED: forward vs mj_forward xpos/xquat (up to sign) and mj_objectVelocity for links inside '
                    'the velocity claim, float64, tol 1e-9, generator models of 1-6 links', run, backend='bounded', kind='bounded', budget=2400)


def take_contract(nmax, kmax):
  """function-level contract of scan._take: for EVERY index list (repeats, gaps, descending runs, contiguous runs) the result is the gather obj[idxs] on every leaf.
  scan.tree / scan.link_types reach _take with index lists that the small forests of the regroup obligations cannot all produce (e.g. [0, 0, 2] needs 7 links):
  the callee contract covers them for all callers."""
  def run():
    import itertools
    from brax import scan
    count = 0
    for n in range(1, nmax + 1):
      payload = {'a': jp.arange(100, 100 + n), 'b': (jp.arange(7 * n).reshape(n, 7) + 1000.0)}          # distinct ids on every leaf (two leaf ranks)
      for k in range(1, kmax + 1):
        for idxs in itertools.product(range(n), repeat=k):
          idxs = list(idxs)
          out = scan._take(payload, idxs)
          wa = np.asarray(payload['a'])[idxs]
          wb = np.asarray(payload['b'])[idxs]
          count += 1
          if np.asarray(out['a']).shape != wa.shape or not np.array_equal(np.asarray(out['a']), wa) or not np.array_equal(np.asarray(out['b']), wb):
            return Result(REFUTED, 'scan._take(obj, %s) on %d rows returns rows %s' % (idxs, n, (np.asarray(out['a']) - 100).tolist()), witness={'idxs': idxs, 'rows': n},
                          replay={'reproduced': True, 'idxs': idxs, 'returned_rows': (np.asarray(out['a']) - 100).tolist(), 'expected_rows': idxs})
    return Result(PROVED, 'all %d index lists (rows <= %d, length <= %d): _take is the gather on every leaf (payload = element ids, so the statement is parametric in the data)' % (count, nmax, kmax),
                  stats={'index_lists': count})
  return Obligation('C01/scan._take/gather', 'brax.scan:_take', 'for EVERY index list idxs over n <= %d rows with len <= %d (repeats, gaps, any order): _take(obj, idxs)[i] = obj[idxs[i]] on every leaf of the pytree '
                    '(the contiguous-run shortcut included); exhaustive in the index list, parametric in the payload' % (nmax, kmax), run, backend='enum', budget=600)


def obligations(tier):
  Q, Th = ('quick', 'thorough'), ('thorough',)
  obs = []
  for w in WORDS:
    t = Th if w.count('h') == 3 else Q
    obs.append(link_step(w, 'free', 'pose', t, budget=1500 if w == 'hhh' else 600))
  for w in WORDS:
    obs.append(link_step(w, 'root', 'pose', Q if len(w) <= 2 else Th))
  obs.append(free_root('pose'))
  obs.append(free_root('vel'))
  for w in ('h', 's'):
    obs.append(link_step(w, 'free', 'vel', Q, origin=True))
    obs.append(link_step(w, 'root', 'vel', Q, origin=True))
  # "sys.link.transform / sys.link.joint / sys.dof.motion loaded from MJCF": load_model's field mapping (C14's contract on the real loader) as a premise
  from verif.contracts import C14c
  for ob in C14c.obligations(tier):
    ob.id = ob.id.replace('C14/', 'C01/premise/')
    obs.append(ob)
  obs += [regroup_tree(4), regroup_types(4 if tier == 'quick' else 5), take_contract(4, 4) if tier == 'quick' else take_contract(5, 5), bounded(tier)]

  def _sv():
    from brax import kinematics
    sys = physsys.load(physsys.xml_free_parent('hsh'))
    f = lambda q_, qd_: (lambda o: (o[0].pos, o[0].rot, o[1].ang, o[1].vel))(kinematics.forward(sys, q_, qd_))
    q0 = np.concatenate([np.array([0.1, 0.2, 0.3, 0.5, 0.5, -0.5, 0.5]), np.zeros(3)])
    return f, [q0, np.zeros(9)]
  from verif.contracts.common import engine_selfcheck
  obs.append(engine_selfcheck('C01/engine/self_validation[forward f+hsh]', 'brax.kinematics:forward', _sv))

  def canary():
    # pose claim with the anchor offset sign flipped in the spec must be refuted
    from verif.engine.opaque import cut
    A = RingAlg()
    sys = physsys.load(physsys.xml_world_root('h'))
    ss = physsys.SymSys(A, sys)
    ss.declare_units()
    q, qd = ss.state()
    with cut(*CUT):
      out, I = _forward(ss, q, qd, A, 'pose')
    ss.jp = np.array([[A.neg(e) if not isinstance(e, int) else -e for e in row] for row in ss.jp], dtype=object)
    pos, quat, _, _ = fk.fk(A, ss, q, qd)
    return _cmp(A, out['pos'], pos, 'pos')
  obs.append(Obligation('C01/canary/anchor_sign', 'brax.kinematics:forward', 'CANARY: FK_spec with the joint anchor negated (must be refuted)', canary, kind='canary', backend='ring', budget=300))
  return obs
