"""C15 -- Episode, auto-reset and evaluation wrappers keep exact episode accounting.

The wrapped environment is the havoc environment (verif.contracts.havoc): its step returns arbitrary values per member and
sub-step (done in {0,1}), so every clause holds for every environment and every termination pattern.  episode_length is a
symbolic integer L >= 1; action_repeat and the batch size are enumerated."""
from __future__ import annotations
import ast
import numpy as np
import jax
import jax.numpy as jp

from verif.contracts.common import (smt_custom, Obligation, Result, Sym, sym_call, Interp, Z3Alg, smt_prove, combine,
                                    PROVED, REFUTED, UNDECIDED, ERROR, is_sym, isc, seed)

LEVEL = 'proof'
EXPECTED_MIN = {'quick': 14, 'thorough': 20}
EXPLANATION = ('Transition contracts of EpisodeWrapper / AutoResetWrapper / EvalWrapper / actor_step / generate_unroll over a havoc environment, '
               'symbolic episode_length, plus the inductive invariant of the wrapped state; discharged by z3 over the jaxprs of the real wrappers.')
TRUSTED = ['paper lemma: induction over the step history from the transition contracts and the invariant (exact cut at L when action_repeat | L; '
           'otherwise at the first multiple of action_repeat >= L -- the property is read with that proviso)',
           'np.mean / np.std (Evaluator metrics are wired to them; wiring checked on concrete distinct arrays)']
ASSUMPTIONS = ['floats treated as exact reals', 'action_repeat in {1,2,3}, batch in {1,2}; episode_length symbolic',
               'brax/training/acting.py cannot be imported in the pinned environment (brax.v1): actor_step, generate_unroll and Evaluator are extracted '
               'by ast from the real file and executed in a namespace providing jax, numpy, time, Transition, envs; dropped: the import block']


def _tr():
  from brax.envs.wrappers import training
  return training


def _hv():
  from verif.contracts import havoc
  return havoc


def acting_ns():
  """the three definitions of brax/training/acting.py, extracted mechanically (imports dropped)"""
  import os
  import time
  import brax
  from brax import envs
  from brax.training.types import Transition
  path = os.path.join(os.path.dirname(brax.__file__), 'training', 'acting.py')
  tree = ast.parse(open(path).read())
  keep = [n for n in tree.body if isinstance(n, (ast.FunctionDef, ast.ClassDef)) and n.name in ('actor_step', 'generate_unroll', 'Evaluator')]
  if len(keep) != 3:
    raise AssertionError('acting.py: expected actor_step, generate_unroll, Evaluator; found %s' % [n.name for n in keep])
  mod = ast.Module(body=keep, type_ignores=[])
  from typing import Callable, Sequence, Tuple, Union
  ns = {'jax': jax, 'np': np, 'time': time, 'Transition': Transition, 'envs': envs, 'Callable': Callable, 'Sequence': Sequence,
        'Tuple': Tuple, 'Union': Union, 'State': envs.State, 'Env': envs.Env, 'Policy': object, 'PRNGKey': object,
        'PolicyParams': object, 'Metrics': object}
  exec(compile(mod, path, 'exec'), ns)
  return ns


def episode_step(ar, B, tiers):
  def body(A):
    import z3
    tr, hv = _tr(), _hv()
    members = list(range(B))
    st, raw = hv.sym_state(A, members)
    act = A.arr('act', (B, 1))
    L = A.var('L', 'I')
    rec = hv.Recorder(A, members)

    def f(state, action, ell):
      return tr.EpisodeWrapper(hv.HavocEnv(), ell, ar).step(state, action)
    new = sym_call(Interp(A, cuts=rec.cuts()), f, st, Sym(act), Sym(L, np.int32))
    if len(rec.step_calls) != ar:
      return [], [False]
    pre = [L >= 1]
    goal = []
    last = rec.step_calls[-1][1]
    for b in range(B):
      steps2 = raw['steps'][b] + ar
      cut = steps2 >= z3.ToReal(L)
      rsum = sum(c[1]['reward'][b] for c in rec.step_calls)
      goal += [new.info['steps'][b] == steps2, new.reward[b] == rsum,
               new.done[b] == z3.If(cut, 1, last['done'][b]),
               new.info['truncation'][b] == z3.If(cut, 1 - last['done'][b], 0),
               new.metrics['m'][b] == last['m'][b]]
      goal += [new.obs[b][i] == last['obs'][b][i] for i in range(hv.OBS)]
      goal += [new.pipeline_state[b][i] == last['ps'][b][i] for i in range(hv.PS)]
    # every sub-step receives the same action and the previous sub-step's state
    for k, (ins, outs) in enumerate(rec.step_calls):
      prev = rec.step_calls[k - 1][1] if k else {'obs': raw['obs'], 'ps': raw['ps'], 'done': raw['done']}
      goal += _eq_arr(ins['action'], act) + _eq_arr(ins['obs'], prev['obs']) + _eq_arr(ins['ps'], prev['ps'])
    return pre, goal, _native_episode
  return smt_custom('C15/EpisodeWrapper.step/transition[ar=%d,B=%d]' % (ar, B), 'brax.envs.wrappers.training:EpisodeWrapper.step',
                    "steps' = steps + action_repeat; reward' = sum of the sub-step rewards; done' = 1 if steps' >= L else done of the last sub-step; "
                    "truncation' = (steps' >= L) and not terminated; obs/pipeline_state/metrics are the last sub-step's; each sub-step gets the same action and the "
                    'previous sub-state; any environment, any L >= 1', body, tiers=tiers)


def _eq_arr(a, b):
  a = np.asarray(a, dtype=object) if not isinstance(a, np.ndarray) else a
  b = np.asarray(b, dtype=object) if not isinstance(b, np.ndarray) else b
  out = []
  for x, y in zip(a.reshape(-1), b.reshape(-1)):
    if isc(x) and isc(y):
      out.append(bool(x == y))
    else:
      out.append(x == y)
  return out


def autoreset_step(ar, B, tiers):
  def body(A):
    import z3
    tr, hv = _tr(), _hv()
    members = list(range(B))
    st, raw = hv.sym_state(A, members, with_first=True)
    act = A.arr('act', (B, 1))
    L = A.var('L', 'I')
    rec = hv.Recorder(A, members)

    def f(state, action, ell):
      return tr.AutoResetWrapper(tr.EpisodeWrapper(hv.HavocEnv(), ell, ar)).step(state, action)
    new = sym_call(Interp(A, cuts=rec.cuts()), f, st, Sym(act), Sym(L, np.int32))
    pre = [L >= 1] + [z3.Or(d == 0, d == 1) for d in raw['done']]
    goal = []
    last = rec.step_calls[-1][1]
    first_in = rec.step_calls[0][0]
    for b in range(B):
      steps_in = z3.If(raw['done'][b] == 1, 0, raw['steps'][b])          # the counter restarts after an episode end
      steps2 = steps_in + ar
      cut = steps2 >= z3.ToReal(L)
      done2 = z3.If(cut, 1, last['done'][b])
      goal += [new.info['steps'][b] == steps2, new.done[b] == done2,
               new.info['truncation'][b] == z3.If(cut, 1 - last['done'][b], 0),
               new.reward[b] == sum(c[1]['reward'][b] for c in rec.step_calls)]
      for i in range(hv.OBS):
        goal.append(new.obs[b][i] == z3.If(done2 == 1, raw['first_obs'][b][i], last['obs'][b][i]))
        goal.append(new.info['first_obs'][b][i] == raw['first_obs'][b][i])
      for i in range(hv.PS):
        goal.append(new.pipeline_state[b][i] == z3.If(done2 == 1, raw['first_ps'][b][i], last['ps'][b][i]))
        goal.append(new.info['first_pipeline_state'][b][i] == raw['first_ps'][b][i])
      goal.append(new.metrics['m'][b] == last['m'][b])
    # the inner environment is stepped with done cleared
    goal += _eq_arr(first_in['done'], np.zeros((B,)))
    return pre, goal, _native_autoreset
  return smt_custom('C15/AutoResetWrapper.step/transition[ar=%d,B=%d]' % (ar, B), 'brax.envs.wrappers.training:AutoResetWrapper.step',
                    "incoming done => the step counter restarts from 0 before stepping; the environment is stepped with done cleared; where done' the next "
                    'observation and pipeline state are the ones captured at reset (all leaves), elsewhere the stepped ones; first_* snapshot, reward, metrics '
                    'unchanged by the wrapper; any environment, any L >= 1', body, tiers=tiers)


def wrap_invariant(ar, tiers):
  def body(A):
    import z3
    tr, hv = _tr(), _hv()
    B = 1
    st, raw = hv.sym_state(A, [0], with_first=True)
    act = A.arr('act', (B, 1))
    L = A.var('L', 'I')
    m = A.var('m', 'I')
    rec = hv.Recorder(A, [0])

    def f(state, action, ell):
      return tr.AutoResetWrapper(tr.EpisodeWrapper(hv.HavocEnv(), ell, ar)).step(state, action)
    new = sym_call(Interp(A, cuts=rec.cuts()), f, st, Sym(act), Sym(L, np.int32))
    Lr = z3.ToReal(L)

    def inv(steps, done, trunc, mm):
      return z3.And(steps == z3.ToReal(ar * mm), mm >= 0, steps <= Lr + ar - 1, z3.Or(done == 0, done == 1), z3.Or(trunc == 0, trunc == 1),
                    z3.Implies(steps >= Lr, done == 1), z3.Implies(trunc == 1, z3.And(done == 1, steps >= Lr)))
    s, d, t = raw['steps'][0], raw['done'][0], raw['truncation'][0]
    s2, d2, t2 = new.info['steps'][0], new.done[0], new.info['truncation'][0]
    m2 = A.var('m2', 'I')
    pre = [L >= 1, inv(s, d, t, m), m2 == z3.If(d == 1, 0, m) + 1]
    goal = [inv(s2, d2, t2, m2), s2 >= ar,
            z3.Implies(d == 1, s2 == ar),                                         # restart after every episode end
            z3.Implies(z3.And(L % ar == 0), s2 <= Lr),                             # ar | L: the cut is at exactly L sub-steps
            z3.Implies(s2 >= Lr, d2 == 1),
            (t2 == 1) == z3.And(s2 >= Lr, rec.step_calls[-1][1]['done'][0] == 0)]  # truncation <=> time limit and not a termination
    return pre, goal, lambda w: _native_search()
  return smt_custom('C15/wrap/invariant[ar=%d]' % ar, 'brax.envs.wrappers.training:AutoResetWrapper.step,EpisodeWrapper.step',
                    'inductive invariant of AutoReset(Episode(env)): steps in action_repeat*N, steps <= L + ar - 1, steps >= L => done, truncation => done and steps >= L, '
                    "preserved by every step; steps' = ar after an episode end; if ar | L then steps' <= L (cut at exactly L); truncation' <=> time-limit cut without termination",
                    body, tiers=tiers)


def reset_ob():
  def body(A):
    tr, hv = _tr(), _hv()
    rec = hv.Recorder(A, [0, 1])
    rng = np.zeros((2, 2), dtype=np.uint32)

    def f(ell):
      return tr.AutoResetWrapper(tr.EpisodeWrapper(hv.HavocEnv(), ell, 1)).reset(jp.asarray(rng))
    L = A.var('L', 'I')
    new = sym_call(Interp(A, cuts=rec.cuts()), f, Sym(L, np.int32))
    goal = _eq_arr(new.info['steps'], np.zeros(2)) + _eq_arr(new.info['truncation'], np.zeros(2)) + _eq_arr(new.done, np.zeros(2))
    goal += _eq_arr(new.info['first_obs'], new.obs) + _eq_arr(new.info['first_pipeline_state'], new.pipeline_state)
    return [L >= 1], goal
  return smt_custom('C15/wrap/reset', 'brax.envs.wrappers.training:EpisodeWrapper.reset,AutoResetWrapper.reset',
                    'reset: steps = 0, truncation = 0, and the snapshot first_obs / first_pipeline_state is the reset observation / state (establishes the invariant)', body)


def eval_step(B, tiers):
  def body(A):
    import z3
    tr, hv = _tr(), _hv()
    members = list(range(B))
    st, raw = hv.sym_state(A, members, with_first=True, with_eval=True)
    act = A.arr('act', (B, 1))
    L = A.var('L', 'I')
    rec = hv.Recorder(A, members)

    def f(state, action, ell):
      return tr.EvalWrapper(tr.AutoResetWrapper(tr.EpisodeWrapper(hv.HavocEnv(), ell, 1))).step(state, action)
    new = sym_call(Interp(A, cuts=rec.cuts()), f, st, Sym(act), Sym(L, np.int32))
    em = new.info['eval_metrics']
    pre = [L >= 1] + [z3.Or(a == 0, a == 1) for a in raw['active']] + [z3.Or(d == 0, d == 1) for d in raw['done']]
    goal = []
    for b in range(B):
      a = raw['active'][b]
      goal += [em.active_episodes[b] == a * (1 - new.done[b]),
               em.episode_metrics['m'][b] == raw['em_m'][b] + new.metrics['m'][b] * a,
               em.episode_metrics['reward'][b] == raw['em_r'][b] + new.reward[b] * a,
               em.episode_steps[b] == z3.If(a == 1, new.info['steps'][b], raw['esteps'][b]),
               # frozen after the first episode: inactive stays inactive, nothing accumulates
               z3.Implies(a == 0, z3.And(em.active_episodes[b] == 0, em.episode_metrics['m'][b] == raw['em_m'][b],
                                         em.episode_metrics['reward'][b] == raw['em_r'][b], em.episode_steps[b] == raw['esteps'][b])),
               z3.Or(em.active_episodes[b] == 0, em.active_episodes[b] == 1),
               new.metrics['reward'][b] == new.reward[b]]
    return pre, goal, _native_eval
  return smt_custom('C15/EvalWrapper.step/accumulate[B=%d]' % B, 'brax.envs.wrappers.training:EvalWrapper.step',
                    "active' = active (1 - done'); metrics and episode_steps change only where active (metrics += step metrics, reward included; episode_steps = steps'); "
                    'an inactive member stays inactive and frozen: first episode only', body, tiers=tiers)


def eval_reset():
  def body(A):
    tr, hv = _tr(), _hv()
    rec = hv.Recorder(A, [0, 1])
    rng = np.zeros((2, 2), dtype=np.uint32)

    def f(ell):
      return tr.EvalWrapper(tr.AutoResetWrapper(tr.EpisodeWrapper(hv.HavocEnv(), ell, 1))).reset(jp.asarray(rng))
    L = A.var('L', 'I')
    new = sym_call(Interp(A, cuts=rec.cuts()), f, Sym(L, np.int32))
    em = new.info['eval_metrics']
    goal = _eq_arr(em.active_episodes, np.ones(2)) + _eq_arr(em.episode_steps, np.zeros(2))
    for v in em.episode_metrics.values():
      goal += _eq_arr(v, np.zeros(2))
    if set(em.episode_metrics) != {'m', 'reward'}:
      goal.append(False)
    return [L >= 1], goal
  return smt_custom('C15/EvalWrapper.reset/init', 'brax.envs.wrappers.training:EvalWrapper.reset',
                    'reset: all members active, accumulated metrics (incl. reward) and episode_steps zero', body)


def actor_chain(T, B):
  def body(A):
    import z3
    hv = _hv()
    ns = acting_ns()
    members = list(range(B))
    st, raw = hv.sym_state(A, members, with_steps=False)
    rec = hv.Recorder(A, members)
    key = np.zeros((2,), dtype=np.uint32)
    from verif.engine.opaque import opaque
    pol_calls = []

    def pol_shape(obs, key):
      return jp.zeros(obs.shape[:-1] + (1,)), jp.zeros(obs.shape[:-1])
    pol = opaque('havoc.policy', pol_shape)

    def policy(obs, k):
      a, e = pol(obs, k)
      return a, {'lp': e}

    def h_policy(I, P, ins):
      k = len(pol_calls)
      outs = [rec._fresh('act%d' % k, 1000 + k, (1,)), rec._fresh('lp%d' % k, 1000 + k, ())]
      pol_calls.append((ins, outs))
      return outs

    def f(state):
      return ns['generate_unroll'](hv.HavocEnv(), state, policy, jp.asarray(key), T)
    cuts = dict(rec.cuts())
    cuts['havoc.policy'] = h_policy
    final, data = sym_call(Interp(A, cuts=cuts), f, st)
    goal = []
    if len(rec.step_calls) != T or len(pol_calls) != T:
      return [], [False]
    for t in range(T):
      o = rec.step_calls[t][1]
      prev_obs = raw['obs'] if t == 0 else rec.step_calls[t - 1][1]['obs']
      goal += _eq_arr(data.observation[t], prev_obs)                    # observation_t = state_t.obs
      goal += _eq_arr(data.next_observation[t], o['obs'])               # next_observation_t = state_{t+1}.obs
      goal += _eq_arr(data.action[t], pol_calls[t][1][0])
      goal += _eq_arr(data.reward[t], o['reward'])
      goal += [data.discount[t][b] == 1 - o['done'][b] for b in range(B)]
      goal += _eq_arr(pol_calls[t][0][0], prev_obs)                     # the policy sees state_t.obs
      goal += _eq_arr(rec.step_calls[t][0]['action'], pol_calls[t][1][0])   # the env is stepped with the policy's action
      goal += _eq_arr(data.extras['policy_extras']['lp'][t], pol_calls[t][1][1])
      if t + 1 < T:
        goal += _eq_arr(data.next_observation[t], data.observation[t + 1])   # chaining
    goal += _eq_arr(final.obs, rec.step_calls[-1][1]['obs'])
    return [], goal, _native_chain
  return smt_custom('C15/generate_unroll/chain[T=%d,B=%d]' % (T, B), 'brax.training.acting:actor_step,generate_unroll',
                    'recorded transitions: observation_t = state_t.obs (what the policy saw), action_t = policy output = what the env was stepped with, reward_t, '
                    'discount_t = 1 - done_{t+1}, next_observation_t = state_{t+1}.obs = observation_{t+1}; final state is the last stepped state',
                    body, cut_targets=('jax.random:split',))


def evaluator_wiring():
  def run():
    ns = acting_ns()
    from brax.envs.wrappers.training import EvalMetrics
    rng = np.random.RandomState(seed() + 5)
    a, b, c = rng.normal(size=8), rng.normal(size=8) * 3 + 1, rng.randint(1, 9, size=8).astype(float)

    class FakeArr(np.ndarray):
      def block_until_ready(self):
        return self
    act = np.ones(8).view(FakeArr)
    em = EvalMetrics(episode_metrics={'reward': a, 'm': b}, active_episodes=act, episode_steps=c)

    class S:
      info = {'eval_metrics': em}
    ev = ns['Evaluator'].__new__(ns['Evaluator'])
    ev._key = jax.random.PRNGKey(0)
    ev._eval_walltime = 0.0
    ev._steps_per_unroll = 80
    ev._generate_eval_unroll = lambda params, key: S
    out = ev.run_evaluation(None, {'training/x': 1.0})
    want = {'eval/episode_reward': a.mean(), 'eval/episode_m': b.mean(), 'eval/episode_reward_std': a.std(), 'eval/episode_m_std': b.std(),
            'eval/avg_episode_length': c.mean(), 'training/x': 1.0}
    bad = {k: (float(out.get(k, np.nan)), float(v)) for k, v in want.items() if not np.isclose(float(out.get(k, np.nan)), float(v))}
    if bad:
      return Result(REFUTED, 'Evaluator metrics are not mean/std of episode_metrics and mean of episode_steps: %s' % bad,
                    replay={'reproduced': True, 'observed_vs_expected': bad})
    return Result(PROVED, 'run_evaluation returns mean / population std of every accumulated episode metric and the mean of episode_steps '
                  '(wiring checked on distinct concrete arrays; np.mean/np.std trusted)', stats={'evaluations': 1})
  return Obligation('C15/Evaluator.run_evaluation/metrics', 'brax.training.acting:Evaluator.run_evaluation',
                    'returned eval/episode_<name> = mean, _std = std of episode_metrics[name]; eval/avg_episode_length = mean(episode_steps); training metrics passed through',
                    run, backend='eval', budget=120)


# ---- native replays: scripted deterministic environment vs an independent python episode model -----------------------
class Scripted:
  """deterministic scripted env: done schedule per member, reward = 1 per sub-step, obs = sub-step counter"""

  def __init__(self, schedules):
    from brax.envs.base import Env
    self.sched = jp.asarray(np.array(schedules, dtype=float))          # [B, T]

  def make(self):
    from brax.envs.base import Env, State
    sched = self.sched

    class E(Env):
      def reset(s, rng):
        B = sched.shape[0]
        z = jp.zeros((B,))
        return State(pipeline_state=jp.zeros((B, 1)), obs=jp.zeros((B, 2)), reward=z, done=z, metrics={'m': z}, info={})

      def step(s, state, action):
        t = state.pipeline_state[:, 0] + 1                    # global sub-step counter (never reset by the env itself)
        idx = jp.clip(t.astype(int) - 1, 0, sched.shape[1] - 1)
        done = sched[jp.arange(sched.shape[0]), idx]
        return state.replace(pipeline_state=jp.stack([t], axis=1), obs=jp.stack([t, t], axis=1), reward=jp.ones_like(done), done=done, metrics=dict(state.metrics, m=t))
      observation_size = 2
      action_size = 1
      backend = 'scripted'
    return E()


def _native_episode(w):
  return _native_search()


def _native_autoreset(w):
  r = _native_search()
  if r.get('reproduced'):
    return r
  # two members with different schedules: the restore must be per member
  tr = _tr()
  for s0, s1 in (((0, 1, 0, 0), (0, 0, 0, 0)), ((0, 0, 1, 0), (1, 0, 0, 0)), ((1, 1, 0, 0), (0, 0, 0, 1))):
    env = tr.AutoResetWrapper(tr.EpisodeWrapper(Scripted([list(s0) * 3, list(s1) * 3]).make(), 100, 1))
    st = env.reset(jp.zeros((2, 2), dtype=jp.uint32))
    t = [0, 0]
    for k in range(6):
      st = env.step(st, jp.zeros((2, 1)))
      for b, sch in enumerate((s0, s1)):
        t[b] += 1
        d = (list(sch) * 3)[t[b] - 1]
        want_obs = 0.0 if d else float(t[b])
        if d:
          t[b] = 0
        if float(st.obs[b, 0]) != want_obs or float(st.done[b]) != float(d):
          return {'reproduced': True, 'schedules': [list(s0), list(s1)], 'wrapped_step': k, 'member': b,
                  'observed(obs,done)': (float(st.obs[b, 0]), float(st.done[b])), 'expected': (want_obs, float(d))}
  return {'reproduced': False}


def _native_eval(w):
  r = _native_search()
  if r.get('reproduced'):
    return r
  import itertools
  tr = _tr()
  T = 4
  for L in (2, 3):
    for s0 in itertools.product([0, 1], repeat=T):
      for s1 in ((0, 0, 0, 0), (1, 0, 1, 0), (0, 1, 1, 1)):
        env = tr.EvalWrapper(tr.AutoResetWrapper(tr.EpisodeWrapper(Scripted([list(s0) * 3, list(s1) * 3]).make(), L, 1)))
        st = env.reset(jp.zeros((2, 2), dtype=jp.uint32))
        model = [{'active': 1, 'rew': 0.0, 'steps': 0, 't': 0} for _ in range(2)]
        for k in range(2 * T):
          st = env.step(st, jp.zeros((2, 1)))
          for b, sch in enumerate((s0, s1)):
            m = model[b]
            m['t'] += 1
            d = 1 if (m['t'] >= L or (list(sch) * 3)[m['t'] - 1]) else 0
            if m['active']:
              m['rew'] += 1.0
              m['steps'] = m['t']
            if d:
              m['active'] = 0
              m['t'] = 0
          em = st.info['eval_metrics']
          got = [(float(em.active_episodes[b]), float(em.episode_metrics['reward'][b]), float(em.episode_steps[b])) for b in range(2)]
          want = [(float(m['active']), m['rew'], float(m['steps'])) for m in model]
          if got != want:
            return {'reproduced': True, 'schedules': [list(s0), list(s1)], 'episode_length': L, 'wrapped_step': k,
                    'observed(active,reward,steps)': got, 'expected': want}
  return {'reproduced': False}


def _native_chain(w):
  ns = acting_ns()
  env = Scripted([[0, 1, 0, 0, 1, 0], [0, 0, 0, 1, 0, 0]]).make()
  st = env.reset(jp.zeros((2, 2), dtype=jp.uint32))
  pol = lambda obs, key: (obs[..., :1] * 0.5 + 1.0, {'lp': obs[..., 0]})
  final, data = ns['generate_unroll'](env, st, pol, jax.random.PRNGKey(0), 4)
  o, n = np.asarray(data.observation), np.asarray(data.next_observation)
  bad = []
  if not np.allclose(o[0], np.asarray(st.obs)):
    bad.append('observation_0 is not the initial observation')
  if not np.allclose(o[1:], n[:-1]):
    bad.append('observation_{t+1} != next_observation_t')
  if not np.allclose(np.asarray(data.action), o[..., :1] * 0.5 + 1.0):
    bad.append('recorded action is not the policy output on the recorded observation')
  if not np.allclose(np.asarray(data.discount), 1 - np.array([[0, 0], [1, 0], [0, 0], [0, 1]], dtype=float)):
    bad.append('discount != 1 - done')
  return {'reproduced': bool(bad), 'what': bad, 'observation': o.tolist(), 'next_observation': n.tolist()}


def _native_search(max_len=5):
  """exhaustive small schedules against an independent python model of the accounting rules"""
  import itertools
  tr = _tr()
  for L in (1, 2, 3):
    for ar in (1, 2):
      for sched in itertools.product([0, 1], repeat=max_len):
        env = tr.AutoResetWrapper(tr.EpisodeWrapper(Scripted([list(sched) * 4]).make(), L, ar))
        st = env.reset(jp.zeros((1, 2), dtype=jp.uint32))
        steps_m = 0
        done_m = 0
        t_glob = 0
        for k in range(4):
          if done_m:
            steps_m = 0
          rew = 0
          last_done = 0
          for _ in range(ar):
            # AutoReset restores pipeline_state from reset on done: the scripted env's counter restarts
            t_glob += 1
            last_done = (list(sched) * 4)[min(t_glob - 1, len(sched) * 4 - 1)]
            rew += 1
          steps_m += ar
          cut = steps_m >= L
          done_m = 1 if cut else last_done
          trunc_m = (1 - last_done) if cut else 0
          st = env.step(st, jp.zeros((1, 1)))
          obs = (float(st.done[0]), float(st.info['steps'][0]), float(st.info['truncation'][0]), float(st.reward[0]))
          if obs != (float(done_m), float(steps_m), float(trunc_m), float(rew)):
            return {'reproduced': True, 'schedule': list(sched), 'episode_length': L, 'action_repeat': ar, 'wrapped_step': k,
                    'observed(done,steps,trunc,reward)': obs, 'expected': (done_m, steps_m, trunc_m, rew)}
          if done_m:
            t_glob = 0
            if float(st.obs[0, 0]) != 0.0:
              return {'reproduced': True, 'schedule': list(sched), 'what': 'observation after done is not the reset observation', 'obs': np.asarray(st.obs).tolist()}
  return {'reproduced': False}


def obligations(tier):
  Q, Th = ('quick', 'thorough'), ('thorough',)
  obs = []
  for ar in (1, 2, 3):
    for B in (1, 2):
      t = Q if (ar, B) in ((1, 2), (2, 1), (3, 2)) else Th
      obs.append(episode_step(ar, B, t))
      obs.append(autoreset_step(ar, B, t))
  for ar in (1, 2, 3):
    obs.append(wrap_invariant(ar, Q))
  obs += [reset_ob(), eval_step(1, Th), eval_step(2, Q), eval_reset(), actor_chain(3, 2), evaluator_wiring()]

  def canary(A):
    import z3
    tr, hv = _tr(), _hv()
    st, raw = hv.sym_state(A, [0])
    rec = hv.Recorder(A, [0])
    L = A.var('L', 'I')
    new = sym_call(Interp(A, cuts=rec.cuts()), lambda s, a, ell: tr.EpisodeWrapper(hv.HavocEnv(), ell, 1).step(s, a), st, Sym(A.arr('act', (1, 1))), Sym(L, np.int32))
    return [L >= 1], [new.info['truncation'][0] == z3.If(raw['steps'][0] + 1 >= z3.ToReal(L), 1, 0)]
  obs.append(smt_custom('C15/canary/truncation_ignores_termination', 'brax.envs.wrappers.training:EpisodeWrapper.step',
                        'CANARY: truncation set on every time-limit cut even when the env terminated (must be refuted)', canary, kind='canary'))
  return obs
