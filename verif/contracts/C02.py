"""C02 -- generalized-pipeline dynamics terms equal the reference engine.

The pipeline is the composite-rigid-body / recursive-Newton-Euler pair in spatial algebra.  End-to-end polynomial identities from q blow up,
so the property is decomposed along the code's own stage boundaries, each stage verified with its inputs SYMBOLIC AT THE BOUNDARY, and joined
by Featherstone's two textbook theorems (paper lemmas: CRBA computes M = sum_l J_l^T I_l J_l; RNEA computes M qdd + C at qdd = 0)."""
from __future__ import annotations
from fractions import Fraction
import numpy as np
import jax
import jax.numpy as jp

from verif.contracts.common import (Obligation, Result, Sym, sym_call, Interp, RingAlg, Z3Alg, ring_equal, combine, smt_prove, smt_custom, Stub,
                                    PROVED, REFUTED, UNDECIDED, ERROR, is_sym, isc, seed)
from verif.contracts import cuts, physsys
from verif.specs import sx
from verif.specs.sx import X

LEVEL = 'other'
EXPECTED_MIN = {'quick': 28, 'thorough': 40}
EXPLANATION = ('PROVED stage by stage with symbolic inputs at each stage boundary: dof axes in the subtree-CoM frame (cdof) for hinge / slide / free dofs and stacks under an arbitrary '
               'parent pose (exact normal form); link velocities cd = sum of ancestor dofs, cdofd = cd x cdof; link inertias about the tree CoM (cinr) = R I R^T + m(|h|^2 E - h h^T) with first moment m h, whose quadratic form on any motion is the sum of squares (R^T w).I(R^T w) + m|v - h x w|^2; mass.matrix = composite-rigid-body form with the ancestor mask, '
               'symmetry and armature; dynamics.inverse = recursive Newton-Euler form; passive force -k q - d qd; qf_smooth = passive - bias + tau; integrator: (M + dt D) qdd = '
               'qf, qd\' = qd + dt qdd, q\' = q + dt qd\' and the free-joint quaternion update.  The two Featherstone theorems joining the stages are paper lemmas.  BOUNDED (not '
               'proof): every term and one contact-free step against the MuJoCo binary on generated models (incl. slides on rotated bodies, mixed stacks).')
TRUSTED = ['Featherstone: CRBA / RNEA theorems (paper lemmas)', 'jax.scipy.linalg.solve cut with the assumed contract A X = B', 'spec transcribed from MuJoCo documentation; equality with the binary only bounded',
           'brax.math.normalize through its verified contract']
ASSUMPTIONS = ['exact reals', 'listed stack words / forests <= 3 links', 'positive definiteness: z^T M z = sum_l v_l.(cinr_l v_l) + sum armature z^2 with v_l = sum of ancestor dofs cdof_k z_k is the crb_form clause read as a quadratic form, and each summand is the proved sum of squares (cinr clause), so M is positive SEMI-definite for every model with m >= 0 and I >= 0; STRICT definiteness additionally needs I > 0, m > 0 and linearly independent dof axes per link (facts about the MuJoCo-compiled model, not proved) -- eigenvalues are checked in the bounded stand-in']
BOUNDED_RULE = 'generator models x random (q, qd, ctrl); non-trivial = distinct (model, state) pairs'

CUT = ('brax.math:normalize',)
CUTS = {'brax.math:normalize': cuts.normalize_ring}


def cdof_spec(A, ss, xpos, xquat, q, root_com):
  """reference twist of every dof about root_com, world frame: hinge (a, a x (root_com - anchor)), slide (0, a), free: world translations, body-frame rotations"""
  sys = ss.concrete
  xs = lambda v: [X(e, A) for e in v]
  one, zero = X(1, A), X(0, A)
  out = []
  qi = di = 0
  for i, t in enumerate(sys.link_types):
    p = sys.link_parents[i]
    if t == 'f':
      P, Q = xs(xpos[i]), xs(xquat[i])
      for k in range(3):
        out.append(([zero] * 3, [one if j == k else zero for j in range(3)]))
      for k in range(3):
        a = sx.qrot(Q, [one if j == k else zero for j in range(3)])
        out.append((a, sx.cross(a, sx.vsub(xs(root_com[i]), P))))
      qi, di = qi + 7, di + 6
      continue
    P, Q = ([zero] * 3, [one, zero, zero, zero]) if p == -1 else (xs(xpos[p]), xs(xquat[p]))
    xp = sx.vadd(P, sx.qrot(Q, xs(ss.tp[i])))
    xq = sx.qmul(Q, xs(ss.tr[i]))
    jpos = xs(ss.jp[i])
    for k in range(int(t)):
      if ss.kinds[di + k] == 'h':
        ax = xs(ss.ang[di + k])
        anchor = sx.vadd(xp, sx.qrot(xq, jpos))
        aw = sx.qrot(xq, ax)
        out.append((aw, sx.cross(aw, sx.vsub(xs(root_com[i]), anchor))))
        c, s = ss.half_angle(q[qi + k])
        xq = sx.qmul(xq, sx.axis_angle_quat(ax, X(c, A), X(s, A)))
        xp = sx.vsub(anchor, sx.qrot(xq, jpos))
      else:
        ax = xs(ss.vel[di + k])
        aw = sx.qrot(xq, ax)
        out.append(([zero] * 3, aw))
        xp = sx.vadd(xp, sx.vscale(aw, X(q[qi + k], A)))
    qi, di = qi + int(t), di + int(t)
  return out


def _state(A, sys, q, qd):
  from brax.generalized.base import State
  from brax.base import Transform, Motion
  n = sys.num_links()
  xp, xr = A.arr('xp', (n, 3)), A.arr('xr', (n, 4))
  for i in range(n):
    A.unit(list(xr[i]))
  z = State.init(jp.zeros(sys.q_size()), jp.zeros(sys.qd_size()), Transform.zero((n,)), Motion.zero((n,)))
  st = z.replace(q=Sym(q), qd=Sym(qd), x=Transform(pos=Sym(xp), rot=Sym(xr)))
  return st, xp, xr


def cdof(word, mode, tiers):
  tag = ('f+' if mode == 'free' else '') + word
  xml = physsys.xml_free() if word == '' else (physsys.xml_free_parent if mode == 'free' else physsys.xml_world_root)(word)

  def run():
    from verif.engine.opaque import cut
    from brax.generalized import dynamics
    A = RingAlg()
    sys = physsys.load(xml)
    ss = physsys.SymSys(A, sys)
    ss.declare_units()
    q, qd = ss.state()
    ss.slide_hints(q)
    st, xp, xr = _state(A, sys, q, qd)
    n = sys.num_links()
    # link masses and inertial offsets symbolic: root_com is then a rational function (denominator = total mass, declared non-zero)
    mass = A.arr('m', (n,))
    ipos = A.arr('ip', (n, 3))
    inertia = sys.link.inertia.replace(mass=Sym(mass), transform=sys.link.inertia.transform.replace(pos=Sym(ipos)))
    symsys = ss.sys.replace(link=ss.sys.link.replace(inertia=inertia))
    with cut(*CUT):
      I = Interp(A, cuts=CUTS)
      out = sym_call(I, lambda s, state: (lambda r: {'root_com': r.root_com, 'ang': r.cdof.ang, 'vel': r.cdof.vel, 'cd_ang': r.cd.ang, 'cd_vel': r.cd.vel,
                                                     'cdofd_ang': r.cdofd.ang, 'cdofd_vel': r.cdofd.vel})(dynamics.transform_com(s, state)), symsys, st)
    # root_com spec: mass-weighted mean of the link CoMs of the tree (all links here belong to one tree)
    coms = [sx.vadd([X(e, A) for e in xp[i]], sx.qrot([X(e, A) for e in xr[i]], [X(e, A) for e in ipos[i]])) for i in range(n)]
    mt = X(0, A)
    num = [X(0, A)] * 3
    for i in range(n):
      mt = mt + X(mass[i], A)
      num = sx.vadd(num, sx.vscale(coms[i], X(mass[i], A)))
    rc = [e / mt for e in num]
    res = []
    want_rc = np.array([[e.v for e in rc]] * n, dtype=object)
    res.append(ring_equal(A, out['root_com'], want_rc, name='root_com'))
    spec = cdof_spec(A, ss, xp, xr, q, [rc] * n)
    wa = np.array([[e.v for e in a] for a, v in spec], dtype=object)
    wv = np.array([[e.v for e in v] for a, v in spec], dtype=object)
    res.append(ring_equal(A, out['ang'], wa, name='cdof.ang'))
    res.append(ring_equal(A, out['vel'], wv, name='cdof.vel'))
    # cd_l = sum over the dofs of l and its ancestors of cdof_k qd_k (outputs related to outputs); cdofd_k = cd_before_k x cdof_k (non-free dofs)
    dof_link = [i for i, t in enumerate(sys.link_types) for _ in range(6 if t == 'f' else int(t))]
    anc = lambda l: [] if l == -1 else anc(sys.link_parents[l]) + [l]
    for l in range(n):
      ks = [k for k, dl in enumerate(dof_link) if dl in anc(l)]
      for part, key in (('ang', 'cd_ang'), ('vel', 'cd_vel')):
        want = [0, 0, 0]
        for k in ks:
          want = [A.add(want[c], A.mul(out[part][k][c], qd[k])) for c in range(3)]
        res.append(ring_equal(A, out[key][l], np.array(want, dtype=object), name='cd[%d].%s' % (l, part)))
    for k, l in enumerate(dof_link):
      if sys.link_types[l] == 'f':
        continue
      before = [j for j, dl in enumerate(dof_link) if (dl in anc(sys.link_parents[l])) or (dl == l and j < k)]
      cda, cdv = [0, 0, 0], [0, 0, 0]
      for j in before:
        cda = [A.add(cda[c], A.mul(out['ang'][j][c], qd[j])) for c in range(3)]
        cdv = [A.add(cdv[c], A.mul(out['vel'][j][c], qd[j])) for c in range(3)]
      X_ = lambda v: [X(e, A) for e in v]
      wang = sx.cross(X_(cda), X_(out['ang'][k]))
      wvel = sx.vadd(sx.cross(X_(cda), X_(out['vel'][k])), sx.cross(X_(cdv), X_(out['ang'][k])))
      res.append(ring_equal(A, out['cdofd_ang'][k], np.array([e.v for e in wang], dtype=object), name='cdofd[%d].ang' % k))
      res.append(ring_equal(A, out['cdofd_vel'][k], np.array([e.v for e in wvel], dtype=object), name='cdofd[%d].vel' % k))
    r = combine(res)
    r.stats.update({'peak_terms': A.peak, 'denominators': sorted({A.show(d, 4) for d in A.den_side})[:4]})
    if r.verdict == REFUTED:
      from verif.bounded import oracles
      r.replay = oracles.dynamics_vs_mujoco(6, 2, seed()).replay or {'reproduced': False}
    return r
  return Obligation('C02/transform_com/cdof[%s]' % (tag or 'f'), 'brax.generalized.dynamics:transform_com',
                    'root_com = mass-weighted mean of the link CoMs (total mass != 0); dof k: (ang, vel) = (a_w, a_w x (root_com - anchor_w)) for a hinge, (0, a_w) for a slide, with '
                    'a_w = R(parent o link o preceding joints) axis; free dofs: world translations and body-frame rotations about root_com; cd_l = sum of ancestor dofs cdof qd; '
                    'cdofd_k = cd_(before k) x cdof_k; for ALL parent poses, link transforms, anchors, unit axes, masses', run, backend='ring', tiers=tiers, budget=900)


def cinr(word, mode, tiers):
  """link inertias about the tree's centre of mass (the 6x6 blocks the mass matrix and the bias force are built from) + their sum-of-squares form"""
  tag = ('f+' if mode == 'free' else '') + word
  xml = physsys.xml_free() if word == '' else (physsys.xml_free_parent if mode == 'free' else physsys.xml_world_root)(word)

  def run():
    from verif.engine.opaque import cut
    from brax.generalized import dynamics
    from brax.base import Motion
    A = RingAlg()
    sys = physsys.load(xml)
    ss = physsys.SymSys(A, sys)
    ss.declare_units()
    q, qd = ss.state()
    ss.slide_hints(q)
    st, xp, xr = _state(A, sys, q, qd)
    n = sys.num_links()
    mass = A.arr('m', (n,))
    ipos = A.arr('ip', (n, 3))
    irot = A.arr('ir', (n, 4))
    ii = A.arr('I', (n, 3, 3))
    for l in range(n):
      A.unit(list(irot[l]))
      for a in range(3):
        for b in range(a):
          ii[l][a][b] = ii[l][b][a]
    inertia = sys.link.inertia.replace(mass=Sym(mass), i=Sym(ii), transform=sys.link.inertia.transform.replace(pos=Sym(ipos), rot=Sym(irot)))
    symsys = ss.sys.replace(link=ss.sys.link.replace(inertia=inertia))
    w, v = A.arr('w', (n, 3)), A.arr('v', (n, 3))

    def f(s, state, mw, mv):
      r = dynamics.transform_com(s, state)
      m = Motion(ang=mw, vel=mv)
      quad = jax.vmap(lambda c, mm: mm.dot(c.mul(mm)))(r.cinr, m)
      return {'i': r.cinr.i, 'fm': r.cinr.transform.pos, 'mass': r.cinr.mass, 'quad': quad}
    with cut(*CUT):
      out = sym_call(Interp(A, cuts=CUTS), f, symsys, st, Sym(w), Sym(v))
    Xs = lambda vec: [X(e, A) for e in vec]
    coms = [sx.vadd(Xs(xp[i]), sx.qrot(Xs(xr[i]), Xs(ipos[i]))) for i in range(n)]
    mt, num = X(0, A), [X(0, A)] * 3
    for i in range(n):
      mt = mt + X(mass[i], A)
      num = sx.vadd(num, sx.vscale(coms[i], X(mass[i], A)))
    rc = [e / mt for e in num]
    res = []
    for l in range(n):
      h = sx.vsub(coms[l], rc)
      R = sx.qmat(sx.qmul(Xs(xr[l]), Xs(irot[l])))
      I = [[X(ii[l][a][b], A) for b in range(3)] for a in range(3)]
      m = X(mass[l], A)
      hh = sx.dot(h, h)
      want_i = np.empty((3, 3), dtype=object)
      for a in range(3):
        for b in range(3):
          acc = X(0, A)
          for c in range(3):
            for d in range(3):
              acc = acc + R[a][c] * I[c][d] * R[b][d]
          acc = acc + m * ((hh if a == b else X(0, A)) - h[a] * h[b])
          want_i[a, b] = acc.v
      res.append(ring_equal(A, out['i'][l], want_i, name='cinr[%d].i = R I R^T + m(|h|^2 E - h h^T)' % l))
      res.append(ring_equal(A, out['fm'][l], np.array([(m * e).v for e in h], dtype=object), name='cinr[%d] first moment = m h' % l))
      res.append(ring_equal(A, np.array([out['mass'][l]], dtype=object), np.array([mass[l]], dtype=object), name='cinr[%d].mass' % l))
      # sum-of-squares form of the kinetic-energy quadratic form: (R^T w) . I (R^T w) + m |v - h x w|^2
      wl = [sum((R[c][a] * X(w[l][c], A) for c in range(3)), X(0, A)) for a in range(3)]
      rot_part = sum((wl[a] * I[a][b] * wl[b] for a in range(3) for b in range(3)), X(0, A))
      u = sx.vsub(Xs(v[l]), sx.cross(h, Xs(w[l])))
      res.append(ring_equal(A, np.array([out['quad'][l]], dtype=object), np.array([(rot_part + m * sx.dot(u, u)).v], dtype=object), name='motion . (cinr[%d] motion) = w_b.I w_b + m|v - h x w|^2' % l))
    r = combine(res)
    r.stats.update({'peak_terms': A.peak})
    if r.verdict == REFUTED:
      from verif.bounded import oracles
      r.replay = oracles.dynamics_vs_mujoco(6, 2, seed()).replay or {'reproduced': False}
    return r
  return Obligation('C02/transform_com/cinr[%s]' % (tag or 'f'), 'brax.generalized.dynamics:transform_com (+ Transform.do(Inertia), Inertia.mul, Motion.dot)',
                    'for ALL link poses, inertial frames (offset, unit quaternion), symmetric inertia tensors and masses (total mass != 0): cinr_l is the link inertia about the tree centre of mass '
                    'in world orientation: i = R I R^T + m(|h|^2 E - h h^T), first moment m h, h = com_l - root_com, R = R(x.rot * inertia.rot); and its quadratic form on ANY motion (w, v) '
                    'is the sum of squares  (R^T w).I (R^T w) + m |v - h x w|^2  (= twice the kinetic energy of the link): positive semi-definite whenever I is and m >= 0',
                    run, backend='ring', tiers=tiers, budget=900)


def sym_inertia(A, n, prefix='c'):
  from brax.base import Inertia, Transform
  fm = A.arr(prefix + 'fm', (n, 3))
  ii = A.arr(prefix + 'i', (n, 3, 3))
  for l in range(n):          # symmetric inertia tensors
    for a in range(3):
      for b in range(a):
        ii[l][a][b] = ii[l][b][a]
  m = A.arr(prefix + 'm', (n,))
  return Inertia(transform=Transform(pos=Sym(fm), rot=jp.tile(jp.array([1.0, 0, 0, 0]), (n, 1))), i=Sym(ii), mass=Sym(m)), fm, ii, m


FORESTS = {'chain3[1,1,1]': ([-1, 0, 1], '111'), 'star3[1,1,1]': ([-1, 0, 0], '111'), 'chain3[1,2,1]': ([-1, 0, 1], '121'), 'branch3[1,1,2]': ([-1, 0, 0], '112'), 'two-trees[f,1;2]': ([-1, 0, -1], 'f12'), 'chain2[3,1]': ([-1, 0], '31')}


def _forest_sys(parents, types):
  shape = []
  for p, t in zip(parents, types):
    shape.append((p, 'f' if t == 'f' else 'h' * int(t)))
  from verif.contracts import C04
  return physsys.load(C04.tree_xml(shape))


def _imul(A, fm, ii, m, ang, vel):
  """spatial inertia times motion, with first moment fm: (I w + fm x v, m v - fm x w)"""
  Xs = lambda v: [X(e, A) for e in v]
  w, v, c = Xs(ang), Xs(vel), Xs(fm)
  Iw = [sum((X(ii[a][b], A) * w[b] for b in range(3)), X(0, A)) for a in range(3)]
  fa = sx.vadd(Iw, sx.cross(c, v))
  fv = sx.vsub(sx.vscale(v, X(m, A)), sx.cross(c, w))
  return fa, fv


def crb_history(tiers):
  """mass.matrix is a function of (sys, state) alone: evaluated for one tree and THEN, in the same process, for a different tree with the same per-link joint types,
  it returns the second tree's composite-rigid-body form (a result cached under an incomplete key -- link_types without link_parents -- shows here and only here)"""
  def run():
    res = []
    for (a, b) in (('chain3[1,1,1]', 'star3[1,1,1]'), ('star3[1,1,1]', 'chain3[1,1,1]')):
      for nm in (a, b):
        r = crb_form(nm, tiers).run()
        if r.verdict != PROVED:
          r.detail = 'after evaluating %s first, %s: %s' % (a, nm, r.detail) if nm == b else r.detail
          if r.verdict == REFUTED:
            r.replay = _native_history()
          return r
        res.append(r)
    return combine(res)
  return Obligation('C02/mass.matrix/crb_form[history: same joint types, different trees]', 'brax.generalized.mass:matrix', 'evaluated in ONE process for a chain and a star with identical link_types '
                    '(in both orders): each call returns the composite-rigid-body form of ITS OWN tree -- the result depends on (sys, state) only, not on earlier calls', run, backend='ring', tiers=tiers, budget=900)


def _native_history():
  """generalized mass matrix of a chain and then of a star with the same joint types, in this one process, each against MuJoCo's dense inertia matrix"""
  import mujoco
  from brax.io import mjcf
  from brax.generalized import pipeline
  from verif.contracts import C04
  worst = {}
  for order in (('chain3[1,1,1]', 'star3[1,1,1]'), ('star3[1,1,1]', 'chain3[1,1,1]')):
    for nm in order:
      parents, types = FORESTS[nm]
      xml = C04.tree_xml([(p, 'h' * int(t)) for p, t in zip(parents, types)])
      sys = mjcf.loads(xml)
      q = jp.asarray([0.3, -0.4, 0.5][:sys.q_size()])
      st = pipeline.init(sys, q, jp.zeros(sys.qd_size()))
      m = mujoco.MjModel.from_xml_string(xml)
      d = mujoco.MjData(m)
      d.qpos[:] = np.asarray(q)
      mujoco.mj_forward(m, d)
      M = np.zeros((m.nv, m.nv))
      for c_ in range(m.nv):          # inertia matrix column by column (mj_mulM is stable across MuJoCo versions)
        e_, r_ = np.zeros(m.nv), np.zeros(m.nv)
        e_[c_] = 1.0
        mujoco.mj_mulM(m, d, r_, e_)
        M[:, c_] = r_
      err = float(np.abs(np.asarray(st.mass_mx) - M).max())
      worst['%s after %s' % (nm, order[0])] = err
      if err > 1e-6:
        return {'reproduced': True, 'what': 'mass matrix of %s (evaluated after %s in the same process) differs from MuJoCo by %.3g' % (nm, order[0], err), 'errors': worst}
  return {'reproduced': False, 'errors': worst}


def crb_form(name, tiers):
  parents, types = FORESTS[name]

  def run():
    from brax.generalized import mass
    A = RingAlg()
    sys = _forest_sys(parents, types)
    n, nv = sys.num_links(), sys.qd_size()
    cinr, fm, ii, m = sym_inertia(A, n)
    from brax.base import Motion
    ca, cv = A.arr('da', (nv, 3)), A.arr('dv', (nv, 3))
    arm = A.arr('arm', (nv,))
    st = Stub(cinr=cinr, cdof=Motion(ang=Sym(ca), vel=Sym(cv)))
    sys2 = sys.replace(dof=sys.dof.replace(armature=Sym(arm)))
    M = sym_call(Interp(A), mass.matrix, sys2, st)
    dof_link = [i for i, t in enumerate(sys.link_types) for _ in range(6 if t == 'f' else int(t))]
    sub = lambda l: [l] + [d for c in range(n) if parents[c] == l for d in sub(c)]
    anc = lambda l: [] if l == -1 else anc(parents[l]) + [l]
    want = np.empty((nv, nv), dtype=object)
    for i in range(nv):
      for j in range(nv):
        li, lj = dof_link[i], dof_link[j]
        if lj in anc(li) or li in anc(lj):
          lo = li if lj in anc(li) else lj            # the deeper link: its subtree carries the composite inertia
          acc = X(0, A)
          for l in sub(lo):
            fa, fv = _imul(A, fm[l], ii[l], m[l], ca[i], cv[i])
            acc = acc + sx.dot([X(e, A) for e in ca[j]], fa) + sx.dot([X(e, A) for e in cv[j]], fv)
          want[i, j] = acc.v
        else:
          want[i, j] = 0
        if i == j:
          want[i, j] = A.add(want[i, j], arm[i])
    r = ring_equal(A, M, want, name='mass matrix')
    if r.verdict == REFUTED:
      from verif.bounded import oracles
      r.replay = oracles.dynamics_vs_mujoco(6, 2, seed()).replay or {'reproduced': False}
    return r
  return Obligation('C02/mass.matrix/crb_form[%s]' % name, 'brax.generalized.mass:matrix', 'with SYMBOLIC cinr (symmetric tensors, first moments, masses), cdof and armature: '
                    'M[i,j] = cdof_j . ((sum over the subtree of the deeper link of cinr_l) cdof_i) when the two links are on one root-to-leaf path, 0 otherwise (mask), '
                    '+ armature on the diagonal; hence symmetric', run, backend='ring', tiers=tiers, budget=900)


def rne_form(name, tiers):
  parents, types = FORESTS[name]

  def run():
    from brax.generalized import dynamics
    from brax.base import Motion
    A = RingAlg()
    sys = _forest_sys(parents, types)
    n, nv = sys.num_links(), sys.qd_size()
    cinr, fm, ii, m = sym_inertia(A, n)
    ca, cv, da, dv = A.arr('da', (nv, 3)), A.arr('dv', (nv, 3)), A.arr('dda', (nv, 3)), A.arr('ddv', (nv, 3))
    cda, cdv = A.arr('cda', (n, 3)), A.arr('cdv', (n, 3))
    qd = A.arr('qd', (nv,))
    g = A.arr('g', (3,))
    st = Stub(cinr=cinr, cdof=Motion(ang=Sym(ca), vel=Sym(cv)), cdofd=Motion(ang=Sym(da), vel=Sym(dv)), cd=Motion(ang=Sym(cda), vel=Sym(cdv)), qd=Sym(qd))
    tau = sym_call(Interp(A), dynamics.inverse, sys.replace(gravity=Sym(g)), st)
    dof_link = [i for i, t in enumerate(sys.link_types) for _ in range(6 if t == 'f' else int(t))]
    sub = lambda l: [l] + [d for c in range(n) if parents[c] == l for d in sub(c)]
    anc = lambda l: [] if l == -1 else anc(parents[l]) + [l]
    Xs = lambda v: [X(e, A) for e in v]
    f_ang, f_vel = [], []
    for l in range(n):
      # cdd_l = (0, -g) + sum over ancestor-or-self dofs of cdofd_k qd_k
      aa, av = [X(0, A)] * 3, [X(0, A) - X(g[c], A) for c in range(3)]
      for k, dl in enumerate(dof_link):
        if dl in anc(l):
          aa = sx.vadd(aa, sx.vscale(Xs(da[k]), X(qd[k], A)))
          av = sx.vadd(av, sx.vscale(Xs(dv[k]), X(qd[k], A)))
      f1a, f1v = _imul(A, fm[l], ii[l], m[l], [e.v for e in aa], [e.v for e in av])
      h_a, h_v = _imul(A, fm[l], ii[l], m[l], cda[l], cdv[l])
      w, v = Xs(cda[l]), Xs(cdv[l])
      # cd x* (I cd): (w x h_a + v x h_v, w x h_v)
      f2a = sx.vadd(sx.cross(w, h_a), sx.cross(v, h_v))
      f2v = sx.cross(w, h_v)
      f_ang.append(sx.vadd(f1a, f2a))
      f_vel.append(sx.vadd(f1v, f2v))
    want = []
    for k, l in enumerate(dof_link):
      acc = X(0, A)
      for s_ in sub(l):
        acc = acc + sx.dot(Xs(ca[k]), f_ang[s_]) + sx.dot(Xs(cv[k]), f_vel[s_])
      want.append(acc.v)
    r = ring_equal(A, tau, np.array(want, dtype=object), name='bias force')
    if r.verdict == REFUTED:
      from verif.bounded import oracles
      r.replay = oracles.dynamics_vs_mujoco(6, 2, seed()).replay or {'reproduced': False}
    return r
  return Obligation('C02/dynamics.inverse/rne_form[%s]' % name, 'brax.generalized.dynamics:inverse', 'with SYMBOLIC cinr, cd, cdof, cdofd, qd, gravity: cdd_l = (0,-g) + sum over ancestor dofs of '
                    'cdofd_k qd_k; f_l = cinr_l cdd_l + cd_l x* (cinr_l cd_l); bias_k = cdof_k . sum over the subtree of f_l', run, backend='ring', tiers=tiers, budget=900)


class _Tok:
  """an uninterpreted stage result: (stage, field, the arguments the stage was applied to)"""
  __slots__ = ('stage', 'field', 'args')

  def __init__(self, stage, field, args):
    self.stage, self.field, self.args = stage, field, args

  def __repr__(self):
    return '%s.%s' % (self.stage, self.field)


def cache_coherent(fn, iters, tiers):
  """the generalized State caches position-dependent quantities (x, xd, cinr, cdof, ..., mass_mx, mass_mx_inv, con_jac, ...).  The REAL body of pipeline.step / pipeline.init is executed
  with every stage callee replaced by an uninterpreted function (its frame -- which State fields it rewrites -- is read off one concrete run of the real callee); the postcondition is on
  the provenance of the returned fields: every cached field is the stage function applied to the RETURNED (q, qd) and to the returned upstream caches, none is carried over"""
  def run():
    import dataclasses
    from unittest import mock
    from brax.generalized import pipeline, mass, dynamics, constraint, integrator
    from brax.generalized.base import State
    from brax import kinematics, actuator
    sys = _forest_sys([-1, 0], '11').replace(matrix_inv_iterations=iters)
    fields = [f.name for f in dataclasses.fields(State)]
    with jax.enable_x64(False):
      c0 = pipeline.init(sys, sys.init_q, jp.zeros(sys.qd_size()))
      frame = {}
      for nm, mod, call in (('integrate', integrator, lambda: integrator.integrate(sys, c0)), ('transform_com', dynamics, lambda: dynamics.transform_com(sys, c0)),
                            ('matrix_inv', mass, lambda: mass.matrix_inv(sys, c0, iters)), ('jacobian', constraint, lambda: constraint.jacobian(sys, c0))):
        o = call()
        frame[nm] = [f for f in fields if getattr(o, f) is not getattr(c0, f)]
    snap = lambda st: {f: getattr(st, f) for f in fields}

    def st_stage(nm):
      def stub(sys_, state, *a, **k):
        s = snap(state)
        return state.replace(**{f: _Tok(nm, f, s) for f in frame[nm]})
      return stub

    def kin(sys_, q, qd):
      return _Tok('kinematics.forward', 'x', {'q': q, 'qd': qd}), _Tok('kinematics.forward', 'xd', {'q': q, 'qd': qd})
    patches = [mock.patch.object(integrator, 'integrate', st_stage('integrate')), mock.patch.object(dynamics, 'transform_com', st_stage('transform_com')),
               mock.patch.object(mass, 'matrix_inv', st_stage('matrix_inv')), mock.patch.object(constraint, 'jacobian', st_stage('jacobian')),
               mock.patch.object(kinematics, 'forward', kin),
               mock.patch.object(actuator, 'to_tau', lambda sys_, act, q, qd: _Tok('to_tau', 'tau', {'act': act, 'q': q, 'qd': qd})),
               mock.patch.object(dynamics, 'forward', lambda sys_, state, tau: _Tok('dynamics.forward', 'qf_smooth', dict(snap(state), tau=tau))),
               mock.patch.object(constraint, 'force', lambda sys_, state: _Tok('constraint.force', 'qf_constraint', snap(state)))]
    # the pipeline module may also hold direct references to the stage callees (`from ... import matrix_inv`): those are replaced as well
    reals = {id(getattr(m_, a_)): (m_, a_) for m_, a_ in ((integrator, 'integrate'), (dynamics, 'transform_com'), (mass, 'matrix_inv'), (constraint, 'jacobian'), (kinematics, 'forward'),
                                                           (actuator, 'to_tau'), (dynamics, 'forward'), (constraint, 'force'))}
    direct = [(nm_, v_) for nm_, v_ in list(vars(pipeline).items()) if id(v_) in reals]
    for p in patches:
      p.start()
    for nm_, v_ in direct:
      m_, a_ = reals[id(v_)]
      setattr(pipeline, nm_, getattr(m_, a_))
    try:
      if fn == 'step':
        s0 = State(**{f: _Tok('in', f, None) for f in fields})
        out = pipeline.step(sys, s0, _Tok('in', 'act', None))
      else:
        with mock.patch.object(State, 'init', classmethod(lambda cls, q, qd, x, xd: State(**dict({f: _Tok('State.init', f, None) for f in fields}, q=q, qd=qd, x=x, xd=xd)))):
          out = pipeline.init(sys, _Tok('in', 'q', None), _Tok('in', 'qd', None))
    except Exception as e:      # noqa: BLE001  -- the body computes on stage results directly (not a pure composition of stages): outside this obligation's reach, not a verdict
      return Result(UNDECIDED, 'pipeline.%s does more than compose its stage functions (%s: %s); provenance cannot be followed' % (fn, type(e).__name__, str(e)[:120]))
    finally:
      for p in patches:
        p.stop()
      for nm_, v_ in direct:
        setattr(pipeline, nm_, v_)
    bad = []
    P, K, T = ['q', 'qd'], ['x', 'xd'], frame['transform_com']
    for f in K:
      v = getattr(out, f)
      if not (isinstance(v, _Tok) and v.stage == 'kinematics.forward' and v.field == f and v.args['q'] is out.q and v.args['qd'] is out.qd):
        bad.append('%s is %r, not kinematics.forward(returned q, returned qd)' % (f, v))
    for nm, up in (('transform_com', P + K), ('matrix_inv', P + K + T), ('jacobian', P + K + T)):
      for f in frame[nm]:
        v = getattr(out, f)
        if not (isinstance(v, _Tok) and v.stage == nm and v.field == f):
          bad.append('%s is %r (carried over), not recomputed by %s' % (f, v, nm))
          continue
        stale = [u for u in up if v.args[u] is not getattr(out, u)]
        if stale:
          bad.append('%s is %s applied to a state whose %s are not the returned ones' % (f, nm, stale))
    if fn == 'step':
      v = out.q
      if not (isinstance(v, _Tok) and v.stage == 'integrate'):
        bad.append('q is %r, not produced by integrator.integrate' % (v,))
      else:
        qs, qc = v.args['qf_smooth'], v.args['qf_constraint']
        if not (isinstance(qs, _Tok) and qs.stage == 'dynamics.forward' and all(qs.args[f].stage == 'in' for f in fields if isinstance(qs.args[f], _Tok) and f != 'qf_smooth')
                and isinstance(qs.args['tau'], _Tok) and qs.args['tau'].stage == 'to_tau'):
          bad.append('the integrated smooth force is %r, not dynamics.forward(input state, to_tau(act, q, qd))' % (qs,))
        if not (isinstance(qc, _Tok) and qc.stage == 'constraint.force' and qc.args['qf_smooth'] is qs):
          bad.append('the integrated constraint force is %r, not constraint.force of the state carrying the smooth force' % (qc,))
    if bad:
      return Result(REFUTED, '; '.join(bad)[:600], witness={'matrix_inv_iterations': iters, 'violations': bad[:8]}, replay=_native_cache(fn, iters))
    return Result(PROVED, 'every cached field of the State returned by pipeline.%s is recomputed from the returned (q, qd) and the returned upstream caches (stage frames: %s)' % (fn, frame),
                  stats={'fields': len(fields)})
  return Obligation('C02/generalized.pipeline.%s/cache_coherent[iters=%d]' % (fn, iters), 'brax.generalized.pipeline:%s' % fn,
                    'matrix_inv_iterations = %d: in the returned State, x, xd = kinematics.forward(q, qd); the centre-of-mass caches are transform_com of that state; mass_mx / mass_mx_inv and the '
                    'constraint jacobian caches are mass.matrix_inv / constraint.jacobian of the state carrying exactly those -- no cached field is carried over from the previous state; '
                    '(step) the integrated forces are dynamics.forward and constraint.force of the input state' % iters, run, backend='path', tiers=tiers, budget=300)


def _native_cache(fn, iters):
  """native: after two real steps the cached mass matrix must be the mass matrix of the returned configuration"""
  from brax.generalized import pipeline, mass
  from brax.io import mjcf
  from verif.contracts import C04
  with jax.enable_x64(True):
    sys = mjcf.loads(C04.tree_xml(C04.SHAPES['f-(h,s)'])).replace(matrix_inv_iterations=iters)
    st = pipeline.init(sys, sys.init_q, jp.arange(1, sys.qd_size() + 1) * 0.3)
    if fn == 'step':
      for _ in range(3):
        st = jax.jit(pipeline.step)(sys, st, jp.zeros(sys.act_size()))
    err = float(jp.abs(st.mass_mx - mass.matrix(sys, st)).max())
  return {'reproduced': err > 1e-9, 'max |cached mass_mx - mass.matrix(returned state)|': err, 'matrix_inv_iterations': iters}


def passive_forward():
  def body(A):
    from brax.generalized import dynamics
    sys = _forest_sys([-1, 0, -1], 'f12')
    nq, nv = sys.q_size(), sys.qd_size()
    q, qd, tau = A.arr('q', (nq,)), A.arr('qd', (nv,)), A.arr('tau', (nv,))
    k, d = A.arr('k', (nv,)), A.arr('d', (nv,))
    sys2 = sys.replace(dof=sys.dof.replace(stiffness=Sym(k), damping=Sym(d)))
    from verif.engine.opaque import cut
    from brax.generalized.base import State
    from brax.base import Transform, Motion
    n = sys.num_links()
    z = State.init(jp.zeros(nq), jp.zeros(nv), Transform.zero((n,)), Motion.zero((n,)))
    z = z.replace(cdof=Motion.zero((nv,)), cdofd=Motion.zero((nv,)))
    with cut('brax.generalized.dynamics:inverse'):
      I = Interp(A)
      pas = sym_call(I, dynamics._passive, sys2, z.replace(q=Sym(q), qd=Sym(qd)))
      frc = sym_call(I, dynamics.forward, sys2, z.replace(q=Sym(q), qd=Sym(qd)), Sym(tau))
    bias = [c for c in I.calls if c[0].endswith('inverse')][0][3][0]
    goal = []
    qi = 0
    di = 0
    for t in sys.link_types:
      w = 6 if t == 'f' else int(t)
      for j in range(w):
        want = (0 if t == 'f' else -q[qi + j] * k[di + j]) - d[di + j] * qd[di + j]
        goal += [pas[di + j] == want, frc[di + j] == want - bias[di + j] + tau[di + j]]
      qi += 7 if t == 'f' else int(t)
      di += w
    return [], goal
  return smt_custom('C02/dynamics._passive+forward/formula', 'brax.generalized.dynamics:_passive,forward', 'passive = -stiffness q - damping qd on hinge/slide dofs, no stiffness term on free dofs '
                    '(fluid disabled); qf_smooth = passive - bias + tau (bias = inverse, cut)', body)


def integrate_step():
  def run():
    from verif.engine.opaque import cut
    from brax.generalized import integrator
    A = RingAlg()
    sys = _forest_sys([-1, 0], '21')
    sys = sys.replace(matrix_inv_iterations=0)
    nq, nv = sys.q_size(), sys.qd_size()
    q, qd = A.arr('q', (nq,)), A.arr('qd', (nv,))
    M = A.arr('M', (nv, nv))
    qs, qc = A.arr('qs', (nv,)), A.arr('qc', (nv,))
    dmp = A.arr('d', (nv,))
    dt = A.var('dt')
    # every other per-dof constant of the model is symbolic too (armature is already inside mass_mx: it must not enter the integrator a second time)
    arm, stf = A.arr('arm', (nv,)), A.arr('stf', (nv,))
    sys2 = sys.replace(dof=sys.dof.replace(damping=Sym(dmp), armature=Sym(arm), stiffness=Sym(stf)), opt=sys.opt.replace(timestep=Sym(dt)))
    Xsol = A.arr('X', (nv, nv))
    seen = {}

    def h_solve(I, P, ins):
      seen['a'], seen['b'] = I.lift(ins[0]), I.lift(ins[1])
      return [Xsol]
    with cut('jax.scipy.linalg:solve'):
      st = Stub(q=Sym(q), qd=Sym(qd), mass_mx=Sym(M), qf_smooth=Sym(qs), qf_constraint=Sym(qc), mass_mx_inv=jp.zeros((nv, nv)), qdd=jp.zeros(nv))
      new = sym_call(Interp(A, cuts={'jax.scipy.linalg:solve': h_solve}), integrator.integrate, sys2, st)
    a, b = seen['a'], seen['b']
    res = []
    # the matrix handed to solve is M + dt diag(damping), the right-hand side the identity
    wantA = np.array([[A.add(M[i][k], A.mul(dt, dmp[i]) if i == k else 0) for k in range(nv)] for i in range(nv)], dtype=object)
    res.append(ring_equal(A, a, wantA, name='solve lhs = M + dt D'))
    res.append(ring_equal(A, b, np.array([[1 if i == k else 0 for k in range(nv)] for i in range(nv)], dtype=object), name='solve rhs = I'))
    # ASSUMED contract of jax.scipy.linalg.solve: E := a @ X - I = 0.  Certificate of ideal membership:  a @ qdd - f = E @ f  identically, f = qf_smooth + qf_constraint
    f = [A.add(qs[i], qc[i]) for i in range(nv)]
    lhs, cert = [], []
    for i in range(nv):
      acc = 0
      for k in range(nv):
        acc = A.add(acc, A.mul(a[i][k], new.qdd[k]))
      lhs.append(A.sub(acc, f[i]))
      c = 0
      for j in range(nv):
        e = 0
        for k in range(nv):
          e = A.add(e, A.mul(a[i][k], Xsol[k][j]))
        e = A.sub(e, 1 if i == j else 0)
        c = A.add(c, A.mul(e, f[j]))
      cert.append(c)
    res.append(ring_equal(A, np.array(lhs, dtype=object), np.array(cert, dtype=object), name='(M + dt D) qdd - f in <a X - I>'))
    res.append(ring_equal(A, new.qd, np.array([A.add(qd[i], A.mul(dt, new.qdd[i])) for i in range(nv)], dtype=object), name="qd' = qd + dt qdd"))
    res.append(ring_equal(A, new.q, np.array([A.add(q[i], A.mul(dt, new.qd[i])) for i in range(nq)], dtype=object), name="q' = q + dt qd'"))
    r = combine(res)
    if r.verdict == REFUTED:
      from verif.bounded import oracles
      r.replay = oracles.dynamics_vs_mujoco(6, 2, seed()).replay or {'reproduced': False}
    return r
  return Obligation('C02/integrator.integrate/step[hinge-slide]', 'brax.generalized.integrator:integrate', 'exact inverse: solve is called with (M + dt diag(damping), I); under its ASSUMED contract a X = I, '
                    "(M + dt D) qdd = qf_smooth + qf_constraint (ideal-membership certificate), qd' = qd + dt qdd, q' = q + dt qd' on hinge/slide dofs (semi-implicit Euler, implicit joint damping)",
                    run, backend='ring', budget=300, assumes=('jax.scipy.linalg.solve: A X = B (assumed)',))


def integrate_free():
  from verif.contracts.common import law

  def fn(q, qd, dt):
    from brax.generalized import integrator
    from brax import math
    sys = physsys.load(physsys.xml_free())
    sys2 = sys.replace(opt=sys.opt.replace(timestep=dt))
    got = integrator._integrate_q_free(sys=sys2, q=q, qd=qd)
    # reference: MuJoCo mj_integratePos for a free joint, with the 1e-8 guard stated explicitly
    w = qd[3:6]
    wn = math.safe_norm(w) + 1e-8          # the same real helper (cut on both sides; its contract is C09/safe_norm/contract_*: the norm, 0 inside the 1e-8 cube)
    u = w / wn
    a = dt * wn
    # quat_rot_axis = (cos a/2, u sin a/2) and quat_mul = Hamilton product are verified contracts (C09/quat_rot_axis/unit_and_def, C09/quat_mul/hamilton)
    r = math.quat_mul(q[3:7], math.quat_rot_axis(u, a))
    r = r / jp.sqrt(jp.sum(r * r))
    return got, jp.concatenate([q[0:3] + dt * qd[0:3], r])
  return law('C02/integrator._integrate_q_free/step', 'brax.generalized.integrator:_integrate_q_free', "free joint: pos' = pos + dt v; rot' is the normalised rot (x) (cos(a/2), u sin(a/2)) with "
             'u = w/(|w|+1e-8), a = dt(|w|+1e-8), |w| = safe_norm(w) -- MuJoCo mj_integratePos up to the stated 1e-8 guards (safe_norm / sqrt / sin / cos shared with the spec)', fn, {'q': (7,), 'qd': (6,), 'dt': ()},
             timeout=100, budget=300, validate=False, cut_targets=('brax.math:safe_norm',), cuts={'brax.math:safe_norm': cuts.uf_handler('safe_norm')})


def bounded(tier):
  def run():
    from verif.bounded import oracles
    n, s = (12, 2) if tier == 'quick' else (300, 4)
    return oracles.dynamics_vs_mujoco(n, s, seed())
  return Obligation('C02/bounded/dynamics_vs_mujoco', 'brax.generalized.{pipeline,dynamics,mass,integrator} + brax.actuator', 'BOUNDED: mass matrix (symmetric, positive definite, = mj inertia matrix), qfrc_bias, '
                    'qfrc_passive, qfrc_actuator, qfrc_smooth and one contact-free Euler step vs the MuJoCo binary, float64, relative 1e-7, generator models', run, backend='bounded', kind='bounded', budget=2400)


def obligations(tier):
  Q, Th = ('quick', 'thorough'), ('thorough',)
  obs = [cdof('', 'root', Q), cdof('h', 'root', Q), cdof('s', 'root', Q), cdof('h', 'free', Q), cdof('s', 'free', Q), cdof('sh', 'root', Q), cdof('hs', 'root', Th), cdof('hh', 'free', Th),
         cdof('ss', 'root', Th), cdof('hsh', 'root', Q), cdof('shh', 'root', Q), cdof('hhs', 'root', Q), cdof('sss', 'root', Th), cdof('hhh', 'root', Th)]
  # transform_com moves every dof axis with Transform.do / inv_do: the helpers are what they claim to be (C09's obligations, carried here as premises so that a slip in
  # one of them is reported against C02 as well)
  from verif.contracts import C09
  want = ('C09/Transform.do[Motion]/spec', 'C09/Transform.do[Motion]/inverse', 'C09/Transform.do[Inertia]/spec', 'C09/Inertia.mul/spec', 'C09/Motion.cross/dual', 'C09/Motion.cross/antisymmetric')
  for o in C09.obligations(tier):
    if o.id in want:
      o.id = o.id.replace('C09/', 'C02/premise/')
      obs.append(o)
  for name in FORESTS:
    if name in ('chain3[1,1,1]', 'star3[1,1,1]'):
      continue          # used by the history obligation
    t = Q if name in ('chain3[1,2,1]', 'two-trees[f,1;2]') else Th
    obs.append(crb_form(name, t))
    obs.append(rne_form(name, t))
  obs.append(crb_history(Q))
  obs += [cinr('h', 'free', Q), cinr('sh', 'root', Q), cinr('', 'root', Th), cinr('hs', 'free', Th)]
  obs += [passive_forward(), integrate_step(), integrate_free(), bounded(tier)]
  obs += [cache_coherent('step', 0, Q), cache_coherent('step', 10, Q), cache_coherent('init', 0, Q), cache_coherent('init', 10, Th)]
  # "total smooth joint force including actuation": the actuation term is C11's contract; the clause that matters for floating-base models (q index != qd index) is proved here too
  from verif.contracts import C11
  for qd_id, off in (([0, 2], [1, 1]), ([1, 1], [0, 1])):
    ob = C11.formula(2, 3, qd_id, off, (), Q)
    ob.id = ob.id.replace('C11/to_tau', 'C02/actuator.to_tau')
    obs.append(ob)

  def _sv():
    from brax.generalized import pipeline
    from brax.io import mjcf
    from verif.contracts import C04
    sys = mjcf.loads(C04.tree_xml(C04.SHAPES['f-(h,s)'])).replace(matrix_inv_iterations=0)

    def f(q_, qd_):
      from brax import kinematics
      from brax.generalized import dynamics, mass
      from brax.generalized.base import State
      x, xd = kinematics.forward(sys, q_, qd_)
      st = dynamics.transform_com(sys, State.init(q_, qd_, x, xd))
      return mass.matrix(sys, st), st.cdof.ang, st.cdof.vel, st.cd.vel, st.root_com, dynamics.inverse(sys, st)
    return f, [np.asarray(sys.init_q, dtype=float), np.zeros(sys.qd_size())]
  from verif.contracts.common import engine_selfcheck
  obs.append(engine_selfcheck('C02/engine/self_validation[generalized init]', 'brax.generalized: kinematics.forward, dynamics.transform_com, mass.matrix, dynamics.inverse', _sv, budget=900))

  def canary():
    # crb form with the mask forgotten (sibling coupling) must be refuted
    from brax.generalized import mass
    from brax.base import Motion
    A = RingAlg()
    sys = _forest_sys([-1, 0, 0], '111')
    cinr, fm, ii, m = sym_inertia(A, 3)
    ca, cv = A.arr('da', (3, 3)), A.arr('dv', (3, 3))
    M = sym_call(Interp(A), mass.matrix, sys, Stub(cinr=cinr, cdof=Motion(ang=Sym(ca), vel=Sym(cv))))
    fa, fv = _imul(A, fm[2], ii[2], m[2], ca[2], cv[2])
    w = sx.dot([X(e, A) for e in ca[1]], fa) + sx.dot([X(e, A) for e in cv[1]], fv)
    return ring_equal(A, np.array([M[2][1]], dtype=object), np.array([w.v], dtype=object))
  obs.append(Obligation('C02/canary/no_mask', 'brax.generalized.mass:matrix', 'CANARY: sibling dofs are inertially coupled (must be refuted)', canary, kind='canary', backend='ring'))
  return obs
