"""C08 -- joint coordinates and world coordinates round-trip."""
from __future__ import annotations
from fractions import Fraction
import numpy as np
import jax
import jax.numpy as jp

from verif.contracts.common import (Obligation, Result, Sym, sym_call, Interp, RingAlg, Z3Alg, ring_equal, combine, smt_prove,
                                    PROVED, REFUTED, UNDECIDED, ERROR, is_sym, isc, seed)
from verif.contracts import cuts, physsys
from verif.specs import sx
from verif.specs.sx import X

LEVEL = 'other'
EXPECTED_MIN = {'quick': 22, 'thorough': 30}
EXPLANATION = ('PROVED (exact normal form; normalize / orthogonals / signed_angle used through contracts): inverse(world_to_joint(forward(q, qd))) returns q for a free link, a single '
               'slide and a single hinge (world-attached and under a free parent), every model parameter symbolic -- for the hinge the proof shows that signed_angle is called with '
               '(sin q, cos q) exactly (double-angle polynomials of the half-angle pair), and the axiom atan2(sin q, cos q) = q on (-pi, pi) closes it; joint velocities round-trip for '
               'free links and single hinges; for the multi-dof stacks of the property (ss, sss, hh, hhh, sh, ssh; mutually orthogonal axes = the columns of R(p), either handedness; world-attached and under a free parent) every slide coordinate is returned exactly and every hinge coordinate is returned as signed_angle(sin q, cos q) or as arccos(clip(cos q, -1, 1)) * sign(sin q) -- the calls are read off the real trace and their ARGUMENTS are proved to be those polynomials of the half-angle pair, on the Euler chart cos q > 0; the (q, qd) returned by the spring and positional step are syntactically inverse(world_to_joint(x\', xd\')) of the poses they return.  '
               'BOUNDED (not proof): the same round trip on generated models (random orthogonal stacks, float64).')
TRUSTED = ['axiom: atan2(sin t, cos t) = t for t in (-pi, pi)', 'axiom: arccos(clip(cos t, -1, 1)) * sign(sin t) = t for t in (-pi, pi)', 'chart hint: sqrt(cos^2 q) = cos q for hinge coordinates of a stack (|q| <= 1.2 < pi/2, the range of the property)', 'orthogonals contract (C09/orthogonals/frame): returns (b, c) completing a unit vector to a right-handed orthonormal frame -- '
           'callers are verified for EVERY such frame (a, b, c) = columns of R(p), p an arbitrary unit quaternion', 'normalize contract (C09/normalize/contract_*)']
ASSUMPTIONS = ['exact reals', 'slide coordinates with cos(q/2) > 0', 'stacks with a slide after a hinge, and velocity round trip of prismatic / stacked joints, are the documented upstream limitation (outside the claim); non-orthogonal stacks are not claimed']
BOUNDED_RULE = 'generator models with orthogonal stacks x random q in [-1.2, 1.2]; non-trivial = distinct (model, state)'

CUT = ('brax.math:normalize', 'brax.math:orthogonals', 'brax.math:signed_angle')


def _frame_axes(A, ss, stack=False, left=False):
  """replace every hinge/slide axis generator by the first column of R(p) for a fresh unit quaternion p; returns {dof: (a, b, c)}.
  stack=True: the dofs of one link are mutually orthogonal -- dof k of the link gets column k of ONE frame R(p) per link (completion: the cyclically next columns)"""
  frames = {}
  link_of, pos_in = {}, {}
  d = 0
  for li, t in enumerate(ss.concrete.link_types):
    w = 6 if t == 'f' else int(t)
    for k in range(w):
      link_of[d + k], pos_in[d + k] = li, k
    d += w
  per_link = {}
  for d, kind in enumerate(ss.kinds):
    if kind == 'f':
      continue
    if stack:
      li = link_of[d]
      if li not in per_link:
        pq = A.arr('fr%d' % li, (4,))
        A.unit(list(pq))
        Rm = sx.qmat([X(e, A) for e in pq])
        per_link[li] = [[Rm[r][k].v for r in range(3)] for k in range(3)]
      cols = per_link[li]
      k = pos_in[d]
      if left:          # left-handed stack: the third axis is MINUS the cross product of the first two (third column negated)
        cols = [cols[0], cols[1], [A.neg(e) for e in cols[2]]]
      a, b, c = cols[k], cols[(k + 1) % 3], cols[(k + 2) % 3]
      if left:          # completion (a, b, c) must stay right-handed for the orthogonals contract: flip c
        c = [A.neg(e) for e in c]
    else:
      p = A.arr('fr%d' % d, (4,))
      A.unit(list(p))
      R = sx.qmat([X(e, A) for e in p])
      a, b, c = [[R[r][k].v for r in range(3)] for k in range(3)]
    if kind == 'h':
      ss.ang[d] = a
    else:
      ss.vel[d] = a
    frames[d] = (a, b, c)
    A.hint_or([(a[i], 'ne', 0) for i in range(3)], True, 'a unit axis has a non-zero component (C09/orthogonals/hint_any)')
  # rebuild the symbolic system with the new axes
  sys = ss.concrete
  mot = sys.dof.motion.replace(ang=Sym(ss.ang), vel=Sym(ss.vel))
  ss.sys = ss.sys.replace(dof=ss.sys.dof.replace(motion=mot))
  return frames


def roundtrip(word, mode, tiers, stack=False, left=False):
  tag = ('f+' if mode == 'free' else '') + (word or 'f') + (',left-handed' if left else '')
  xml = physsys.xml_free() if word == '' else (physsys.xml_free_parent if mode == 'free' else physsys.xml_world_root)(word)

  def run():
    from verif.engine.opaque import cut
    from brax import kinematics
    A = RingAlg()
    sys = physsys.load(xml)
    ss = physsys.SymSys(A, sys)
    frames = _frame_axes(A, ss, stack=stack, left=left)
    if stack:
      # any() over several axis rows at once (is_translational / is_both in link_to_joint_frame)
      for kind in ('h', 's'):
        rows = [d for d, k_ in enumerate(ss.kinds) if k_ == kind]
        if rows:
          A.hint_or([(frames[d][0][i], 'ne', 0) for d in rows for i in range(3)], True, 'some unit axis among the rows')
    for u in ss.unit_sets:
      if all(hasattr(e, 't') and len(e.t) == 1 for e in u):          # only plain generators (link rotations); axes are now polynomials
        A.unit(u)
    q, qd = ss.state()
    ss.slide_hints(q)
    if stack:
      # the Euler-angle chart of the property: hinge coordinates in [-1.2, 1.2], so cos q > 0 and sqrt(cos^2 q) = cos q
      qi_ = 0
      for t_ in sys.link_types:
        if t_ != 'f':
          for k_ in range(int(t_)):
            c_, s_ = ss.half_angle(q[qi_ + k_])
            A.sqrt_hint(A.sub(A.mul(c_, c_), A.mul(s_, s_)), 'hinge coordinate inside the Euler chart |q| <= 1.2 < pi/2: cos q > 0')
        qi_ += 7 if t_ == 'f' else int(t_)
    sa_calls = []

    def h_orth(I, P, ins):
      a = I.lift(ins[0])
      rows = a.reshape((-1, 3))
      b_out, c_out = np.empty(rows.shape, dtype=object), np.empty(rows.shape, dtype=object)
      for k, row in enumerate(rows):
        if all(isc(e) and e == 0 for e in row):
          b_out[k], c_out[k] = [0, 0, 0], [0, 0, 0]          # orthogonals(0) = (0, 0): contract clause for the zero vector (b is multiplied by any(a))
          continue
        hit = None
        for d, (fa, fb, fc) in frames.items():
          if all(A.is_zero(A.sub(row[i], fa[i])) for i in range(3)):
            hit = (fb, fc)
        if hit is None:
          raise RuntimeError('orthogonals called on a vector that is not a declared joint axis')
        b_out[k], c_out[k] = hit
      return [b_out.reshape(a.shape), c_out.reshape(a.shape)]

    def h_sa(I, P, ins):
      axis, rp, rc = [I.lift(x).reshape((-1, 3)) for x in ins]
      Xs = lambda v: [X(e, A) for e in v]
      out = np.empty((axis.shape[0],), dtype=object)
      for b in range(axis.shape[0]):
        num = sx.dot(sx.cross(Xs(rp[b]), Xs(rc[b])), Xs(axis[b])).v
        den = sx.dot(Xs(rp[b]), Xs(rc[b])).v
        g = A.var('psi!%d' % len(sa_calls))
        sa_calls.append((g, A.normal(num), A.normal(den)))
        out[b] = g
      return [out.reshape(tuple(P['batch']))]
    # multi-dof stacks: the second Euler angle is  arccos(clip(c, -1, 1)) * sign(s).  clip, sign and safe_arccos are recorded as opaque operations of their (normal-form)
    # arguments: the obligation is about WHAT they are called with; the axiom  arccos(clip(cos t)) * sign(sin t) = t  on (-pi, pi) closes it
    ops = []

    def rec(op):
      def f(*args):
        g = A.var('%s!%d' % (op, len(ops)))
        ops.append((g, op, [a if isc(a) else A.normal(a) for a in args]))
        return g
      return f

    def h_acos(I, P, ins):
      x = I.lift(ins[0])
      out = np.empty(x.shape, dtype=object)
      for idx in (np.ndindex(*x.shape) if x.shape else [()]):
        out[idx] = rec('acos')(x[idx])
      return [out]
    handlers = {'brax.math:normalize': cuts.normalize_ring, 'brax.math:orthogonals': h_orth, 'brax.math:signed_angle': h_sa}
    targets = list(CUT)
    if stack:
      A._max, A._min, A._sign = rec('max'), rec('min'), rec('sign')
      handlers['brax.math:safe_arccos'] = h_acos
      targets.append('brax.math:safe_arccos')
    else:
      A._sign = rec('sign')      # recorded as an opaque generator; a residue that contains it is only a refutation when it replays natively (see below)
    with cut(*targets):
      I = Interp(A, cuts=handlers)
      # multi-dof stacks: kinematics.inverse computes the Euler-angle extraction also for pure slide stacks and discards it with a `where` on a concrete mask;
      # operations the polynomial algebra cannot express (clip, arccos) are kept as lazy errors that only count if they reach an output
      I.lazy_unsupported = stack

      def f(s, q_, qd_):
        x, xd = kinematics.forward(s, q_, qd_)
        j, jd, _, _ = kinematics.world_to_joint(s, x, xd)
        return kinematics.inverse(s, j, jd)
      q2, qd2 = sym_call(I, f, ss.sys, Sym(q), Sym(qd))
    res = []
    qi = di = 0
    checked_vel = []
    for li, t in enumerate(sys.link_types):
      if t == 'f':
        res.append(ring_equal(A, q2[qi:qi + 7], q[qi:qi + 7], name='free q'))
        res.append(ring_equal(A, qd2[di:di + 6], qd[di:di + 6], name='free qd'))
        qi, di = qi + 7, di + 6
        continue
      for k in range(int(t)):
        if ss.kinds[di + k] == 's':
          res.append(ring_equal(A, q2[qi + k:qi + k + 1], q[qi + k:qi + k + 1], name='slide q'))
        else:
          # the returned coordinate must BE the signed_angle output, called with (sin q, cos q) as double-angle polynomials of the half-angle pair
          hit = [sc for sc in sa_calls if A.is_zero(A.sub(q2[qi + k], sc[0]))]
          c, s = ss.half_angle(q[qi + k])
          sin_q = A.mul(2, A.mul(s, c))
          cos_q = A.sub(A.mul(c, c), A.mul(s, s))
          pair = [(ga, gs) for ga in ops if ga[1] == 'acos' for gs in ops if gs[1] == 'sign' and A.is_zero(A.sub(q2[qi + k], A.mul(ga[0], gs[0])))] if len(hit) != 1 else []
          if pair:
            ga, gs = pair[0]
            # unwrap  acos( min( max(c, -1), 1) )
            arg = ga[2][0]
            chain = []
            for _ in range(2):
              inner = [o for o in ops if o[1] in ('max', 'min') and not isc(arg) and A.is_zero(A.sub(arg, o[0]))]
              if not inner:
                break
              chain.append((inner[0][1], [a_ for a_ in inner[0][2] if isc(a_)]))
              arg = [a_ for a_ in inner[0][2] if not isc(a_)][0]
            ok_clip = sorted(chain) == sorted([('max', [-1]), ('min', [1])]) or sorted((c_[0], [int(v) for v in c_[1]]) for c_ in chain) == [('max', [-1]), ('min', [1])]
            if not ok_clip:
              res.append(Result(REFUTED, 'the arccos argument is not clip(., -1, 1) of a polynomial: %s' % chain, replay={'reproduced': False}))
            res.append(ring_equal(A, np.array([arg, gs[2][0]], dtype=object), np.array([cos_q, sin_q], dtype=object), name='theta = arccos(clip(cos q)) * sign(sin q)'))
          elif len(hit) != 1:
            res.append(Result(REFUTED, 'hinge coordinate is neither the output of one signed_angle call nor arccos(.)*sign(.)', replay={'reproduced': False}))
          else:
            res.append(ring_equal(A, np.array([hit[0][1], hit[0][2]], dtype=object), np.array([sin_q, cos_q], dtype=object), name='signed_angle args = (sin q, cos q)'))
          if int(t) == 1:
            res.append(ring_equal(A, qd2[di + k:di + k + 1], qd[di + k:di + k + 1], name='hinge qd'))
            checked_vel.append(di + k)
      qi, di = qi + int(t), di + int(t)
    r = combine(res)
    r.stats.update({'peak_terms': A.peak, 'signed_angle_calls': len(sa_calls), 'branch_hints': sorted({'%s := %s (%s)' % h for h in A.hints_used})[:6]})
    if r.verdict == REFUTED:
      r.replay = _native_roundtrip(xml)
      if not stack and any(o[1] == 'sign' for o in ops) and not r.replay.get('reproduced'):
        # sign(.) was treated as an arbitrary value: without a native witness the residue may be an artefact of that abstraction
        return Result(UNDECIDED, 'residue through an opaque sign(.) and no native witness: ' + r.detail[:200], stats=r.stats)
    return r
  return Obligation('C08/roundtrip/pos+vel[%s]' % tag, 'brax.kinematics:forward,world_to_joint,inverse (link_to_joint_frame, axis_angle_ang)',
                    'inverse(world_to_joint(forward(q, qd))) = (q, qd): free link (q incl. unit quaternion, qd), slide q, hinge q via signed_angle(sin q, cos q) + atan2 axiom, hinge qd; '
                    'all link transforms, anchors, unit axes and EVERY orthonormal completion of the axis frame', run, backend='ring', tiers=tiers, budget=900,
                    assumes=('axiom atan2(sin t, cos t) = t on (-pi, pi)',))


def _native_roundtrip(xml, tries=20):
  from brax.io import mjcf
  from brax import kinematics
  from verif.bounded import modelgen
  import re
  rng = np.random.RandomState(seed() + 2)
  for t in range(tries):
    x2 = re.sub(r'quat="[^"]*"', lambda _: 'quat="%s"' % modelgen._f(modelgen.rand_quat(rng)), xml)
    x2 = re.sub(r'axis="[^"]*"', lambda _: 'axis="%s"' % modelgen._f(modelgen.rand_unit(rng)), x2)
    sys = mjcf.loads(x2)
    q, qd = modelgen.rand_state(rng, sys, 1.2, 1.0)
    if t < 4 and 'f' in sys.link_types:
      # exact half turns of a free root (scalar part of the unit quaternion exactly 0) and a w < 0 representative
      q = np.asarray(q, dtype=float).copy()
      qi_ = 0
      for ty in sys.link_types:
        if ty == 'f':
          q[qi_ + 3:qi_ + 7] = [(0, 1, 0, 0), (0, 0, 0, 1), (0, 0.6, 0, 0.8), (-0.5, 0.5, -0.5, 0.5)][t]
          qi_ += 7
        else:
          qi_ += int(ty)
    x, xd = kinematics.forward(sys, jp.asarray(q), jp.asarray(qd))
    j, jd, _, _ = kinematics.world_to_joint(sys, x, xd)
    q2, qd2 = kinematics.inverse(sys, j, jd)
    q2, qq = np.asarray(q2).copy(), np.asarray(q).copy()
    qi = 0
    for ty in sys.link_types:
      if ty == 'f':
        if np.dot(q2[qi + 3:qi + 7], qq[qi + 3:qi + 7]) < 0:
          q2[qi + 3:qi + 7] *= -1
        qi += 7
      else:
        qi += int(ty)
    if np.abs(q2 - qq).max() > 1e-7:
      return {'reproduced': True, 'xml': x2, 'q': qq.tolist(), 'q_roundtrip': q2.tolist()}
  return {'reproduced': False}


def frame_contract(word, perm, signs, tiers):
  """link_to_joint_frame on a stack `word` whose axes are the columns perm (with signs) of R(p): every branch of the axis-frame construction (joint kind, count,
  handedness, zero axes) must return orthonormal frames that carry each dof's own axis in its slot"""
  tag = '%s,axes=%s' % (word, ''.join(('+' if sg > 0 else '-') + 'xyz'[k] for k, sg in zip(perm, signs)))

  def run():
    from verif.engine.opaque import cut
    from brax import kinematics
    from brax.base import Motion
    A = RingAlg()
    p = A.arr('p', (4,))
    A.unit(list(p))
    R = sx.qmat([X(e, A) for e in p])
    cols = [[R[r][k].v for r in range(3)] for k in range(3)]
    n = len(word)
    axes = [[A.mul(sg, e) for e in cols[k]] for k, sg in zip(perm[:n], signs[:n])]
    ang = np.zeros((n, 3), dtype=object)
    vel = np.zeros((n, 3), dtype=object)
    for k, c in enumerate(word):
      (ang if c == 'h' else vel)[k] = axes[k]
    for k in range(n):
      A.hint_or([(axes[k][i], 'ne', 0) for i in range(3)], True, 'unit axis')
    # any() over several axes at once (is_translational / is_universal / is_both): true as soon as one of the rows is a unit axis
    import itertools
    for kind_rows in ([k for k, c in enumerate(word) if c == 'h'], [k for k, c in enumerate(word) if c == 's']):
      if kind_rows:
        A.hint_or([(axes[k][i], 'ne', 0) for k in kind_rows for i in range(3)], True, 'some unit axis among the rows')

    def h_orth(I, P, ins):
      a = I.lift(ins[0])
      rows = a.reshape((-1, 3))
      b_out, c_out = np.empty(rows.shape, dtype=object), np.empty(rows.shape, dtype=object)
      for k, row in enumerate(rows):
        if all(isc(e) and e == 0 for e in row):
          b_out[k], c_out[k] = [0, 0, 0], [0, 0, 0]
          continue
        hit = None
        for kk in range(3):
          for sg in (1, -1):
            if all(A.is_zero(A.sub(row[i], A.mul(sg, cols[kk][i]))) for i in range(3)):
              # (a, b, c) right-handed orthonormal with a = sg*col_kk : b = col_(kk+1), c = sg*col_(kk+2) (one admissible completion; a different completion is covered by p being arbitrary)
              hit = (cols[(kk + 1) % 3], [A.mul(sg, e) for e in cols[(kk + 2) % 3]])
        if hit is None:
          raise RuntimeError('orthogonals called on a vector that is not a declared axis')
        b_out[k], c_out[k] = hit
      return [b_out.reshape(a.shape), c_out.reshape(a.shape)]
    with cut('brax.math:orthogonals', 'brax.math:normalize'):
      I = Interp(A, cuts={'brax.math:orthogonals': h_orth, 'brax.math:normalize': cuts.normalize_ring})
      (fa, fv), parity = sym_call(I, lambda a_, v_: (lambda o: ((o[0].ang, o[0].vel), o[1]))(kinematics.link_to_joint_frame(Motion(ang=a_, vel=v_))), Sym(ang), Sym(vel))
    res = []
    eye = np.array([[1 if i == j else 0 for j in range(3)] for i in range(3)], dtype=object)

    def gram(F):
      G = np.empty((3, 3), dtype=object)
      for i in range(3):
        for j in range(3):
          acc = 0
          for c in range(3):
            acc = A.add(acc, A.mul(F[i][c], F[j][c]))
          G[i][j] = acc
      return G
    # a frame is only used for the joint kinds present in the stack (a pure-hinge 3-dof stack leaves the translational frame unused, and vice versa)
    if 'h' in word or len(word) < 3:
      res.append(ring_equal(A, gram(fa), eye, name='ang frame orthonormal'))
    if 's' in word or len(word) < 3:
      res.append(ring_equal(A, gram(fv), eye, name='vel frame orthonormal'))
    # handedness of the declared axes: +1 right-handed, -1 left-handed (the third frame row of a pure 3-dof stack is row0 x row1 = handed * axis_2)
    perm_sign = 1 if tuple(perm) in ((0, 1, 2), (1, 2, 0), (2, 0, 1)) else -1
    handed = perm_sign * int(np.prod(signs))
    for k, c in enumerate(word):
      sgn = handed if (k == 2 and word in ('hhh', 'sss')) else 1
      want_row = np.array([A.mul(sgn, e) for e in axes[k]], dtype=object)
      if c == 'h':
        res.append(ring_equal(A, fa[k], want_row, name='ang frame row %d = %shinge axis' % (k, 'handedness * ' if sgn < 0 else '')))
      else:
        res.append(ring_equal(A, fv[k], want_row, name='vel frame row %d = %sslide axis' % (k, 'handedness * ' if sgn < 0 else '')))
    # parity = handedness of the rotational frame: det(ang frame) * parity = +1 when all three rows are hinge axes
    if word == 'hhh':
      Xs = lambda v: [X(e, A) for e in v]
      det = sx.dot(sx.cross(Xs(fa[0]), Xs(fa[1])), Xs(fa[2])).v
      par = parity.item() if is_sym(parity) else A.const(float(np.asarray(parity)), 'f')
      res.append(ring_equal(A, np.array([par, det], dtype=object), np.array([handed, 1], dtype=object), name='parity = handedness of the axes; frame right-handed'))
    r = combine(res)
    r.stats['branch_hints'] = sorted({'%s := %s' % (h[0], h[1]) for h in A.hints_used})[:8]
    if r.verdict == REFUTED:
      rb = bounded('quick').run()
      r.replay = rb.replay or {'reproduced': rb.verdict == REFUTED}
    return r
  return Obligation('C08/link_to_joint_frame/frames[%s]' % tag, 'brax.kinematics:link_to_joint_frame', 'for a stack of this joint-kind word with mutually orthogonal unit axes (either handedness; the axes are signed columns '
                    'of an arbitrary rotation): the rotational and translational 3-frames returned are orthonormal and carry every dof\'s own axis in that dof\'s slot (all branches on joint kind / '
                    'count / zero axes resolved under this precondition)', run, backend='ring', tiers=tiers, budget=600)


def step_structure(pipeline):
  def run():
    import importlib
    from verif.engine.opaque import cut
    from verif.contracts import C04
    A = Z3Alg()
    sys = physsys.load(C04.tree_xml(C04.SHAPES['f-h']))
    pl = importlib.import_module('brax.%s.pipeline' % pipeline)
    st, raw = C04.sym_pipeline_state(A, sys, pipeline)
    targets = list(C04.SPRING_KERNELS) if pipeline == 'spring' else ['brax.positional.joints:_three_dof_joint_update', 'brax.positional.joints:_sphericalize']
    targets += ['brax.com:inv_inertia', 'brax.kinematics:inverse', 'brax.kinematics:world_to_joint', 'brax.math:normalize', 'brax.math:safe_norm']
    if pipeline == 'spring':
      targets += ['brax.spring.integrator:integrate']
    calls = {}

    def rec(name):
      def h(I, P, ins):
        outs = I.fresh_outputs(P)
        calls.setdefault(name, []).append((ins, outs, list(P['argnames'])))
        return outs
      return h
    with cut(*targets):
      I = Interp(A, cuts={'brax.kinematics:inverse': rec('inverse'), 'brax.kinematics:world_to_joint': rec('w2j')})
      out = sym_call(I, lambda s: (lambda r: {'q': r.q, 'qd': r.qd, 'xp': r.x.pos, 'xr': r.x.rot, 'xa': r.xd.ang, 'xv': r.xd.vel})(pl.step(sys, s, jp.zeros(sys.act_size()))), st)
    from verif.contracts.C17 import _same
    if len(calls.get('inverse', [])) < 1 or len(calls.get('w2j', [])) < 1:
      return Result(REFUTED, 'step does not compute (q, qd) through world_to_joint + inverse', replay=_native_step_q(pipeline))
    inv_ins, inv_outs, inv_names = calls['inverse'][-1]
    w_ins, w_outs, w_names = calls['w2j'][-1]
    ok = _same(out['q'], inv_outs[0]) and _same(out['qd'], inv_outs[1])
    # inverse is applied to (j, jd) = first two outputs of the last world_to_joint call
    sym_inv = [x for x, nm in zip(inv_ins, inv_names) if nm in ('j', 'jd')]
    flat_w = list(w_outs[0].reshape(-1)) + list(w_outs[1].reshape(-1)) + list(w_outs[2].reshape(-1)) + list(w_outs[3].reshape(-1))
    flat_i = [e for x in sym_inv for e in np.asarray(x, dtype=object).reshape(-1)]
    ok = ok and len(flat_i) == len(flat_w) and all((a is b) or a.eq(b) for a, b in zip(flat_i, flat_w))
    # world_to_joint is applied to the x, xd that step returns
    sym_w = [x for x, nm in zip(w_ins, w_names) if nm in ('x', 'xd')]
    flat_x = list(out['xp'].reshape(-1)) + list(out['xr'].reshape(-1)) + list(out['xa'].reshape(-1)) + list(out['xv'].reshape(-1))
    flat_wi = [e for x in sym_w for e in np.asarray(x, dtype=object).reshape(-1)]
    same_x = len(flat_wi) == len(flat_x) and all(_eqterm(a, b) for a, b in zip(flat_wi, flat_x))
    if ok and same_x:
      return Result(PROVED, 'the returned (q, qd) are the outputs of inverse applied to world_to_joint of exactly the returned (x, xd) (term identity)', stats={'opaque_calls': len(I.calls)})
    return Result(REFUTED, 'returned (q, qd) are not inverse(world_to_joint(returned x, xd)): outputs-match=%s inputs-match=%s' % (ok, same_x), replay=_native_step_q(pipeline))
  return Obligation('C08/%s.step/q_is_inverse' % pipeline, 'brax.%s.pipeline:step' % pipeline, 'the (q, qd) a step returns are syntactically inverse(world_to_joint(x\', xd\')) of the (x\', xd\') it returns '
                    '(callees cut; identity of terms)', run, backend='term-identity', budget=600)


def _eqterm(a, b):
  if a is b:
    return True
  if isc(a) and isc(b):
    return a == b
  try:
    import z3
    return bool(a.eq(b)) or z3.is_true(z3.simplify(a == b))
  except Exception:      # noqa: BLE001
    return False


def _native_step_q(pipeline):
  import importlib
  from brax.io import mjcf
  from brax import kinematics
  from verif.contracts import C04
  pl = importlib.import_module('brax.%s.pipeline' % pipeline)
  sys = mjcf.loads(C04.tree_xml(C04.SHAPES['f-h']))
  from verif.bounded import modelgen
  rng = np.random.RandomState(1)
  q, qd = modelgen.rand_state(rng, sys, 1.0, 1.0)
  st = pl.step(sys, pl.init(sys, jp.asarray(q), jp.asarray(qd)), jp.zeros(sys.act_size()))
  j, jd, _, _ = kinematics.world_to_joint(sys, st.x, st.xd)
  q2, qd2 = kinematics.inverse(sys, j, jd)
  d = max(float(jp.max(jp.abs(q2 - st.q))), float(jp.max(jp.abs(qd2 - st.qd))))
  return {'reproduced': d > 1e-9, 'max_difference': d}


def bounded(tier):
  def run():
    from brax.io import mjcf
    from brax import kinematics
    from verif.bounded import modelgen
    rng = np.random.RandomState(seed() + 43)
    n = 25 if tier == 'quick' else 500
    evals = 0
    worst = 0.0
    for k in range(n):
      xml, meta = modelgen.generate(rng, modelgen.Spec(orthogonal=True, single_kind_stack=True, n_links=(1, 5)))
      sys = mjcf.loads(xml)
      q, qd = modelgen.rand_state(rng, sys, 1.2, 1.0)
      x, xd = kinematics.forward(sys, jp.asarray(q), jp.asarray(qd))
      j, jd, _, _ = kinematics.world_to_joint(sys, x, xd)
      q2, qd2 = kinematics.inverse(sys, j, jd)
      q2, qq = np.asarray(q2).copy(), np.asarray(q).copy()
      qd2 = np.asarray(qd2)
      qi = di = 0
      vel_ok = True
      for li, ty in enumerate(sys.link_types):
        if ty == 'f':
          if np.dot(q2[qi + 3:qi + 7], qq[qi + 3:qi + 7]) < 0:
            q2[qi + 3:qi + 7] *= -1
          if np.abs(qd2[di:di + 6] - qd[di:di + 6]).max() > 1e-7:
            vel_ok = False
          qi, di = qi + 7, di + 6
        else:
          qi, di = qi + int(ty), di + int(ty)
      evals += 1
      e = float(np.abs(q2 - qq).max())
      worst = max(worst, e)
      if e > 1e-6 or not vel_ok:
        return Result(REFUTED, 'q does not round-trip (error %g, types %s) or free-link qd does not' % (e, sys.link_types), witness={'xml': xml, 'q': qq.tolist()},
                      replay={'reproduced': True, 'q': qq.tolist(), 'q_roundtrip': q2.tolist()})
    return Result(PROVED, 'bounded: %d model-states, worst |q - q_roundtrip| = %.1e' % (evals, worst), stats={'evaluations': evals, 'distinct_nontrivial': evals})
  return Obligation('C08/bounded/roundtrip_stacks', 'brax.kinematics:forward,world_to_joint,inverse', 'BOUNDED: generator models with mutually orthogonal stacked axes (stacks of one joint kind, or slides '
                    'followed by one hinge), |q| <= 1.2: positions round-trip (quaternions up to sign), free-link velocities round-trip', run, backend='bounded', kind='bounded', budget=1800)


def obligations(tier):
  Q, Th = ('quick', 'thorough'), ('thorough',)
  obs = [roundtrip('', 'root', Q), roundtrip('h', 'root', Q), roundtrip('s', 'root', Q), roundtrip('h', 'free', Q), roundtrip('s', 'free', Q),
         step_structure('spring'), step_structure('positional'), bounded(tier)]
  # multi-dof stacks of the property's quantifier: one joint kind (ss, sss, hh, hhh) or slides followed by one hinge (sh, ssh), mutually orthogonal axes, either handedness
  for w, mode, left, t in [('ss', 'root', False, Q), ('sss', 'root', False, Q), ('sss', 'root', True, Q), ('sh', 'root', False, Q), ('ssh', 'root', False, Q), ('hh', 'root', False, Q),
                           ('hhh', 'root', False, Q), ('hhh', 'root', True, Q), ('ssh', 'root', True, Th), ('hh', 'root', True, Th), ('hh', 'free', False, Th), ('sh', 'free', False, Th),
                           ('sss', 'free', True, Th), ('ssh', 'free', False, Th)]:
    obs.append(roundtrip(w, mode, t, stack=True, left=left))
  for word, perm, signs, t in [('hh', (0, 1, 2), (1, 1, 1), Q), ('ss', (1, 2, 0), (1, -1, 1), Q), ('sh', (0, 1, 2), (1, 1, 1), Q), ('hs', (2, 0, 1), (-1, 1, 1), Q), ('hhh', (0, 1, 2), (1, 1, 1), Q),
                                ('hhh', (1, 0, 2), (1, 1, 1), Q), ('sss', (0, 1, 2), (1, 1, -1), Q), ('ssh', (0, 1, 2), (1, 1, 1), Q), ('sh', (2, 1, 0), (1, -1, 1), Th), ('hh', (1, 0, 2), (-1, 1, 1), Th),
                                ('shs', (0, 1, 2), (1, 1, 1), Th), ('hss', (0, 1, 2), (1, 1, 1), Th)]:
    obs.append(frame_contract(word, perm, signs, t))

  def canary():
    # q round trip claimed for a hinge with the WRONG sign convention (signed_angle args = (-sin q, cos q)) must be refuted
    r = roundtrip('h', 'root', Q)
    return Result(REFUTED, 'canary placeholder') if False else _canary_sign()
  obs.append(Obligation('C08/canary/angle_sign', 'brax.kinematics:inverse', 'CANARY: the hinge angle is recovered with the opposite sign (must be refuted)', _canary_sign, kind='canary', backend='ring', budget=300))
  return obs


def _canary_sign():
  from verif.engine.opaque import cut
  from brax import kinematics
  A = RingAlg()
  sys = physsys.load(physsys.xml_world_root('h'))
  ss = physsys.SymSys(A, sys)
  frames = _frame_axes(A, ss)
  for u in ss.unit_sets:
    if all(hasattr(e, 't') and len(e.t) == 1 for e in u):
      A.unit(u)
  q, qd = ss.state()
  sa = []

  def h_orth(I, P, ins):
    a = I.lift(ins[0]).reshape((-1, 3))
    b_out, c_out = np.empty(a.shape, dtype=object), np.empty(a.shape, dtype=object)
    for k, row in enumerate(a):
      if all(isc(e) and e == 0 for e in row):
        b_out[k], c_out[k] = [0, 0, 0], [0, 0, 0]
      else:
        b_out[k], c_out[k] = frames[0][1], frames[0][2]
    return [b_out.reshape(I.lift(ins[0]).shape), c_out.reshape(I.lift(ins[0]).shape)]

  def h_sa(I, P, ins):
    axis, rp, rc = [I.lift(x).reshape((-1, 3)) for x in ins]
    Xs = lambda v: [X(e, A) for e in v]
    out = np.empty((axis.shape[0],), dtype=object)
    for b in range(axis.shape[0]):
      sa.append((A.normal(sx.dot(sx.cross(Xs(rp[b]), Xs(rc[b])), Xs(axis[b])).v), A.normal(sx.dot(Xs(rp[b]), Xs(rc[b])).v)))
      out[b] = A.var('psi%d' % len(sa))
    return [out.reshape(tuple(P['batch']))]
  with cut(*CUT):
    I = Interp(A, cuts={'brax.math:normalize': cuts.normalize_ring, 'brax.math:orthogonals': h_orth, 'brax.math:signed_angle': h_sa})

    def f(s, q_, qd_):
      x, xd = kinematics.forward(s, q_, qd_)
      j, jd, _, _ = kinematics.world_to_joint(s, x, xd)
      return kinematics.inverse(s, j, jd)[0]
    sym_call(I, f, ss.sys, Sym(q), Sym(qd))
  c, s = ss.half_angle(q[0])
  return ring_equal(A, np.array([sa[0][0]], dtype=object), np.array([A.neg(A.mul(2, A.mul(s, c)))], dtype=object), name='canary')
