"""C05 -- physics does not depend on how the scene is represented."""
from __future__ import annotations
import itertools
from fractions import Fraction
import numpy as np
import jax
import jax.numpy as jp

from verif.contracts.common import (Obligation, Result, Sym, sym_call, Interp, RingAlg, Z3Alg, ring_equal, combine, smt_prove, Stub,
                                    PROVED, REFUTED, UNDECIDED, ERROR, is_sym, isc, seed)
from verif.contracts import cuts, physsys
from verif.specs import sx
from verif.specs.sx import X

LEVEL = 'other'
EXPECTED_MIN = {'quick': 19, 'thorough': 20}
EXPLANATION = ('PROVED (exact normal form; g = (unit quaternion, translation) symbolic): to_local is left-invariant; world_to_joint maps a rigidly transformed state (g o x, R xd) to the SAME '
               'joint-frame pose and twist (j, jd) and to covariant anchors -- so every joint kernel, being a function of (j, jd), sees identical inputs; com.from_world / to_world / '
               'inv_inertia are covariant; the spring and positional integrators commute with g when gravity is rotated with the scene; spring.joints.resolve is covariant with the '
               'kernels cut; the positional PBD kernels _translation_update / _rotation_update and the glue of position_update (argument passing, parent gather / scatter) are covariant; forward kinematics is equivariant under a transformed free root (direct instance f+h); scan.tree results are permuted, not changed, by every sibling '
               'reordering (forests <= 4 links); the generalized pipeline stage by stage -- transform_com maps (g o x, T qd) to the rotated CoM-frame quantities (root translations stay world-aligned), mass.matrix and dynamics.inverse are invariant under a common rotation of all their spatial inputs and gravity; disconnected components do not couple in the mass matrix (C02/crb_form two-trees).  BOUNDED (not proof): whole-step commutation for '
               'the three pipelines on generated free-rooted models, sibling permutations and merged documents.')
TRUSTED = ['paper lemma: kernels that are functions of invariants (j, jd) give invariant joint forces; equivariance of the composed step from equivariance of its stages']
ASSUMPTIONS = ['exact reals', 'whole-step equivariance through the transcendental joint kernels is only bounded', 'generalized pipeline: stage covariance proved (transform_com, mass.matrix, dynamics.inverse); that M(g s) = T M T^T and bias(g s) = T bias(s) give qdd(g s) = T qdd(s), and the covariance of the free-joint position update (its formula is C02/integrator._integrate_q_free/step), are paper lemmas; the whole step is bounded']
BOUNDED_RULE = 'free-rooted generator models x random rigid transforms x pipelines; non-trivial = distinct (model, transform, pipeline)'


def _g(A):
  gq, gt = A.arr('gq', (4,)), A.arr('gt', (3,))
  A.unit(list(gq))
  return gq, gt


def _apply_T(A, gq, gt, pos, rot):
  """g o (pos, rot) for arrays of transforms"""
  n = pos.shape[0]
  p2, r2 = np.empty((n, 3), dtype=object), np.empty((n, 4), dtype=object)
  Xs = lambda v: [X(e, A) for e in v]
  for i in range(n):
    p, r = sx.t_compose(Xs(gt), Xs(gq), Xs(pos[i]), Xs(rot[i]))
    p2[i], r2[i] = [e.v for e in p], [e.v for e in r]
  return p2, r2


def _rot_v(A, gq, v):
  out = np.empty(v.shape, dtype=object)
  Xs = lambda w: [X(e, A) for e in w]
  for idx in np.ndindex(*v.shape[:-1]):
    out[idx] = [e.v for e in sx.qrot(Xs(gq), Xs(v[idx]))]
  return out


def to_local_invariant():
  def run():
    from brax.base import Transform
    A = RingAlg()
    gq, gt = _g(A)
    pa, qa, pb, qb = A.arr('pa', (1, 3)), A.arr('qa', (1, 4)), A.arr('pb', (1, 3)), A.arr('qb', (1, 4))
    A.unit(list(qb[0]))
    pa2, qa2 = _apply_T(A, gq, gt, pa, qa)
    pb2, qb2 = _apply_T(A, gq, gt, pb, qb)
    f = lambda p1, q1, p2, q2: Transform(pos=p1[0], rot=q1[0]).to_local(Transform(pos=p2[0], rot=q2[0]))
    t0 = sym_call(Interp(A), f, Sym(pa), Sym(qa), Sym(pb), Sym(qb))
    t1 = sym_call(Interp(A), f, Sym(pa2), Sym(qa2), Sym(pb2), Sym(qb2))
    return combine([ring_equal(A, t1.pos, t0.pos, name='pos'), ring_equal(A, t1.rot, t0.rot, name='rot')])
  return Obligation('C05/Transform.to_local/left_invariant', 'brax.base:Transform.to_local', 'to_local(g o a, g o b) = to_local(a, b) for every rigid transform g (unit quaternion, any translation), unit b.rot',
                    run, backend='ring', budget=200)


def w2j_invariant(word, tiers):
  xml = physsys.xml_free_parent(word)

  def run():
    from brax import kinematics
    from brax.base import Transform, Motion
    A = RingAlg()
    sys = physsys.load(xml)
    ss = physsys.SymSys(A, sys)
    ss.declare_units()
    n = sys.num_links()
    gq, gt = _g(A)
    xp, xr = A.arr('xp', (n, 3)), A.arr('xr', (n, 4))
    for i in range(n):
      A.unit(list(xr[i]))
    xa, xv = A.arr('xa', (n, 3)), A.arr('xv', (n, 3))
    f = lambda s, p, r, a, v: (lambda o: {'jp': o[0].pos, 'jr': o[0].rot, 'jda': o[1].ang, 'jdv': o[1].vel, 'app': o[2].pos, 'apr': o[2].rot, 'acp': o[3].pos, 'acr': o[3].rot})(
        kinematics.world_to_joint(s, Transform(pos=p, rot=r), Motion(ang=a, vel=v)))
    o0 = sym_call(Interp(A), f, ss.sys, Sym(xp), Sym(xr), Sym(xa), Sym(xv))
    xp2, xr2 = _apply_T(A, gq, gt, xp, xr)
    o1 = sym_call(Interp(A), f, ss.sys, Sym(xp2), Sym(xr2), Sym(_rot_v(A, gq, xa)), Sym(_rot_v(A, gq, xv)))
    # only links whose parent is a link are transformed consistently (the world does not move): compare the non-root link(s)
    nr = [i for i in range(n) if sys.link_parents[i] != -1]
    res = []
    for k in ('jp', 'jr', 'jda', 'jdv'):
      res.append(ring_equal(A, o1[k][nr], o0[k][nr], name=k + ' invariant'))
    app, apr = _apply_T(A, gq, gt, o0['app'], o0['apr'])
    acp, acr = _apply_T(A, gq, gt, o0['acp'], o0['acr'])
    res += [ring_equal(A, o1['app'][nr], app[nr], name='a_p covariant'), ring_equal(A, o1['apr'][nr], apr[nr], name='a_p.rot covariant'),
            ring_equal(A, o1['acp'][nr], acp[nr], name='a_c covariant'), ring_equal(A, o1['acr'][nr], acr[nr], name='a_c.rot covariant')]
    r = combine(res)
    if r.verdict == REFUTED:
      r.replay = _native_equivariance(('spring',), 4)
    return r
  return Obligation('C05/kinematics.world_to_joint/invariant[f+%s]' % word, 'brax.kinematics:world_to_joint', 'x, xd symbolic at the boundary: for non-root links the joint-frame pose j and twist jd are '
                    'INVARIANT under (x, xd) -> (g o x, R xd) and the anchors a_p, a_c are covariant, for all link transforms, anchors and g', run, backend='ring', tiers=tiers, budget=600)


def com_covariant():
  def run():
    from brax import com
    from brax.base import Transform, Motion
    A = RingAlg()
    sys = physsys.load(physsys.xml_free_parent('h'))
    n = sys.num_links()
    gq, gt = _g(A)
    ipos, irot = A.arr('ip', (n, 3)), A.arr('ir', (n, 4))
    for i in range(n):
      A.unit(list(irot[i]))
    idiag = A.arr('id', (n, 3))
    ii = np.zeros((n, 3, 3), dtype=object)
    for l in range(n):
      for a in range(3):
        ii[l][a][a] = idiag[l][a]
        A.declare_nonzero(idiag[l][a], 'inv_id%d_%d' % (l, a))
    inertia = sys.link.inertia.replace(transform=Transform(pos=Sym(ipos), rot=Sym(irot)), i=Sym(ii))
    sys2 = sys.replace(link=sys.link.replace(inertia=inertia))
    xp, xr = A.arr('xp', (n, 3)), A.arr('xr', (n, 4))
    for i in range(n):
      A.unit(list(xr[i]))
    xa, xv = A.arr('xa', (n, 3)), A.arr('xv', (n, 3))

    def f(s, p, r, a, v):
      x, xd = Transform(pos=p, rot=r), Motion(ang=a, vel=v)
      x_i, xd_i = com.from_world(s, x, xd)
      xb, xdb = com.to_world(s, x_i, xd_i)
      return {'xip': x_i.pos, 'xir': x_i.rot, 'xdia': xd_i.ang, 'xdiv': xd_i.vel, 'inv': com.inv_inertia(s, x), 'backp': xb.pos, 'backr': xb.rot, 'backa': xdb.ang, 'backv': xdb.vel}
    o0 = sym_call(Interp(A), f, sys2, Sym(xp), Sym(xr), Sym(xa), Sym(xv))
    xp2, xr2 = _apply_T(A, gq, gt, xp, xr)
    o1 = sym_call(Interp(A), f, sys2, Sym(xp2), Sym(xr2), Sym(_rot_v(A, gq, xa)), Sym(_rot_v(A, gq, xv)))
    p, r = _apply_T(A, gq, gt, o0['xip'], o0['xir'])
    R = sx.qmat([X(e, A) for e in gq])
    Rm = np.array([[R[a][b].v for b in range(3)] for a in range(3)], dtype=object)
    res = [ring_equal(A, o1['xip'], p, name='x_i.pos'), ring_equal(A, o1['xir'], r, name='x_i.rot'), ring_equal(A, o1['xdia'], _rot_v(A, gq, o0['xdia']), name='xd_i.ang'),
           ring_equal(A, o1['xdiv'], _rot_v(A, gq, o0['xdiv']), name='xd_i.vel')]
    # inverse inertia: I' = R I R^T
    for l in range(n):
      want = np.empty((3, 3), dtype=object)
      for a in range(3):
        for b in range(3):
          acc = 0
          for c in range(3):
            for d in range(3):
              acc = A.add(acc, A.mul(A.mul(Rm[a][c], o0['inv'][l][c][d]), Rm[b][d]))
          want[a][b] = acc
      res.append(ring_equal(A, o1['inv'][l], want, name='inv_inertia[%d] = R I R^T' % l))
    # to_world o from_world = id
    res += [ring_equal(A, o0['backp'], xp, name='to_world(from_world) pos'), ring_equal(A, o0['backr'], xr, name='rot'), ring_equal(A, o0['backa'], xa, name='ang'), ring_equal(A, o0['backv'], xv, name='vel')]
    return combine(res)
  return Obligation('C05/com.from_world,to_world,inv_inertia/covariant', 'brax.com:from_world,to_world,inv_inertia', 'CoM-frame pose and twist are covariant under g, inv_inertia(g o x) = R inv_inertia(x) R^T, '
                    'and to_world(from_world(x, xd)) = (x, xd); all inertial offsets / orientations / principal moments', run, backend='ring', budget=600)


def integrator_covariant(pipeline):
  def run():
    from verif.engine.opaque import cut
    from brax.base import Transform, Motion
    A = RingAlg()
    sys = physsys.load(physsys.xml_free())
    gq, gt = _g(A)
    dt = A.var('dt')
    grav = A.arr('grav', (3,))
    sys2 = sys.replace(opt=sys.opt.replace(timestep=Sym(dt)))
    p, r = A.arr('p', (1, 3)), A.arr('r', (1, 4))
    A.unit(list(r[0]))
    w, v, dw, dv = A.arr('w', (1, 3)), A.arr('v', (1, 3)), A.arr('dw', (1, 3)), A.arr('dv', (1, 3))
    if pipeline == 'spring':
      from brax.spring import integrator
      fn = lambda s, pp, rr, ww, vv, a, b: (lambda o: {'p': o[0].pos, 'r': o[0].rot, 'w': o[1].ang, 'v': o[1].vel})(
          integrator.integrate(s, Transform(pos=pp, rot=rr), Motion(ang=ww, vel=vv), Motion(ang=a, vel=b)))
    else:
      from brax.positional import integrator
      fn = lambda s, pp, rr, ww, vv, a, b: (lambda o: {'p': o[0].pos, 'r': o[0].rot, 'w': o[1].ang, 'v': o[1].vel})(
          integrator.integrate_xdd(s, Transform(pos=pp, rot=rr), Motion(ang=ww, vel=vv), Motion(ang=a, vel=b)))
    with cut('brax.math:normalize'):
      H = {'brax.math:normalize': cuts.normalize_ring}
      o0 = sym_call(Interp(A, cuts=H), fn, sys2, Sym(p), Sym(r), Sym(w), Sym(v), Sym(dw), Sym(dv))
      p2, r2 = _apply_T(A, gq, gt, p, r)
      o1 = sym_call(Interp(A, cuts=H), fn, sys2, Sym(p2), Sym(r2), Sym(_rot_v(A, gq, w)), Sym(_rot_v(A, gq, v)), Sym(_rot_v(A, gq, dw)), Sym(_rot_v(A, gq, dv)))
    pw, rw = _apply_T(A, gq, gt, o0['p'], o0['r'])
    res = [ring_equal(A, o1['p'], pw, name='pos'), ring_equal(A, o1['w'], _rot_v(A, gq, o0['w']), name='ang'), ring_equal(A, o1['v'], _rot_v(A, gq, o0['v']), name='vel')]
    # rotations: both are normalised by the same (invariant) norm: compare cross-multiplied
    res.append(ring_equal(A, o1['r'], rw, name='rot'))
    return combine(res)
  fnm = {'spring': 'brax.spring.integrator:integrate', 'positional': 'brax.positional.integrator:integrate_xdd'}[pipeline]
  return Obligation('C05/%s/covariant' % fnm.replace('brax.', '').replace(':', '.'), fnm, 'integrating (g o x, R xd, R dv) gives (g o x\', R xd\'): the integrator commutes with every rigid transform '
                    '(accelerations / velocity updates rotated with the scene, e.g. gravity)', run, backend='ring', budget=400)


def resolve_covariant():
  def run():
    from verif.engine.opaque import cut
    from verif.contracts import C04
    from brax.spring import joints
    from brax.base import Transform
    A = RingAlg()
    sys = physsys.load(C04.tree_xml(C04.SHAPES['f-(h,s)']))
    n = sys.num_links()
    gq, gt = _g(A)
    jf_a, jf_v = A.arr('jfa', (n, 3)), A.arr('jfv', (n, 3))          # the kernels' joint-frame forces: functions of the invariants (j, jd) -> identical in both runs
    app, apr, acp, xip = A.arr('app', (n, 3)), A.arr('apr', (n, 4)), A.arr('acp', (n, 3)), A.arr('xip', (n, 3))
    for i in range(n):
      A.unit(list(apr[i]))

    def h_kernel(I, P, ins):
      # joint-frame force of each link of this type, in link order
      names = P['name'].split(':')[1]
      t = {'_one_dof': '1', '_two_dof': '2', '_three_dof': '3'}[names]
      idx = [i for i, ty in enumerate(sys.link_types) if ty == t]
      return [jf_a[idx], jf_v[idx]]

    def f(ap_p, ap_r, ac_p, xi_p):
      z3_, z4 = jp.zeros((n, 3)), jp.tile(jp.array([1.0, 0, 0, 0]), (n, 1))
      st = Stub(j=Transform(pos=z3_, rot=z4), jd=None, a_p=Transform(pos=ap_p, rot=ap_r), a_c=Transform(pos=ac_p, rot=z4), x_i=Transform(pos=xi_p, rot=z4))
      from brax.base import Motion
      st = st.replace(jd=Motion(ang=z3_, vel=z3_))
      o = joints.resolve(sys, st, jp.zeros(sys.qd_size()))
      return o.ang, o.vel
    H = {k: h_kernel for k in C04.SPRING_KERNELS}
    with cut(*C04.SPRING_KERNELS):
      a0, v0 = sym_call(Interp(A, cuts=H), f, Sym(app), Sym(apr), Sym(acp), Sym(xip))
      app2, apr2 = _apply_T(A, gq, gt, app, apr)
      acp2, _ = _apply_T(A, gq, gt, acp, apr)
      xip2, _ = _apply_T(A, gq, gt, xip, apr)
      a1, v1 = sym_call(Interp(A, cuts=H), f, Sym(app2), Sym(apr2), Sym(acp2), Sym(xip2))
    return combine([ring_equal(A, v1, _rot_v(A, gq, v0), name='force'), ring_equal(A, a1, _rot_v(A, gq, a0), name='torque')])
  return Obligation('C05/spring.joints.resolve/covariant', 'brax.spring.joints:resolve', 'with the joint-frame kernel forces fixed (they are functions of the invariants j, jd): the world-frame link forces '
                    'and torques about the centres of mass are rotated by R when anchors and centres of mass are moved by g', run, backend='ring', budget=600)


def forward_equivariant(tiers):
  def run():
    from verif.engine.opaque import cut
    from brax import kinematics
    A = RingAlg()
    sys = physsys.load(physsys.xml_free_parent('h'))
    ss = physsys.SymSys(A, sys)
    ss.declare_units()
    q, qd = ss.state()
    gq, gt = _g(A)
    Xs = lambda v: [X(e, A) for e in v]
    p2, r2 = sx.t_compose(Xs(gt), Xs(gq), Xs(q[0:3]), Xs(q[3:7]))
    qg = q.copy()
    qg[0:3], qg[3:7] = [e.v for e in p2], [e.v for e in r2]
    qdg = qd.copy()
    qdg[0:3] = [e.v for e in sx.qrot(Xs(gq), Xs(qd[0:3]))]          # world-frame linear velocity rotates; body-frame angular velocity and joint rates do not change
    H = {'brax.math:normalize': cuts.normalize_ring}
    f = lambda s, a, b: (lambda o: {'p': o[0].pos, 'r': o[0].rot, 'w': o[1].ang, 'v': o[1].vel})(kinematics.forward(s, a, b))
    with cut('brax.math:normalize'):
      o0 = sym_call(Interp(A, cuts=H), f, ss.sys, Sym(q), Sym(qd))
      o1 = sym_call(Interp(A, cuts=H), f, ss.sys, Sym(qg), Sym(qdg))
    pw, rw = _apply_T(A, gq, gt, o0['p'], o0['r'])
    r = combine([ring_equal(A, o1['p'], pw, name='pos'), ring_equal(A, o1['r'], rw, name='rot'), ring_equal(A, o1['w'], _rot_v(A, gq, o0['w']), name='ang'),
                 ring_equal(A, o1['v'], _rot_v(A, gq, o0['v']), name='vel')])
    if r.verdict == REFUTED:
      r.replay = _native_equivariance(('spring',), 4)
    return r
  return Obligation('C05/kinematics.forward/equivariant[f+h]', 'brax.kinematics:forward', 'transforming the free root (pose g o root, world linear velocity rotated) transforms every link pose by g and every link '
                    'twist by R; non-root joint coordinates untouched (direct instance; in general a corollary of C01 + C09 associativity)', run, backend='ring', tiers=tiers, budget=900)


def sibling_permutation():
  def run():
    from brax import scan
    from brax.base import Q_WIDTHS, QD_WIDTHS
    from verif.contracts.C01 import forests
    count = 0
    for n in range(2, 5):
      for parents in forests(n):
        # all relabelings that keep parents before children and only reorder siblings (and their subtrees)
        for perm in itertools.permutations(range(n)):
          # perm[new] = old ; valid if the parent of every node precedes it
          inv = [0] * n
          for new, old in enumerate(perm):
            inv[old] = new
          newpar = [(-1 if parents[old] == -1 else inv[parents[old]]) for old in perm]
          if any(p >= i for i, p in enumerate(newpar)):
            continue
          count += 1
          ts = '1' * n
          L = np.arange(n, dtype=float) + 1

          def run_scan(par, ids):
            sys = Stub(static={'link_types': ts, 'link_parents': tuple(par)})
            f = lambda y, l: l + (0 if y is None else 1000.0 * y)
            return np.asarray(scan.tree(sys, f, 'l', jp.asarray(ids)))
          base = run_scan(parents, L)
          permuted = run_scan(newpar, L[list(perm)])
          if not np.allclose(permuted, base[list(perm)]):
            return Result(REFUTED, 'scan.tree results change under sibling reordering: parents %s perm %s' % (parents, perm), witness={'parents': list(parents), 'perm': list(perm)},
                          replay={'reproduced': True, 'base': base.tolist(), 'permuted': permuted.tolist()})
    return Result(PROVED, '%d (forest, order-preserving relabeling) pairs: the per-link results are permuted, not changed' % count, stats={'cases': count})
  return Obligation('C05/scan.tree/sibling_permutation[n<=4]', 'brax.scan:tree', 'for every forest <= 4 links and every relabeling that keeps parents before children (all sibling orders): result(relabelled) = '
                    'relabel(result) with an id payload carried down the tree', run, backend='enum+id-payload', budget=600)


def _native_equivariance(pipelines, n_models, steps=3):
  import importlib
  from brax.io import mjcf
  from verif.bounded import modelgen
  rng = np.random.RandomState(seed() + 47)
  worst = 0.0
  evals = 0
  diverged = 0
  from verif.engine.oblig import soft_deadline
  for k in range(n_models):
    if soft_deadline(0.5, k, 5):
      break
    xml, meta = modelgen.generate(rng, modelgen.Spec(all_free_roots=True, n_links=(1, 4), collide=False, orthogonal=True, single_kind_stack=True))
    sys = mjcf.loads(xml)
    gq = modelgen.rand_quat(rng)
    gt = rng.uniform(-3, 3, 3)

    def R(v):
      from brax import math
      return np.asarray(math.rotate(jp.asarray(v), jp.asarray(gq)))
    q, qd = modelgen.rand_state(rng, sys, 1.0, 0.5)
    qg, qdg = q.copy(), qd.copy()
    qi = di = 0
    from brax import math
    for t in sys.link_types:
      if t == 'f':
        qg[qi:qi + 3] = gt + R(q[qi:qi + 3])
        qg[qi + 3:qi + 7] = np.asarray(math.quat_mul(jp.asarray(gq), jp.asarray(q[qi + 3:qi + 7])))
        qdg[di:di + 3] = R(qd[di:di + 3])
        qi, di = qi + 7, di + 6
      else:
        qi, di = qi + int(t), di + int(t)
    sysg = sys.replace(gravity=jp.asarray(R(np.asarray(sys.gravity))))
    act = rng.uniform(-1, 1, sys.act_size())
    for pipeline in pipelines:
      pl = importlib.import_module('brax.%s.pipeline' % pipeline)
      s0 = pl.init(sys, jp.asarray(q), jp.asarray(qd))
      s1 = pl.init(sysg, jp.asarray(qg), jp.asarray(qdg))
      for _ in range(steps):
        s0 = pl.step(sys, s0, jp.asarray(act))
        s1 = pl.step(sysg, s1, jp.asarray(act))
      if float(jp.max(jp.abs(s0.qd))) > 1e4 or not bool(jp.all(jp.isfinite(s0.qd))):
        diverged += 1
        continue
      evals += 1
      want_pos = np.stack([gt + R(p) for p in np.asarray(s0.x.pos)])
      want_vel = np.stack([R(v) for v in np.asarray(s0.xd.vel)])
      e = max(float(np.abs(np.asarray(s1.x.pos) - want_pos).max()), float(np.abs(np.asarray(s1.xd.vel) - want_vel).max()))
      # non-root joint coordinates unchanged
      qi = 0
      for t in sys.link_types:
        if t == 'f':
          qi += 7
        else:
          e = max(e, float(np.abs(np.asarray(s1.q)[qi:qi + int(t)] - np.asarray(s0.q)[qi:qi + int(t)]).max()))
          qi += int(t)
      sc = max(1.0, float(np.abs(want_pos).max()), float(np.abs(want_vel).max()))
      worst = max(worst, e / sc)
      if e / sc > 1e-6:
        return {'reproduced': True, 'pipeline': pipeline, 'error': e, 'xml': xml, 'g_quat': gq.tolist(), 'g_trans': gt.tolist()}
  return {'reproduced': False, 'evaluations': evals, 'diverged': diverged, 'worst': worst}


def bounded(tier):
  def run():
    n = 5 if tier == 'quick' else 80
    r = _native_equivariance(('generalized', 'spring', 'positional'), n)
    if r.get('reproduced'):
      return Result(REFUTED, '%s: stepping the transformed scene differs from transforming the stepped scene by %g' % (r['pipeline'], r['error']), witness={'xml': r['xml']}, replay=r)
    p = _native_permutation(3 if tier == 'quick' else 40)
    if p.get('reproduced'):
      return Result(REFUTED, 'sibling order / merged components change the physics: %s' % p['what'], replay=p)
    return Result(PROVED, 'bounded: %d (model, transform, pipeline) step commutations (worst relative %.1e, %d diverged and skipped); %d sibling-order / merged-document comparisons'
                  % (r['evaluations'], r['worst'], r['diverged'], p['evaluations']), stats={'evaluations': r['evaluations'] + p['evaluations'], 'distinct_nontrivial': r['evaluations'] + p['evaluations']})
  return Obligation('C05/bounded/step_commutes', 'brax.{generalized,spring,positional}.pipeline:init,step', 'BOUNDED: step(g . scene) = g . step(scene) with gravity rotated, 3 steps, free-rooted generator models; '
                    'sibling reordering permutes results; two models merged into one document evolve as each alone', run, backend='bounded', kind='bounded', budget=2400)


def _native_permutation(n):
  import importlib
  import re
  from xml.etree import ElementTree
  from brax.io import mjcf
  from verif.bounded import modelgen
  rng = np.random.RandomState(seed() + 53)
  evals = 0
  from verif.engine.oblig import soft_deadline
  for k in range(n):
    if soft_deadline(0.8, k, 3):
      break
    xa, _ = modelgen.generate(rng, modelgen.Spec(all_free_roots=True, n_links=(1, 3), collide=False, actuators=(0, 0)))
    xb, _ = modelgen.generate(rng, modelgen.Spec(all_free_roots=True, n_links=(1, 3), collide=False, actuators=(0, 0)))
    ra, rb = ElementTree.fromstring(xa), ElementTree.fromstring(xb)
    for e in rb.iter():
      for key in ('name', 'joint'):
        if key in e.attrib:
          e.attrib[key] = 'B' + e.attrib[key]
    merged = ElementTree.fromstring(xa)
    wb = merged.find('worldbody')
    for c in list(rb.find('worldbody')):
      wb.append(c)
    xm = ElementTree.tostring(merged, encoding='unicode')
    sa, sb, sm = mjcf.loads(xa), mjcf.loads(ElementTree.tostring(rb, encoding='unicode')), mjcf.loads(xm)
    qa, qda = modelgen.rand_state(rng, sa, 1.0, 0.5)
    qb, qdb = modelgen.rand_state(rng, sb, 1.0, 0.5)
    for pipeline in ('generalized', 'spring', 'positional'):
      pl = importlib.import_module('brax.%s.pipeline' % pipeline)
      kw = {}
      ssa, ssb, ssm = sa, sb, sm
      if pipeline == 'generalized':
        ssa, ssb, ssm = [s.replace(matrix_inv_iterations=0) for s in (sa, sb, sm)]
      s1 = pl.step(ssa, pl.init(ssa, jp.asarray(qa), jp.asarray(qda)), jp.zeros(0))
      s2 = pl.step(ssb, pl.init(ssb, jp.asarray(qb), jp.asarray(qdb)), jp.zeros(0))
      s3 = pl.step(ssm, pl.init(ssm, jp.asarray(np.concatenate([qa, qb])), jp.asarray(np.concatenate([qda, qdb]))), jp.zeros(0))
      evals += 1
      e = max(float(np.abs(np.asarray(s3.q) - np.concatenate([np.asarray(s1.q), np.asarray(s2.q)])).max()), float(np.abs(np.asarray(s3.qd) - np.concatenate([np.asarray(s1.qd), np.asarray(s2.qd)])).max()))
      if e > 1e-7:
        return {'reproduced': True, 'what': '%s: merged components differ from the separate models by %g' % (pipeline, e), 'xml': xm}
  return {'reproduced': False, 'evaluations': evals}



# ---- positional joint projection (position_update) --------------------------------------------------------------------------------------------
def _rotI(A, gq, I3):
  R = sx.qmat([X(e, A) for e in gq])
  Rm = [[R[a][b].v for b in range(3)] for a in range(3)]
  out = np.empty((3, 3), dtype=object)
  for a in range(3):
    for b in range(3):
      acc = 0
      for c in range(3):
        for d in range(3):
          acc = A.add(acc, A.mul(A.mul(Rm[a][c], I3[c][d]), Rm[b][d]))
      out[a][b] = acc
  return out


def _symI(A, tag):
  iv = np.empty((3, 3), dtype=object)
  for a in range(3):
    for b in range(a, 3):
      iv[a][b] = iv[b][a] = A.var('%s_%d%d' % (tag, a, b))
  return iv


def _qleft(A, gq, r):
  out = np.empty(r.shape, dtype=object)
  for idx in np.ndindex(*r.shape[:-1]):
    out[idx] = [e.v for e in sx.qmul([X(e, A) for e in gq], [X(e, A) for e in r[idx]])]
  return out


def pbd_kernel_covariant(which):
  """_translation_update / _rotation_update: rigid transform of every argument (positions by g, orientations left-multiplied, inverse inertias R I R^T, the
  displacement rotated) transforms the returned position increments by R and the returned quaternion increments by left multiplication with g.rot;
  a zero displacement gives a zero update whatever the other arguments are."""
  fn_name = '_translation_update' if which == 'translation' else '_rotation_update'

  def run():
    from verif.engine.opaque import cut
    from brax.positional import joints
    from brax.base import Transform
    A = RingAlg()
    gq, gt = _g(A)
    ap, xpp, xpr, ac, xcp, xcr, dx = (A.arr('ap', (1, 3)), A.arr('xpp', (1, 3)), A.arr('xpr', (1, 4)), A.arr('ac', (1, 3)), A.arr('xcp', (1, 3)), A.arr('xcr', (1, 4)),
                                       A.arr('dx', (1, 3)))
    A.unit(list(xpr[0]))
    A.unit(list(xcr[0]))
    Ip, Ic = _symI(A, 'Ip'), _symI(A, 'Ic')
    mp, mc = np.array(A.var('mp'), dtype=object), np.array(A.var('mc'), dtype=object)
    z4 = jp.array([1.0, 0, 0, 0])
    if which == 'translation':
      def f(ap, xpp, xpr, Ip, mp, ac, xcp, xcr, Ic, mc, dx):
        # private helpers are called by parameter NAME: their argument order is not part of any contract
        o = joints._translation_update(pos_p=Transform(pos=ap[0], rot=z4), xi_p=Transform(pos=xpp[0], rot=xpr[0]), i_inv_p=Ip, mass_inv_p=mp, pos_c=Transform(pos=ac[0], rot=z4),
                                       xi_c=Transform(pos=xcp[0], rot=xcr[0]), i_inv_c=Ic, mass_inv_c=mc, dx=dx[0])
        return o[0].pos, o[0].rot, o[1].pos, o[1].rot
    else:
      def f(ap, xpp, xpr, Ip, mp, ac, xcp, xcr, Ic, mc, dx):
        o = joints._rotation_update(xi_p=Transform(pos=xpp[0], rot=xpr[0]), i_inv_p=Ip, xi_c=Transform(pos=xcp[0], rot=xcr[0]), i_inv_c=Ic, dq=dx[0])
        return o[0].pos, o[0].rot, o[1].pos, o[1].rot
    T = lambda p_, r_: _apply_T(A, gq, gt, p_, r_)
    with cut('brax.math:normalize'):
      H = {'brax.math:normalize': cuts.normalize_ring}
      I0 = Interp(A, cuts=H)
      o0 = sym_call(I0, f, Sym(ap), Sym(xpp), Sym(xpr), Sym(Ip), Sym(mp), Sym(ac), Sym(xcp), Sym(xcr), Sym(Ic), Sym(mc), Sym(dx))
      ap2, _ = T(ap, xpr)
      xpp2, xpr2 = T(xpp, xpr)
      ac2, _ = T(ac, xcr)
      xcp2, xcr2 = T(xcp, xcr)
      o1 = sym_call(Interp(A, cuts=H), f, Sym(ap2), Sym(xpp2), Sym(xpr2), Sym(_rotI(A, gq, Ip)), Sym(mp), Sym(ac2), Sym(xcp2), Sym(xcr2), Sym(_rotI(A, gq, Ic)), Sym(mc), Sym(_rot_v(A, gq, dx)))
      zero = np.zeros((1, 3), dtype=object)
      oz = sym_call(Interp(A, cuts=H), f, Sym(ap), Sym(xpp), Sym(xpr), Sym(Ip), Sym(mp), Sym(ac), Sym(xcp), Sym(xcr), Sym(Ic), Sym(mc), zero.astype(float))
    res = [ring_equal(A, o1[0], _rot_v(A, gq, np.asarray(o0[0], dtype=object)), name='parent pos increment'), ring_equal(A, o1[2], _rot_v(A, gq, np.asarray(o0[2], dtype=object)), name='child pos increment'),
           ring_equal(A, o1[1], _qleft(A, gq, np.asarray(o0[1], dtype=object)), name='parent rot increment'), ring_equal(A, o1[3], _qleft(A, gq, np.asarray(o0[3], dtype=object)), name='child rot increment')]
    for k, nm in enumerate(('parent pos', 'parent rot', 'child pos', 'child rot')):
      res.append(ring_equal(A, oz[k], np.zeros(np.shape(oz[k])), name='zero displacement -> zero %s increment' % nm))
    r = combine(res)
    if r.verdict == REFUTED:
      r.replay = _native_equivariance(('positional',), 4)
    r.stats = dict(r.stats or {}, side_notes=len(I0.side_notes))
    return r
  return Obligation('C05/positional.joints.%s/covariant' % fn_name, 'brax.positional.joints:%s' % fn_name,
                    'the PBD %s kernel commutes with every rigid transform g of its arguments (increments rotated / left-multiplied by g.rot), and a zero displacement '
                    'gives a zero update; all lever arms, orientations, symmetric inverse inertias, inverse masses' % which, run, backend='ring', budget=400,
                    assumes=('normalize through its verified contract (C09)',))


def position_update_covariant(shape='f-(h,s)'):
  """positional joint projection x_i' = position_update(sys, state), callees through their covariance contracts: world_to_joint (C05/.../invariant: j invariant, anchors
  covariant), com.inv_inertia (R I R^T), _three_dof_joint_update (a function of the invariant j), _translation_update / _rotation_update (C05/.../covariant).  Proved here:
  the ARGUMENTS position_update hands to the two PBD kernels in the transformed scene are the g-images of the arguments in the original scene (this covers the rotation of the
  joint-frame displacement into the world, the parent gather and the masks), and the assembled result (scales, parent scatter, + x_i) is the g-image of the original result."""
  def run():
    from verif.engine.opaque import cut, arg
    from verif.contracts import C04
    from brax.positional import joints
    from brax.base import Transform, Motion
    A = RingAlg()
    sys = physsys.load(C04.tree_xml(C04.SHAPES[shape]))
    n = sys.num_links()
    roots = [i for i in range(n) if sys.link_parents[i] == -1]
    if any(sys.link_types[i] != 'f' for i in roots):
      return Result(ERROR, 'harness: the model must be free-rooted')
    gq, gt = _g(A)
    xip, xir = A.arr('xip', (n, 3)), A.arr('xir', (n, 4))
    app, apr, acp, acr = A.arr('app', (n, 3)), A.arr('apr', (n, 4)), A.arr('acp', (n, 3)), A.arr('acr', (n, 4))
    for i in range(n):
      A.unit(list(xir[i]))
      A.unit(list(apr[i]))
      A.unit(list(acr[i]))
    djp, djr = A.arr('djp', (n, 3)), A.arr('djr', (n, 3))       # joint-frame displacement: a function of the invariant j -> identical in both runs
    jpv, jrv = A.arr('jp', (n, 3)), A.arr('jr', (n, 4))
    iv = np.array([_symI(A, 'iinv%d' % l) for l in range(n)], dtype=object)
    z3_ = np.zeros((n, 3), dtype=object)
    T = lambda p_, r_: _apply_T(A, gq, gt, p_, r_)

    def is_zero_row(row):
      return all(isc(e) and e == 0 for e in np.asarray(row, dtype=object).reshape(-1))

    def mk(run_id, rec, presets):
      def kernel(name, disp_arg):
        def h(I, P, ins):
          d = np.asarray(I.lift(arg(P, ins, disp_arg)), dtype=object)
          if run_id == 0:
            outs = I.fresh_outputs(P, tag=name)
            outs = [np.asarray(o, dtype=object).copy() for o in outs]
            for l in range(n):
              if is_zero_row(d[l]):            # kernel clause "zero displacement -> zero update"
                for o in outs:
                  o[l] = 0
            presets[name] = outs
          else:
            o0 = presets[name]
            outs = [_rot_v(A, gq, o0[0]), _qleft(A, gq, o0[1]), _rot_v(A, gq, o0[2]), _qleft(A, gq, o0[3])]
            for l in range(n):
              if is_zero_row(d[l]):
                for o in outs:
                  o[l] = 0
          rec[name] = (list(P['argnames']), [I.lift(x) if is_sym(x) else np.asarray(x) for x in ins])
          return outs
        return h
      ap_, apq_, ac_, acq_, I_ = (app, apr, acp, acr, iv) if run_id == 0 else (*T(app, apr), *T(acp, acr), np.array([_rotI(A, gq, iv[l]) for l in range(n)], dtype=object))
      return {'brax.kinematics:world_to_joint': lambda I, P, ins: [jpv, jrv, z3_, z3_, ap_, apq_, ac_, acq_],
              'brax.positional.joints:_three_dof_joint_update': lambda I, P, ins: [djp, djr],
              'brax.com:inv_inertia': lambda I, P, ins: [I_],
              'brax.positional.joints:_translation_update': kernel('translation', 'dx'),
              'brax.positional.joints:_rotation_update': kernel('rotation', 'dq')}

    def f(p, r):
      zz = jp.zeros((n, 3))
      st = Stub(x_i=Transform(pos=p, rot=r), x=Transform(pos=zz, rot=jp.tile(jp.array([1.0, 0, 0, 0]), (n, 1))), xd=Motion(ang=zz, vel=zz))
      o = joints.position_update(sys, st)
      return o.pos, o.rot
    targets = ('brax.kinematics:world_to_joint', 'brax.positional.joints:_three_dof_joint_update', 'brax.com:inv_inertia', 'brax.positional.joints:_translation_update',
               'brax.positional.joints:_rotation_update')
    rec0, rec1, presets = {}, {}, {}
    with cut(*targets):
      I0 = Interp(A, cuts=mk(0, rec0, presets))
      p0, r0 = sym_call(I0, f, Sym(xip), Sym(xir))
      xip2, xir2 = T(xip, xir)
      I1 = Interp(A, cuts=mk(1, rec1, presets))
      p1, r1 = sym_call(I1, f, Sym(xip2), Sym(xir2))
    if set(rec0) != {'translation', 'rotation'} or set(rec1) != {'translation', 'rotation'}:
      return Result(REFUTED, 'position_update does not go through _translation_update and _rotation_update (calls seen: %s)' % sorted(rec0), replay=_native_equivariance(('positional',), 4))
    res = []
    nr = [i for i in range(n) if i not in roots]
    # arguments of the kernels: run 2 = g-image of run 1 (non-root links; for free roots the displacement is identically zero in both runs)
    for name in ('translation', 'rotation'):
      (names, a0), (_, a1) = rec0[name], rec1[name]
      by0, by1 = {}, {}
      for nm, x, y in zip(names, a0, a1):
        by0.setdefault(nm, []).append(np.asarray(x, dtype=object))
        by1.setdefault(nm, []).append(np.asarray(y, dtype=object))
      disp = 'dx' if name == 'translation' else 'dq'
      for l in roots:
        res.append(ring_equal(A, by0[disp][0][l], np.zeros(3), name='%s: root displacement is zero' % name))
        res.append(ring_equal(A, by1[disp][0][l], np.zeros(3), name='%s: root displacement is zero (transformed)' % name))
      res.append(ring_equal(A, by1[disp][0][nr], _rot_v(A, gq, by0[disp][0])[nr], name='%s: displacement rotated' % name))
      for nm in [k for k in ('pos_p', 'pos_c', 'xi_p', 'xi_c') if k in by0]:
        pw, rw = T(by0[nm][0], by0[nm][1])
        res.append(ring_equal(A, by1[nm][0][nr], pw[nr], name='%s: %s.pos moved by g' % (name, nm)))
        if nm.startswith('xi'):
          res.append(ring_equal(A, by1[nm][1][nr], rw[nr], name='%s: %s.rot moved by g' % (name, nm)))
      for nm in ('i_inv_p', 'i_inv_c'):
        want = np.array([_rotI(A, gq, by0[nm][0][l]) for l in range(n)], dtype=object)
        res.append(ring_equal(A, by1[nm][0][nr], want[nr], name='%s: %s = R I R^T' % (name, nm)))
      for nm in [k for k in ('mass_inv_p', 'mass_inv_c') if k in by0]:
        res.append(ring_equal(A, by1[nm][0], by0[nm][0], name='%s: %s unchanged' % (name, nm)))
    # assembled result
    want_p, _ = T(np.asarray(p0, dtype=object), xir)
    res += [ring_equal(A, p1, want_p, name="x_i'.pos moved by g"), ring_equal(A, r1, _qleft(A, gq, np.asarray(r0, dtype=object)), name="x_i'.rot left-multiplied by g.rot")]
    r = combine(res)
    if r.verdict == REFUTED:
      r.replay = _native_equivariance(('positional',), 4)
    r.stats = dict(r.stats or {}, opaque_calls=len(I0.calls) + len(I1.calls), argument_clauses=len(res) - 2)
    return r
  return Obligation('C05/positional.joints.position_update/covariant[%s]' % shape, 'brax.positional.joints:position_update',
                    'position_update(g o state) = g o position_update(state): the arguments handed to _translation_update / _rotation_update in the transformed scene are the '
                    'g-images of the original arguments (rotation of the joint-frame displacement into the world, parent gather, masks) and the assembled result (scales, parent '
                    'scatter, + x_i) is the g-image of the original one; for all CoM poses, anchors, inverse inertias, joint-frame displacements and g', run, backend='ring', budget=900,
                    assumes=('C05/kinematics.world_to_joint/invariant', 'C05/com.from_world,to_world,inv_inertia/covariant', 'C05/positional.joints._translation_update/covariant',
                             'C05/positional.joints._rotation_update/covariant', 'paper lemma: the joint-frame displacement kernel is a function of the invariant j'))

def generalized_stage_invariant(which, name):
  """mass.matrix and dynamics.inverse are functions of the CoM-frame quantities (cinr, cdof, cd, cdofd) and gravity only: rotating ALL of them by one rotation changes nothing.
  (Translations do not enter at all: everything is expressed about the tree's centre of mass.)"""
  from verif.contracts import C02
  parents, types = C02.FORESTS[name]

  def run():
    from brax.generalized import mass, dynamics
    from brax.base import Motion, Inertia, Transform
    A = RingAlg()
    sys = C02._forest_sys(parents, types)
    n, nv = sys.num_links(), sys.qd_size()
    cinr, fm, ii, m = C02.sym_inertia(A, n)
    gq, _ = _g(A)
    Xs = lambda v: [X(e, A) for e in v]
    R = sx.qmat(Xs(gq))
    rotv = lambda arr: _rot_v(A, gq, arr)

    def rot_inertia():
      i2 = np.empty((n, 3, 3), dtype=object)
      for l in range(n):
        for a in range(3):
          for b in range(3):
            acc = X(0, A)
            for c in range(3):
              for d in range(3):
                acc = acc + R[a][c] * X(ii[l][c][d], A) * R[b][d]
            i2[l][a][b] = acc.v
      return Inertia(transform=Transform(pos=Sym(rotv(fm)), rot=jp.tile(jp.array([1.0, 0, 0, 0]), (n, 1))), i=Sym(i2), mass=Sym(m))
    ca, cv = A.arr('da', (nv, 3)), A.arr('dv', (nv, 3))
    if which == 'mass':
      arm = A.arr('arm', (nv,))
      sys2 = sys.replace(dof=sys.dof.replace(armature=Sym(arm)))
      M0 = sym_call(Interp(A), mass.matrix, sys2, Stub(cinr=cinr, cdof=Motion(ang=Sym(ca), vel=Sym(cv))))
      M1 = sym_call(Interp(A), mass.matrix, sys2, Stub(cinr=rot_inertia(), cdof=Motion(ang=Sym(rotv(ca)), vel=Sym(rotv(cv)))))
      return ring_equal(A, M1, M0, name='mass matrix invariant')
    da, dv = A.arr('dda', (nv, 3)), A.arr('ddv', (nv, 3))
    cda, cdv = A.arr('cda', (n, 3)), A.arr('cdv', (n, 3))
    qd, g = A.arr('qd', (nv,)), A.arr('g', (3,))
    st0 = Stub(cinr=cinr, cdof=Motion(ang=Sym(ca), vel=Sym(cv)), cdofd=Motion(ang=Sym(da), vel=Sym(dv)), cd=Motion(ang=Sym(cda), vel=Sym(cdv)), qd=Sym(qd))
    st1 = Stub(cinr=rot_inertia(), cdof=Motion(ang=Sym(rotv(ca)), vel=Sym(rotv(cv))), cdofd=Motion(ang=Sym(rotv(da)), vel=Sym(rotv(dv))),
               cd=Motion(ang=Sym(rotv(cda)), vel=Sym(rotv(cdv))), qd=Sym(qd))
    t0 = sym_call(Interp(A), dynamics.inverse, sys.replace(gravity=Sym(g)), st0)
    t1 = sym_call(Interp(A), dynamics.inverse, sys.replace(gravity=Sym(rotv(g.reshape(1, 3)).reshape(3))), st1)
    return ring_equal(A, t1, t0, name='bias force invariant')
  fn = {'mass': 'brax.generalized.mass:matrix', 'bias': 'brax.generalized.dynamics:inverse'}[which]
  return Obligation('C05/%s/rotation_invariant[%s]' % (fn.replace('brax.', '').replace(':', '.'), name), fn,
                    'with SYMBOLIC CoM-frame inputs (cinr, cdof%s) and a symbolic rotation R: rotating every spatial quantity%s by R leaves the %s unchanged (translations do not enter: '
                    'all quantities are about the tree centre of mass)' % ((', cd, cdofd, qd, gravity', ' and gravity', 'bias force') if which == 'bias' else ('', '', 'mass matrix')),
                    run, backend='ring', budget=900)


def transform_com_covariant(word, tiers):
  """transform_com on (g o x, q, T qd) vs (x, q, qd): the CoM-frame quantities are rotated by R, root_com is moved by g; the translational dofs of a free root stay world-aligned
  (their coordinates qd are rotated instead: T = diag(R, 1, ..., 1))"""
  xml = physsys.xml_free_parent(word)

  def run():
    from verif.engine.opaque import cut
    from verif.contracts import C02
    from brax.generalized import dynamics
    A = RingAlg()
    sys = physsys.load(xml)
    ss = physsys.SymSys(A, sys)
    ss.declare_units()
    q, qd = ss.state()
    ss.slide_hints(q)
    n, nv = sys.num_links(), sys.qd_size()
    gq, gt = _g(A)
    st0, xp, xr = C02._state(A, sys, q, qd)
    xp2, xr2 = _apply_T(A, gq, gt, xp, xr)
    qd2 = qd.copy()
    qd2[0:3] = _rot_v(A, gq, qd[0:3].reshape(1, 3)).reshape(3)          # the root's world-frame linear velocity is rotated; body-frame angular velocity and joint rates are not
    from brax.base import Transform
    st1 = st0.replace(x=Transform(pos=Sym(xp2), rot=Sym(xr2)), qd=Sym(qd2))
    f = lambda s, state: (lambda r: {'root_com': r.root_com, 'ci': r.cinr.i, 'cfm': r.cinr.transform.pos, 'cm': r.cinr.mass, 'ang': r.cdof.ang, 'vel': r.cdof.vel,
                                     'cd_ang': r.cd.ang, 'cd_vel': r.cd.vel, 'dd_ang': r.cdofd.ang, 'dd_vel': r.cdofd.vel})(dynamics.transform_com(s, state))
    with cut(*C02.CUT):
      o0 = sym_call(Interp(A, cuts=C02.CUTS), f, ss.sys, st0)
      o1 = sym_call(Interp(A, cuts=C02.CUTS), f, ss.sys, st1)
    Xs = lambda v: [X(e, A) for e in v]
    R = sx.qmat(Xs(gq))
    res = []
    rc = np.empty((n, 3), dtype=object)
    for l in range(n):
      p_, _ = sx.t_compose(Xs(gt), Xs(gq), Xs(o0['root_com'][l]), [X(1, A), X(0, A), X(0, A), X(0, A)])
      rc[l] = [e.v for e in p_]
    res.append(ring_equal(A, o1['root_com'], rc, name='root_com moved by g'))
    i2 = np.empty((n, 3, 3), dtype=object)
    for l in range(n):
      for a in range(3):
        for b in range(3):
          acc = X(0, A)
          for c in range(3):
            for d in range(3):
              acc = acc + R[a][c] * X(o0['ci'][l][c][d], A) * R[b][d]
          i2[l][a][b] = acc.v
    res += [ring_equal(A, o1['ci'], i2, name='cinr.i -> R i R^T'), ring_equal(A, o1['cfm'], _rot_v(A, gq, o0['cfm']), name='cinr first moment rotated'),
            ring_equal(A, o1['cm'], o0['cm'], name='cinr.mass')]
    rot_dofs = list(range(3, nv))          # every dof except the root's three world-aligned translations
    for k in ('ang', 'vel', 'dd_ang', 'dd_vel'):
      res.append(ring_equal(A, o1[k][rot_dofs], _rot_v(A, gq, o0[k][rot_dofs]), name='%s rotated' % k))
      res.append(ring_equal(A, o1[k][0:3], o0[k][0:3], name='%s of the root translations unchanged (world-aligned basis)' % k))
    for k in ('cd_ang', 'cd_vel'):
      res.append(ring_equal(A, o1[k], _rot_v(A, gq, o0[k]), name='%s rotated' % k))
    r = combine(res)
    r.stats.update({'peak_terms': A.peak})
    if r.verdict == REFUTED:
      r.replay = _native_equivariance(('generalized',), 4)
    return r
  return Obligation('C05/generalized.dynamics.transform_com/covariant[f+%s]' % word, 'brax.generalized.dynamics:transform_com',
                    'x symbolic at the boundary, g = (unit quaternion, translation) symbolic, qd -> T qd (root linear velocity rotated): root_com is moved by g; cinr, cd and every dof axis / '
                    'axis derivative except the three world-aligned root translations are rotated by R; with mass.matrix and dynamics.inverse rotation-invariant this gives M(g s) = T M(s) T^T and '
                    'bias(g s) = T bias(s)', run, backend='ring', tiers=tiers, budget=1500)


def obligations(tier):
  Q, Th = ('quick', 'thorough'), ('thorough',)
  obs = [to_local_invariant(), w2j_invariant('h', Q), w2j_invariant('sh', Th), com_covariant(), integrator_covariant('spring'), integrator_covariant('positional'), resolve_covariant(), pbd_kernel_covariant('translation'), pbd_kernel_covariant('rotation'), position_update_covariant(),
         forward_equivariant(Q), sibling_permutation(), bounded(tier)]
  # generalized pipeline, stage by stage at the function boundaries: transform_com is covariant, mass.matrix and dynamics.inverse are rotation invariant
  obs += [generalized_stage_invariant('mass', 'chain3[1,2,1]'), generalized_stage_invariant('bias', 'chain3[1,2,1]'), generalized_stage_invariant('mass', 'two-trees[f,1;2]'),
          generalized_stage_invariant('bias', 'two-trees[f,1;2]'), transform_com_covariant('h', Q), transform_com_covariant('s', Th)]
  # "listing sibling bodies in a different order only permutes the per-link results": two trees with the same joint types evaluated in one process (C02's history obligation)
  from verif.contracts import C02
  hb = C02.crb_history(Q)
  hb.id = hb.id.replace('C02/', 'C05/')
  obs.append(hb)
  # premises: "every quantity is carried in an explicit frame and moved with Transform.do / inv_do / math.rotate" -- the frame-moving helpers are what they claim to be
  # (the corresponding C09 obligations, carried here as premises so that a slip in one of them is reported against C05 as well)
  # the callee contract of scan._take (every index list, also those only forests of 7+ links produce) -- shared with C01
  from verif.contracts import C01
  tk = C01.take_contract(4, 4) if tier == 'quick' else C01.take_contract(5, 5)
  tk.id = 'C05/scan._take/gather'
  obs.append(tk)
  from verif.contracts import C09
  want = ('C09/quat_mul/hamilton', 'C09/rotate/sandwich', 'C09/vec_quat_mul/embed', 'C09/Transform.do/spec', 'C09/Transform.do[Motion]/spec', 'C09/Transform.do[Force]/spec',
          'C09/Transform.do[Motion]/inverse', 'C09/relative_quat/def')
  for o in C09.obligations(tier):
    if o.id in want:
      o.id = o.id.replace('C09/', 'C05/premise/')
      obs.append(o)

  def canary():
    # invariance of the WORLD-frame anchor a_p (it is covariant, not invariant) must be refuted
    from brax import kinematics
    from brax.base import Transform, Motion
    A = RingAlg()
    sys = physsys.load(physsys.xml_free_parent('h'))
    ss = physsys.SymSys(A, sys)
    ss.declare_units()
    gq, gt = _g(A)
    xp, xr = A.arr('xp', (2, 3)), A.arr('xr', (2, 4))
    for i in range(2):
      A.unit(list(xr[i]))
    f = lambda s, p, r: kinematics.world_to_joint(s, Transform(pos=p, rot=r), Motion(ang=jp.zeros((2, 3)), vel=jp.zeros((2, 3))))[2].pos
    o0 = sym_call(Interp(A), f, ss.sys, Sym(xp), Sym(xr))
    xp2, xr2 = _apply_T(A, gq, gt, xp, xr)
    o1 = sym_call(Interp(A), f, ss.sys, Sym(xp2), Sym(xr2))
    return ring_equal(A, o1[1], o0[1], name='canary')
  obs.append(Obligation('C05/canary/anchor_invariant', 'brax.kinematics:world_to_joint', 'CANARY: the world-frame parent anchor is invariant under g (must be refuted)', canary, kind='canary', backend='ring', budget=300))
  return obs
