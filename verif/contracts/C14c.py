"""C14 (second sentence) -- load_model maps an MjModel to a System consistently.

`mjcf.load_model` is host-side numpy code up to its last two lines.  It is executed as it is (Engine P / N) on a proxy MjModel whose real-valued fields are SYMBOLIC
(object arrays of z3-backed numbers) and whose discrete structure (joint-type vector, joint -> body grouping, body tree, limited flags, actuator targets) is enumerated.
Two calls are shimmed inside the checker process and stated as dropped: `mjx.put_model(mj)` (needs a real MjModel; it only contributes the mjx fields that are splatted
into the System unchanged) and the final `jax.tree.map(jp.array, sys)` (device placement).  The MuJoCo compiler (XML -> MjModel) is outside: bounded stand-in only.
The expected values are written here from the property statement, independently of the code: per body the joint stack gives the link type, the coordinate widths
(7/6 free, 1/1 hinge or slide) give the counts, body_parentid - 1 the parents, the actuator's transmission joint its q / qd address."""
from __future__ import annotations
import types
from fractions import Fraction
import numpy as np

from verif.contracts.common import Obligation, Result, PROVED, REFUTED, UNDECIDED, ERROR, seed
from verif.engine import pathexec as px

QW = {0: 7, 2: 1, 3: 1}
QDW = {0: 6, 2: 1, 3: 1}
_TEMPLATE = None


def structures(tier):
  """(jnt_type per joint, body id per joint, body parents, limited flags, actuator target joints, unlimited flags per actuator)"""
  out = []
  rng = np.random.RandomState(seed() + 29)
  stacks = [(0,), (3,), (2,), (3, 3), (2, 3), (3, 2), (2, 2), (3, 3, 3), (2, 2, 2), (3, 2, 3), (2, 3, 3)]
  trees = {1: [[0]], 2: [[0, 1], [0, 0]], 3: [[0, 1, 2], [0, 1, 1], [0, 0, 0], [0, 0, 1]]}          # parent BODY id of bodies 1..n (0 = world)
  for nb in (1, 2, 3):
    for parents in trees[nb]:
      for _ in range(8 if tier == 'quick' else 40):
        jt, jb = [], []
        for b in range(1, nb + 1):
          cands = [s for s in stacks if not (0 in s and parents[b - 1] != 0)]          # free joints on world children only (what brax supports)
          s = cands[int(rng.randint(0, len(cands)))]
          jt += list(s)
          jb += [b] * len(s)
        nj = len(jt)
        lim = [int(rng.randint(0, 2)) if t != 0 else 0 for t in jt]
        scal = [j for j, t in enumerate(jt) if t != 0]
        nu = int(rng.randint(0, 3)) if scal else 0
        trn = [scal[int(rng.randint(0, len(scal)))] for _ in range(nu)]
        flags = [(int(rng.randint(0, 2)), int(rng.randint(0, 2)), int(rng.randint(0, 3))) for _ in range(nu)]          # ctrllimited, forcelimited, biastype
        out.append((tuple(jt), tuple(jb), tuple(parents), tuple(lim), tuple(trn), tuple(flags)))
  return out


def make_mj(struct):
  jt, jb, parents, lim, trn, flags = struct
  nb = len(parents) + 1
  nj, nu = len(jt), len(trn)
  qadr = list(np.cumsum([0] + [QW[t] for t in jt])[:-1])
  dadr = list(np.cumsum([0] + [QDW[t] for t in jt])[:-1])
  nq, nv = sum(QW[t] for t in jt), sum(QDW[t] for t in jt)
  dof_jnt = [j for j, t in enumerate(jt) for _ in range(QDW[t])]
  names = b'world\x00' + b''.join(('b%d' % b).encode() + b'\x00' for b in range(1, nb))
  badr = [0] + [6 + sum(len('b%d' % k) + 1 for k in range(1, b)) for b in range(1, nb)]
  S = px.symarr
  empty_i = np.zeros((0,), dtype=int)
  opt = types.SimpleNamespace(gravity=S('grav', (3,)), viscosity=px.SN(__import__('z3').Real('visc')), density=px.SN(__import__('z3').Real('dens')), iterations=7)
  return types.SimpleNamespace(
      nbody=nb, njnt=nj, nq=nq, nv=nv, nu=nu, ngeom=1, opt=opt,
      names=names, name_bodyadr=np.array(badr, dtype=int), name_numericadr=empty_i, numeric_size=empty_i, numeric_adr=empty_i, numeric_data=np.zeros((0,)),
      name_tupleadr=empty_i, tuple_adr=empty_i, tuple_size=empty_i, tuple_objtype=empty_i, tuple_objid=empty_i, tuple_objprm=np.zeros((0,)),
      body_pos=S('bpos', (nb, 3)), body_quat=S('bquat', (nb, 4)), body_ipos=S('bipos', (nb, 3)), body_iquat=S('biquat', (nb, 4)), body_inertia=S('binertia', (nb, 3)),
      body_mass=S('bmass', (nb,)), body_invweight0=S('binvw', (nb, 2)), body_parentid=np.array([0] + list(parents), dtype=int),
      jnt_type=np.array(jt, dtype=int), jnt_bodyid=np.array(jb, dtype=int), jnt_pos=S('jpos', (nj, 3)), jnt_axis=S('jaxis', (nj, 3)), jnt_range=S('jrange', (nj, 2)),
      jnt_limited=np.array(lim, dtype=int), jnt_stiffness=S('jstiff', (nj,)), jnt_solref=S('jsolref', (nj, 2)), jnt_solimp=S('jsolimp', (nj, 5)),
      jnt_qposadr=np.array(qadr, dtype=int), jnt_dofadr=np.array(dadr, dtype=int), dof_jntid=np.array(dof_jnt, dtype=int),
      dof_armature=S('darm', (nv,)), dof_damping=S('ddamp', (nv,)), dof_invweight0=S('dinvw', (nv,)), qpos0=S('qpos0', (nq,)),
      actuator_ctrlrange=S('actrl', (nu, 2)), actuator_ctrllimited=np.array([f[0] for f in flags], dtype=int), actuator_forcerange=S('aforce', (nu, 2)),
      actuator_forcelimited=np.array([f[1] for f in flags], dtype=int), actuator_biasprm=S('abias', (nu, 3)), actuator_biastype=np.array([f[2] for f in flags], dtype=int),
      actuator_trntype=np.zeros((nu,), dtype=int), actuator_trnid=np.array([[t, -1] for t in trn], dtype=int).reshape(nu, 2), actuator_gainprm=S('again', (nu, 3)),
      actuator_gear=S('agear', (nu, 6)))


def _run_load(struct):
  """the real load_model on the proxy; returns the System it builds (leaves stay numpy / object arrays)"""
  from brax.io import mjcf
  import jax
  mj = make_mj(struct)
  real_put, real_jp = mjcf.mjx.put_model, mjcf.jp
  global _TEMPLATE
  if _TEMPLATE is None:
    import mujoco
    _TEMPLATE = real_put(mujoco.MjModel.from_xml_string('<mujoco><worldbody><body><joint/><geom size="0.1"/></body></worldbody></mujoco>'))
  # dropped: the mjx device model of the source model.  Its fields are splatted into the System unchanged and no clause below reads them: a template model stands in
  mjcf.mjx = types.SimpleNamespace(put_model=lambda m: _TEMPLATE)
  mjcf.jp = types.SimpleNamespace(array=lambda x: x)                                        # dropped: the final device placement jax.tree.map(jp.array, sys)
  try:
    return mjcf.load_model(mj), mj
  finally:
    import mujoco.mjx as real_mjx
    mjcf.mjx, mjcf.jp = real_mjx, real_jp


def _eq(a, b):
  """exact (syntactic / numeric) equality of two scalars that may be proxies"""
  import z3
  ea, eb = px.E(a) if not isinstance(a, (float, np.floating)) or np.isfinite(a) else a, px.E(b) if not isinstance(b, (float, np.floating)) or np.isfinite(b) else b
  if isinstance(ea, (float, np.floating)) or isinstance(eb, (float, np.floating)):
    return (not isinstance(ea, z3.ExprRef)) and (not isinstance(eb, z3.ExprRef)) and float(ea) == float(eb)
  if z3.is_int(ea) != z3.is_int(eb):
    ea, eb = (z3.ToReal(ea) if z3.is_int(ea) else ea), (z3.ToReal(eb) if z3.is_int(eb) else eb)
  s = z3.Solver()
  s.set('timeout', 10000)
  s.add(ea != eb)
  return s.check() == z3.unsat


def check_struct(struct):
  """returns a list of mismatches between the System load_model builds and the source model"""
  jt, jb, parents, lim, trn, flags = struct
  sys, mj = _run_load(struct)
  nb = len(parents) + 1
  bad = []

  def cmp(name, got, want):
    g, w = np.asarray(got, dtype=object), np.asarray(want, dtype=object)
    if g.shape != w.shape:
      bad.append('%s: shape %s, expected %s' % (name, g.shape, w.shape))
      return
    for idx in np.ndindex(*g.shape):
      if not _eq(g[idx], w[idx]):
        bad.append('%s%s = %s, expected %s' % (name, list(idx), g[idx], w[idx]))
        return
  # per-link joint types, parents, names
  types_ = ''
  for b in range(1, nb):
    st = [t for t, bb in zip(jt, jb) if bb == b]
    types_ += 'f' if st == [0] else str(len(st))
  if sys.link_types != types_:
    bad.append('link_types %r, expected %r' % (sys.link_types, types_))
  want_par = tuple(p - 1 for p in parents)
  if tuple(int(p) for p in sys.link_parents) != want_par:
    bad.append('link_parents %s, expected %s' % (tuple(sys.link_parents), want_par))
  if any(p >= i for i, p in enumerate(want_par)):
    bad.append('structure generator: parent after child')
  if list(sys.link_names) != ['b%d' % b for b in range(1, nb)]:
    bad.append('link_names %s' % (sys.link_names,))
  # coordinate counts
  # (System.q_size / qd_size return the mjx fields nq / nv, which come from the shimmed put_model: what is checked here is that the widths brax derives from link_types --
  #  the ones every q_idx / qd_idx / dof_link is built on -- add up to the source model's nq / nv)
  from brax.base import Q_WIDTHS, QD_WIDTHS
  wq, wv = sum(Q_WIDTHS[t] for t in sys.link_types), sum(QD_WIDTHS[t] for t in sys.link_types)
  if wq != mj.nq or wv != mj.nv or sys.num_links() != nb - 1 or len(sys.dof_link()) != mj.nv:
    bad.append('counts: q %d/%d qd %d/%d links %d/%d' % (wq, mj.nq, wv, mj.nv, sys.num_links(), nb - 1))
  # link frames: body pose relative to the parent, identity for free links (MuJoCo keeps a free body's pose in q); joint anchor = position of the body's first joint
  zero3, ident = [0.0, 0.0, 0.0], [1.0, 0.0, 0.0, 0.0]
  tp = [zero3 if types_[b - 1] == 'f' else list(mj.body_pos[b]) for b in range(1, nb)]
  tr = [ident if types_[b - 1] == 'f' else list(mj.body_quat[b]) for b in range(1, nb)]
  cmp('link.transform.pos', sys.link.transform.pos, tp)
  cmp('link.transform.rot', sys.link.transform.rot, tr)
  first = {b: next(j for j, bb in enumerate(jb) if bb == b) for b in range(1, nb)}
  cmp('link.joint.pos', sys.link.joint.pos, [list(mj.jnt_pos[first[b]]) for b in range(1, nb)])
  cmp('link.joint.rot', sys.link.joint.rot, [ident] * (nb - 1))
  cmp('link.inertia.mass', sys.link.inertia.mass, list(mj.body_mass[1:]))
  cmp('link.inertia.transform.pos', sys.link.inertia.transform.pos, [list(r) for r in mj.body_ipos[1:]])
  cmp('link.inertia.transform.rot', sys.link.inertia.transform.rot, [list(r) for r in mj.body_iquat[1:]])
  cmp('link.inertia.i', sys.link.inertia.i, [[[mj.body_inertia[b][i] if i == k else 0.0 for k in range(3)] for i in range(3)] for b in range(1, nb)])
  # dofs: axis table, limits, stiffness, armature, damping
  ang, vel, lo, hi, stiff = [], [], [], [], []
  for j, t in enumerate(jt):
    if t == 0:
      ang += [[0.0] * 3] * 3 + [[1.0 if i == k else 0.0 for i in range(3)] for k in range(3)]
      vel += [[1.0 if i == k else 0.0 for i in range(3)] for k in range(3)] + [[0.0] * 3] * 3
      lo += [-np.inf] * 6
      hi += [np.inf] * 6
      stiff += [0.0] * 6
    else:
      ax = list(mj.jnt_axis[j])
      ang.append(ax if t == 3 else [0.0] * 3)
      vel.append(ax if t == 2 else [0.0] * 3)
      lo.append(mj.jnt_range[j][0] if lim[j] else -np.inf)
      hi.append(mj.jnt_range[j][1] if lim[j] else np.inf)
      stiff.append(mj.jnt_stiffness[j])
  cmp('dof.motion.ang', sys.dof.motion.ang, ang)
  cmp('dof.motion.vel', sys.dof.motion.vel, vel)
  if any(lim):
    cmp('dof.limit[0]', sys.dof.limit[0], lo)
    cmp('dof.limit[1]', sys.dof.limit[1], hi)
  elif sys.dof.limit is not None:
    bad.append('dof.limit is not None for a model without limited joints')
  cmp('dof.stiffness', sys.dof.stiffness, stiff)
  cmp('dof.armature', sys.dof.armature, list(mj.dof_armature))
  cmp('dof.damping', sys.dof.damping, list(mj.dof_damping))
  # actuators: indices of the transmission joint, gain / gear / bias, ranges infinite when unlimited
  qadr, dadr = list(mj.jnt_qposadr), list(mj.jnt_dofadr)
  cmp('actuator.q_id', sys.actuator.q_id, [int(qadr[t]) for t in trn])
  cmp('actuator.qd_id', sys.actuator.qd_id, [int(dadr[t]) for t in trn])
  nu = len(trn)
  cmp('actuator.gain', sys.actuator.gain, [mj.actuator_gainprm[i][0] for i in range(nu)])
  cmp('actuator.gear', sys.actuator.gear, [mj.actuator_gear[i][0] for i in range(nu)])
  cmp('actuator.bias_q', sys.actuator.bias_q, [mj.actuator_biasprm[i][1] if flags[i][2] != 0 else 0.0 for i in range(nu)])
  cmp('actuator.bias_qd', sys.actuator.bias_qd, [mj.actuator_biasprm[i][2] if flags[i][2] != 0 else 0.0 for i in range(nu)])
  cmp('actuator.ctrl_range', sys.actuator.ctrl_range, [[mj.actuator_ctrlrange[i][0], mj.actuator_ctrlrange[i][1]] if flags[i][0] else [-np.inf, np.inf] for i in range(nu)] if nu else np.zeros((0, 2)))
  cmp('actuator.force_range', sys.actuator.force_range, [[mj.actuator_forcerange[i][0], mj.actuator_forcerange[i][1]] if flags[i][1] else [-np.inf, np.inf] for i in range(nu)] if nu else np.zeros((0, 2)))
  # initial pose and global options
  cmp('init_q', sys.init_q, list(mj.qpos0))
  cmp('gravity', sys.gravity, list(mj.opt.gravity))
  if sys.mj_model is not mj:
    bad.append('sys.mj_model is not the source model (validate_model would not see it)')
  return bad


def _native(struct):
  """the same structure as a real MJCF document through the MuJoCo compiler and mjcf.loads: structural fields against MuJoCo's own model"""
  import mujoco
  from brax.io import mjcf
  jt, jb, parents, lim, trn, flags = struct
  nb = len(parents) + 1
  kids = {b: [c for c in range(1, nb) if parents[c - 1] == b] for b in range(nb)}
  axes = ['1 0 0', '0 1 0', '0 0 1']

  def body(b):
    js = ''
    k = 0
    for j, (t, bb) in enumerate(zip(jt, jb)):
      if bb != b:
        continue
      if t == 0:
        js += '<freejoint name="j%d"/>' % j
      else:
        js += '<joint name="j%d" type="%s" axis="%s" %s/>' % (j, 'hinge' if t == 3 else 'slide', axes[k % 3], 'range="-1 1"' if lim[j] else '')
        k += 1
    return '<body name="b%d" pos="0.1 0 %g">%s<geom size="0.05"/>%s</body>' % (b, 0.2 * b, js, ''.join(body(c) for c in kids[b]))
  acts = ''.join('<motor joint="j%d" gear="%d"/>' % (t, i + 2) for i, t in enumerate(trn))
  xml = '<mujoco><compiler angle="radian" autolimits="true"/><worldbody>%s</worldbody><actuator>%s</actuator></mujoco>' % (''.join(body(c) for c in kids[0]), acts)
  try:
    m = mujoco.MjModel.from_xml_string(xml)
    sys = mjcf.load_model(m)
  except Exception as e:      # noqa: BLE001
    return {'reproduced': True, 'load_model_raised': repr(e)[:200], 'xml': xml}
  bad = []
  if sys.q_size() != m.nq or sys.qd_size() != m.nv:
    bad.append('counts')
  if [int(v) for v in np.asarray(sys.actuator.q_id)] != [int(m.jnt_qposadr[t]) for t in m.actuator_trnid[:, 0]] or [int(v) for v in np.asarray(sys.actuator.qd_id)] != [int(m.jnt_dofadr[t]) for t in m.actuator_trnid[:, 0]]:
    bad.append('actuator indices')
  if tuple(int(p) for p in sys.link_parents) != tuple(int(p) - 1 for p in m.body_parentid[1:]):
    bad.append('link_parents')
  if not np.allclose(np.asarray(sys.init_q), m.qpos0):
    bad.append('init_q')
  try:          # initial link poses against MuJoCo's forward kinematics
    from brax import kinematics
    import jax.numpy as jp
    x, _ = kinematics.forward(sys, jp.asarray(m.qpos0), jp.zeros(m.nv))
    d = mujoco.MjData(m)
    mujoco.mj_forward(m, d)
    if float(np.abs(np.asarray(x.pos) - d.xpos[1:]).max()) > 1e-5:
      bad.append('initial link positions differ from MuJoCo by %.3g' % float(np.abs(np.asarray(x.pos) - d.xpos[1:]).max()))
  except Exception as e:      # noqa: BLE001
    bad.append('forward raised %s' % type(e).__name__)
  return {'reproduced': bool(bad), 'mismatches': bad, 'xml': xml}


def mapping(tier, shard, nshards):
  def run():
    structs = structures(tier)[shard::nshards]
    n = 0
    for st in structs:
      try:
        bad = check_struct(st)
      except px.ProxyLimit as e:
        return Result(UNDECIDED, 'proxy limit in load_model: %s (structure %s)' % (e, st))
      except (IndexError, KeyError, ValueError, AssertionError) as e:
        # the structure is a valid model: an exception of load_model on it refutes the implicit clause `total`
        return Result(REFUTED, 'load_model raises %s: %s  [jnt_type=%s jnt_bodyid=%s body parents=%s]' % (type(e).__name__, str(e)[:120], st[0], st[1], st[2]),
                      witness={'jnt_type': list(st[0]), 'jnt_bodyid': list(st[1]), 'body_parentid': [0] + list(st[2])}, replay=_native(st))
      n += 1
      if bad:
        return Result(REFUTED, 'load_model: %s  [jnt_type=%s jnt_bodyid=%s body parents=%s limited=%s actuator joints=%s]' % ('; '.join(bad[:3]), st[0], st[1], st[2], st[3], st[4]),
                      witness={'jnt_type': list(st[0]), 'jnt_bodyid': list(st[1]), 'body_parentid': [0] + list(st[2]), 'jnt_limited': list(st[3]), 'actuator_trnid': list(st[4])},
                      replay=_native(st))
    if n == 0:
      return Result(ERROR, 'no structure checked (vacuous)')
    return Result(PROVED, '%d model structures: every field of the System that load_model builds equals its source-model value for ALL real-valued field values' % n, stats={'structures': n})
  return Obligation('C14/load_model/mapping[%d/%d]' % (shard + 1, nshards), 'brax.io.mjcf:load_model',
                    'for every enumerated model structure (1-3 bodies, chains and branches, free / hinge / slide stacks of 1-3 joints, 0-2 joint actuators, limited flags) and ALL values of the '
                    'real-valued MjModel fields: coordinate counts = (nq, nv); per-link joint types = the body\'s joint stack; link_parents = body_parentid - 1 (parents before children); '
                    'link frames, joint anchors, inertias, dof axes / limits (infinite when not limited) / stiffness / armature / damping are the source values; actuator q_id / qd_id are the '
                    'qpos / dof addresses of the transmission joint, ranges infinite when unlimited, bias masked by biastype; init_q = qpos0; the source model is kept for validate_model',
                    run, backend='path', budget=600)


def obligations(tier):
  ns = 2 if tier == 'quick' else 4
  return [mapping(tier, k, ns) for k in range(ns)]
