"""Engine B oracles: MuJoCo 3.x as the reference engine (float64).  Bounded stand-ins only -- never counted as proof."""
from __future__ import annotations
import numpy as np
import jax
import jax.numpy as jp

from verif.engine.oblig import Result, PROVED, REFUTED, UNDECIDED, ERROR
from verif.bounded import modelgen


def mj_model(xml):
  import mujoco
  from brax.io import mjcf
  return mujoco.MjModel.from_xml_string(mjcf.fuse_bodies(xml))


def mj_kin(m, q, qd):
  import mujoco
  d = mujoco.MjData(m)
  d.qpos[:] = q
  d.qvel[:] = qd
  mujoco.mj_forward(m, d)
  n = m.nbody - 1
  ang, vel = np.zeros((n, 3)), np.zeros((n, 3))
  for b in range(1, m.nbody):
    res = np.zeros(6)
    mujoco.mj_objectVelocity(m, d, mujoco.mjtObj.mjOBJ_XBODY, b, res, 0)
    ang[b - 1], vel[b - 1] = res[:3], res[3:]
  return d.xpos[1:].copy(), d.xquat[1:].copy(), ang, vel, d


def vel_claim(m):
  """links inside C01's velocity claim: attached, with all ancestors, by a free joint or one hinge/slide at the link origin"""
  ok = np.zeros(m.nbody, dtype=bool)
  ok[0] = True
  for b in range(1, m.nbody):
    js = [j for j in range(m.njnt) if m.jnt_bodyid[j] == b]
    good = len(js) == 1 and (m.jnt_type[js[0]] == 0 or (m.jnt_type[js[0]] in (2, 3) and np.allclose(m.jnt_pos[js[0]], 0)))
    ok[b] = good and ok[m.body_parentid[b]]
  return ok[1:]


def quat_close(a, b, tol):
  return np.minimum(np.abs(a - b).max(axis=-1), np.abs(a + b).max(axis=-1)) <= tol


def compare_forward(xml, q, qd, tol=1e-9):
  from brax.io import mjcf
  from brax import kinematics
  sys = mjcf.loads(xml)
  m = mj_model(xml)
  x, xd = kinematics.forward(sys, jp.asarray(q), jp.asarray(qd))
  xpos, xquat, ang, vel, _ = mj_kin(m, q, qd)
  issues = []
  if not np.allclose(np.asarray(x.pos), xpos, atol=tol):
    issues.append(('pos', float(np.abs(np.asarray(x.pos) - xpos).max())))
  if not quat_close(np.asarray(x.rot), xquat, tol).all():
    issues.append(('rot', float(np.minimum(np.abs(np.asarray(x.rot) - xquat).max(-1), np.abs(np.asarray(x.rot) + xquat).max(-1)).max())))
  c = vel_claim(m)
  if c.any():
    da = np.abs(np.asarray(xd.ang)[c] - ang[c]).max()
    dv = np.abs(np.asarray(xd.vel)[c] - vel[c]).max()
    if da > tol * 10:
      issues.append(('ang', float(da)))
    if dv > tol * 10:
      issues.append(('vel', float(dv)))
  return issues, int(c.sum())


def forward_vs_mujoco(n_models, n_states, seed):
  rng = np.random.RandomState(seed + 101)
  from brax.io import mjcf
  evals = 0
  claimed = 0
  distinct = set()
  for k in range(n_models):
    origin = (k % 2 == 0)
    spec = modelgen.Spec(max_stack=1 if origin else 3, origin_anchor=origin)
    xml, meta = modelgen.generate(rng, spec)
    try:
      sys = mjcf.loads(xml)
    except (IndexError, KeyError, ValueError, AssertionError, TypeError) as e:
      # a generator model is a supported model: the loader failing on it is a violation (of totality), not a limit of this oracle
      return Result(REFUTED, 'mjcf.loads raises %s: %s on a supported generator model (model %d)' % (type(e).__name__, str(e)[:120], k), witness={'xml': xml},
                    replay={'reproduced': True, 'raised': repr(e)[:200], 'xml': xml})
    for s in range(n_states):
      q, qd = modelgen.rand_state(rng, sys, 2.0, 1.0)
      issues, nc = compare_forward(xml, q, qd)
      evals += 1
      claimed += nc
      distinct.add((k, s))
      if issues:
        return Result(REFUTED, 'forward differs from MuJoCo: %s (model %d, %s)' % (issues, k, sys.link_types), witness={'xml': xml, 'q': list(q), 'qd': list(qd)},
                      replay={'reproduced': True, 'issues': issues, 'xml': xml, 'q': list(map(float, q)), 'qd': list(map(float, qd))})
  return Result(PROVED, 'bounded: %d model-states agree with MuJoCo to 1e-9 (poses all links; velocities on %d claimed links)' % (evals, claimed),
                stats={'evaluations': evals, 'distinct_nontrivial': len(distinct), 'claimed_velocity_links': claimed})


def search_forward_mismatch(xml, which, tries=30, seed=0):
  """native replay for the symbolic link-step obligations: the same document at random parameter values vs MuJoCo"""
  import re
  rng = np.random.RandomState(seed + 5)
  from brax.io import mjcf
  for t in range(tries):
    x2 = xml
    # randomise body poses / axes / anchors textually
    def rq(_):
      return 'quat="%s"' % modelgen._f(modelgen.rand_quat(rng))
    x2 = re.sub(r'quat="[^"]*"', rq, x2)
    x2 = re.sub(r'axis="[^"]*"', lambda _: 'axis="%s"' % modelgen._f(modelgen.rand_unit(rng)), x2)
    anchors = rng.uniform(-0.3, 0.3, 3)
    if 'pos="0 0 0"' not in x2:
      x2 = re.sub(r'(<joint [^>]*?)pos="[^"]*"', lambda m_: m_.group(1) + 'pos="%s"' % modelgen._f(anchors), x2)
    sys = mjcf.loads(x2)
    q, qd = modelgen.rand_state(rng, sys, 2.0, 1.0)
    issues, _ = compare_forward(x2, q, qd)
    keys = {'pose': ('pos', 'rot'), 'vel': ('ang', 'vel')}[which]
    issues = [i for i in issues if i[0] in keys]
    if issues:
      return {'reproduced': True, 'xml': x2, 'q': list(map(float, q)), 'qd': list(map(float, qd)), 'mismatch_vs_mujoco': issues}
  return {'reproduced': False}


# ---- C02: generalized dynamics vs MuJoCo ----------------------------------------------------------------------------------------
def dynamics_vs_mujoco(n_models, n_states, seed, tol=1e-7):
  import mujoco
  from brax.io import mjcf
  from brax.generalized import pipeline, dynamics
  from brax import actuator
  rng = np.random.RandomState(seed + 211)
  evals = 0
  distinct = set()
  worst = {}
  for k in range(n_models):
    spec = modelgen.Spec(limits_p=0.0, n_links=(1, 5), collide=False, plane=False)
    xml, meta = modelgen.generate(rng, spec)
    sys = mjcf.loads(xml)
    sys = sys.replace(matrix_inv_iterations=0)
    m = mj_model(xml)
    for s in range(n_states):
      q, qd = modelgen.rand_state(rng, sys, 1.5, 1.0)
      ctrl = rng.uniform(-2, 2, sys.act_size())
      st = pipeline.init(sys, jp.asarray(q), jp.asarray(qd))
      d = mujoco.MjData(m)
      d.qpos[:], d.qvel[:] = q, qd
      d.ctrl[:] = ctrl
      mujoco.mj_forward(m, d)
      M = np.zeros((m.nv, m.nv))
      for c_ in range(m.nv):          # inertia matrix column by column (mj_mulM is stable across MuJoCo versions)
        e_, r_ = np.zeros(m.nv), np.zeros(m.nv)
        e_[c_] = 1.0
        mujoco.mj_mulM(m, d, r_, e_)
        M[:, c_] = r_
      tau = actuator.to_tau(sys, jp.asarray(ctrl), st.q, st.qd)
      got = {'mass_mx': np.asarray(st.mass_mx), 'bias': np.asarray(dynamics.inverse(sys, st)), 'passive': np.asarray(dynamics._passive(sys, st)),
             'actuator': np.asarray(tau), 'smooth': np.asarray(dynamics.forward(sys, st, tau))}
      want = {'mass_mx': M, 'bias': d.qfrc_bias.copy(), 'passive': d.qfrc_passive.copy(), 'actuator': d.qfrc_actuator.copy(), 'smooth': d.qfrc_smooth.copy()}
      evals += 1
      distinct.add((k, s))
      issues = []
      for nm in got:
        sc = max(1.0, float(np.abs(want[nm]).max()) if want[nm].size else 1.0)
        e = float(np.abs(got[nm] - want[nm]).max()) / sc if want[nm].size else 0.0
        worst[nm] = max(worst.get(nm, 0.0), e)
        if not np.isfinite(e) or e > tol:
          issues.append((nm, e))
      ev = np.linalg.eigvalsh(got['mass_mx']) if m.nv else np.array([1.0])
      if not np.allclose(got['mass_mx'], got['mass_mx'].T, atol=1e-12) or ev.min() <= 0:
        issues.append(('mass_mx not symmetric positive definite', float(ev.min())))
      # one step, no contact / limit
      st2 = pipeline.step(sys, st, jp.asarray(ctrl))
      mujoco.mj_step(m, d)
      qe = float(np.abs(np.asarray(st2.q) - d.qpos).max()) if m.nq else 0.0
      # free-joint quaternions: compare up to sign
      if qe > tol:
        qq, mq = np.asarray(st2.q).copy(), d.qpos.copy()
        qi = 0
        for t in sys.link_types:
          if t == 'f':
            if np.abs(qq[qi + 3:qi + 7] + mq[qi + 3:qi + 7]).max() < np.abs(qq[qi + 3:qi + 7] - mq[qi + 3:qi + 7]).max():
              qq[qi + 3:qi + 7] *= -1
            qi += 7
          else:
            qi += int(t)
        qe = float(np.abs(qq - mq).max())
      ve = float(np.abs(np.asarray(st2.qd) - d.qvel).max()) if m.nv else 0.0
      worst['step_q'], worst['step_qd'] = max(worst.get('step_q', 0), qe), max(worst.get('step_qd', 0), ve)
      if qe > 1e-6 or ve > 1e-6:
        issues.append(('step', (qe, ve)))
      if issues:
        return Result(REFUTED, 'generalized dynamics differ from MuJoCo: %s (model %d, types %s)' % (issues, k, sys.link_types), witness={'xml': xml, 'q': list(map(float, q)), 'qd': list(map(float, qd)), 'ctrl': list(map(float, ctrl))},
                      replay={'reproduced': True, 'issues': [(a, b) for a, b in issues], 'xml': xml, 'q': list(map(float, q)), 'qd': list(map(float, qd))})
  return Result(PROVED, 'bounded: %d model-states agree with MuJoCo (mass matrix SPD and equal, bias, passive, actuator, smooth force, one Euler step); worst relative errors %s'
                % (evals, {k_: '%.1e' % v for k_, v in worst.items()}), stats={'evaluations': evals, 'distinct_nontrivial': len(distinct)})
