"""Engine B: generator of MJCF kinematic forests as described in the properties' quantifier texts.

  forests of 1-6 links; free roots and world-attached roots; 1-3 hinge/slide joints stacked per link (shared anchor) with arbitrary
  (optionally orthogonal) axes; arbitrary body / joint-anchor / geom offsets and orientations; optional limits, damping, armature,
  stiffness; motor / position / velocity actuators; optional collision geoms and ground plane."""
from __future__ import annotations
import numpy as np


def _f(v):
  return ' '.join('%.9g' % x for x in np.atleast_1d(v))


def rand_quat(rng):
  q = rng.normal(size=4)
  return q / np.linalg.norm(q)


def rand_unit(rng):
  v = rng.normal(size=3)
  return v / np.linalg.norm(v)


class Spec:
  def __init__(self, **kw):
    self.n_links = (1, 6)
    self.free_root_p = 0.5
    self.all_free_roots = False
    self.max_stack = 3
    self.orthogonal = False           # stacked axes mutually orthogonal (needed for inverse kinematics charts)
    self.slide_p = 0.4
    self.single_kind_stack = False    # stacks of one joint kind, or slides followed by one hinge
    self.origin_anchor = False
    self.limits_p = 0.3
    self.damping_p = 0.4
    self.armature_p = 0.3
    self.stiffness_p = 0.3
    self.actuators = (0, 4)
    self.collide = False              # geoms collide (contype/conaffinity) and a ground plane exists
    self.plane = False
    self.gravity = (0, 0, -9.81)
    self.timestep = 0.002
    self.rotate_bodies = True
    self.geom_kinds = ('sphere', 'capsule')
    self.__dict__.update(kw)


def generate(rng, spec=None):
  """returns (xml string, meta dict)"""
  s = spec or Spec()
  n = int(rng.randint(s.n_links[0], s.n_links[1] + 1))
  parents = []
  for i in range(n):
    if i == 0 or rng.rand() < 0.25:
      parents.append(-1)
    else:
      parents.append(int(rng.randint(0, i)))
  children = {i: [] for i in range(-1, n)}
  for i, p in enumerate(parents):
    children[p].append(i)
  joints_meta = []
  acts = []
  contype = '1' if s.collide else '0'

  def body_xml(i, depth):
    ind = '  ' * (depth + 2)
    pos = rng.uniform(-0.4, 0.4, 3)
    if parents[i] == -1:
      pos = pos + np.array([rng.uniform(-1, 1), rng.uniform(-1, 1), rng.uniform(0.8, 1.6)])
    quat = rand_quat(rng) if s.rotate_bodies else np.array([1.0, 0, 0, 0])
    out = ['%s<body name="b%d" pos="%s" quat="%s">' % (ind, i, _f(pos), _f(quat))]
    free = parents[i] == -1 and (s.all_free_roots or rng.rand() < s.free_root_p)
    if free:
      out.append('%s  <freejoint name="j%d_f"/>' % (ind, i))
      joints_meta.append((i, 'free'))
    else:
      k = int(rng.randint(1, s.max_stack + 1))
      anchor = np.zeros(3) if s.origin_anchor else rng.uniform(-0.2, 0.2, 3)
      if s.single_kind_stack:
        mode = rng.randint(0, 3)
        kinds = ['hinge'] * k if mode == 0 else (['slide'] * k if mode == 1 else ['slide'] * (k - 1) + ['hinge'])
      else:
        kinds = ['slide' if rng.rand() < s.slide_p else 'hinge' for _ in range(k)]
      if s.orthogonal:
        # random orthonormal frame, random handedness via permutation
        a = rand_unit(rng)
        b = np.cross(a, rand_unit(rng))
        b /= np.linalg.norm(b)
        c = np.cross(a, b)
        frame = [a, b, c]
        perm = rng.permutation(3)
        axes = [frame[perm[j]] * (1 if rng.rand() < 0.5 else -1) for j in range(k)]
      else:
        axes = [rand_unit(rng) for _ in range(k)]
      for j, (kind, ax) in enumerate(zip(kinds, axes)):
        attrs = 'name="j%d_%d" type="%s" axis="%s" pos="%s"' % (i, j, kind, _f(ax), _f(anchor))
        if rng.rand() < s.limits_p:
          lo = rng.uniform(-2.5, -0.3)
          hi = rng.uniform(0.3, 2.5)
          attrs += ' limited="true" range="%s"' % _f([lo, hi])
        if rng.rand() < s.damping_p:
          attrs += ' damping="%s"' % _f(rng.uniform(0.05, 1.0))
        if rng.rand() < s.armature_p:
          attrs += ' armature="%s"' % _f(rng.uniform(0.01, 0.3))
        if rng.rand() < s.stiffness_p:
          attrs += ' stiffness="%s"' % _f(rng.uniform(0.5, 5.0))
        out.append('%s  <joint %s/>' % (ind, attrs))
        joints_meta.append((i, kind))
        acts.append('j%d_%d' % (i, j))
    ng = int(rng.randint(1, 3))
    for g in range(ng):
      kind = s.geom_kinds[int(rng.randint(0, len(s.geom_kinds)))]
      gpos = rng.uniform(-0.15, 0.15, 3)
      gq = rand_quat(rng)
      size = {'sphere': _f(rng.uniform(0.05, 0.15)), 'capsule': _f([rng.uniform(0.04, 0.1), rng.uniform(0.05, 0.2)]),
              'box': _f(rng.uniform(0.05, 0.15, 3))}[kind]
      out.append('%s  <geom name="g%d_%d" type="%s" size="%s" pos="%s" quat="%s" density="%s" contype="%s" conaffinity="%s"/>'
                 % (ind, i, g, kind, size, _f(gpos), _f(gq), _f(rng.uniform(300, 2000)), contype, contype))
    for c in children[i]:
      out += body_xml(c, depth + 1)
    out.append('%s</body>' % ind)
    return out

  body = []
  for r in children[-1]:
    body += body_xml(r, 0)
  nact = int(rng.randint(s.actuators[0], s.actuators[1] + 1)) if acts else 0
  act_xml = []
  for a in range(nact):
    j = acts[int(rng.randint(0, len(acts)))]
    kind = ('motor', 'position', 'velocity')[int(rng.randint(0, 3))]
    attrs = 'name="a%d" joint="%s" gear="%s"' % (a, j, _f(rng.uniform(-3, 3)))
    if kind == 'position':
      attrs += ' kp="%s"' % _f(rng.uniform(0.5, 5))
    if kind == 'velocity':
      attrs += ' kv="%s"' % _f(rng.uniform(0.1, 2))
    if rng.rand() < 0.5:
      attrs += ' ctrllimited="true" ctrlrange="%s"' % _f([rng.uniform(-1.5, -0.2), rng.uniform(0.2, 1.5)])
    if rng.rand() < 0.4:
      attrs += ' forcelimited="true" forcerange="%s"' % _f([rng.uniform(-2, -0.2), rng.uniform(0.2, 2)])
    act_xml.append('    <%s %s/>' % (kind, attrs))
  plane = '    <geom name="floor" type="plane" size="5 5 0.1" pos="0 0 -3" contype="%s" conaffinity="%s"/>\n' % (contype, contype) if s.plane else ''
  xml = ('<mujoco model="gen">\n  <compiler angle="radian" autolimits="false"/>\n  <option timestep="%s" gravity="%s" iterations="1" ls_iterations="4"/>\n'
         '  <worldbody>\n%s%s\n  </worldbody>\n%s</mujoco>\n'
         % (_f(s.timestep), _f(s.gravity), plane, '\n'.join(body), ('  <actuator>\n%s\n  </actuator>\n' % '\n'.join(act_xml)) if act_xml else ''))
  meta = {'n_links': n, 'parents': parents, 'joints': joints_meta, 'n_act': nact}
  return xml, meta


def rand_state(rng, sys, qrange=2.0, qdrange=1.0):
  """random (q, qd): unit root quaternions, joint coordinates in [-qrange, qrange]"""
  q = rng.uniform(-qrange, qrange, sys.q_size())
  qi = 0
  for t in sys.link_types:
    if t == 'f':
      q[qi:qi + 3] = rng.uniform(-1, 1, 3) + np.array([0, 0, 1.0])
      q[qi + 3:qi + 7] = rand_quat(rng)
      qi += 7
    else:
      qi += int(t)
  qd = rng.uniform(-qdrange, qdrange, sys.qd_size())
  return q, qd
