"""Obligations, verdicts, back-end drivers (SMT / RING), symbolic calling convention."""
from __future__ import annotations
import dataclasses
import json
import os
import signal
import subprocess
import tempfile
import time
import traceback
from fractions import Fraction
from typing import Any, Callable, Optional
import numpy as np

from .alg import Alg, Z3Alg, RingAlg, FloatAlg, Unsupported, is_sym, isc, obj0, Poly, Ratio

PROVED, REFUTED, UNDECIDED, ERROR = 'proved', 'refuted', 'undecided', 'error'


@dataclasses.dataclass
class Result:
  verdict: str
  detail: str = ''
  witness: Optional[dict] = None        # inputs of a counterexample (name -> number)
  replay: Optional[dict] = None         # native replay of the witness on the real code
  stats: dict = dataclasses.field(default_factory=dict)
  solver_output: str = ''

  def to_json(self):
    return dataclasses.asdict(self)


@dataclasses.dataclass
class Obligation:
  id: str
  function: str                          # 'brax.math:rotate' -- the real function under contract
  clause: str                            # the contract clause, in words/maths
  run: Callable[[], Result]
  backend: str = 'smt'
  kind: str = 'required'                 # required | attempted | canary | bounded
  budget: int = 120                      # seconds of wall time
  tiers: tuple = ('quick', 'thorough')
  assumes: tuple = ()                    # assumption tags (cuts with assumed contracts, axioms, ...)


class Timeout(Exception):
  pass


def _alarm(signum, frame):
  raise Timeout()


_CLOCK = {'t0': 0.0, 'budget': 0.0}


def soft_deadline(frac=0.6, k=None, at_least=1):
  """bounded stand-ins explore until a fraction of their wall budget is used (never fewer than `at_least` iterations): under machine load they then report what they covered
  instead of running into the budget (an exhausted budget is `undecided`, which is not an answer for a check whose only claim is "held on everything explored")"""
  if k is not None and k < at_least:
    return False
  return _CLOCK['budget'] > 0 and time.time() > _CLOCK['t0'] + frac * _CLOCK['budget']


def execute(ob: Obligation) -> Result:
  t0 = time.time()
  _CLOCK['t0'], _CLOCK['budget'] = t0, float(ob.budget)
  old = signal.signal(signal.SIGALRM, _alarm)
  signal.alarm(int(ob.budget))
  try:
    r = ob.run()
  except Timeout:
    r = Result(UNDECIDED, 'wall budget of %ds exhausted' % ob.budget)
  except Unsupported as e:
    r = Result(UNDECIDED, 'unsupported: %s' % e)
  except Exception as e:      # noqa: BLE001
    if type(e).__name__ == 'PathBudget' or (type(e).__name__ == 'ArgumentError' and 'Timeout' in str(e)):
      # the path-exhaustive engine ran out of its path / solver budget, or the wall-clock alarm interrupted a z3 call: a resource limit, not an engine defect
      r = Result(UNDECIDED, 'resource limit: %s: %s' % (type(e).__name__, str(e)[:160]))
    else:
      r = Result(ERROR, '%s: %s\n%s' % (type(e).__name__, e, traceback.format_exc()[-1800:]))
  finally:
    signal.alarm(0)
    signal.signal(signal.SIGALRM, old)
  r.stats['wall_s'] = round(time.time() - t0, 3)
  return r


# --------------------------------------------------------------------------------------------------
# symbolic calling convention
class Sym:
  """A symbolic leaf of an argument pytree: object array of algebra scalars + the jax dtype the
  real function sees at that position."""

  def __init__(self, arr, dtype=np.float64):
    self.arr = arr if isinstance(arr, np.ndarray) else obj0(arr)
    self.dtype = np.dtype(dtype)

  @property
  def shape(self):
    return self.arr.shape


def sym_call(interp, fn, *args, static_argnums=(), **kw):
  """Trace the REAL function `fn` at the shapes of args (Sym leaves become traced inputs, everything
  else is closed over as a constant) and interpret the jaxpr.  Returns the output pytree whose
  leaves are object arrays (symbolic) or numpy arrays (concrete)."""
  import jax
  import jax.numpy as jnp
  leaves, tree = jax.tree_util.tree_flatten((args, kw), is_leaf=lambda x: isinstance(x, Sym))
  pos = [i for i, l in enumerate(leaves) if isinstance(l, Sym)]
  placeholders = [jnp.zeros(leaves[i].arr.shape, leaves[i].dtype) for i in pos]

  def f(*s):
    ls = list(leaves)
    for i, v in zip(pos, s):
      ls[i] = v
    a, k = jax.tree_util.tree_unflatten(tree, ls)
    return fn(*a, **k)

  closed, out_shape = jax.make_jaxpr(f, return_shape=True)(*placeholders)
  from jax._src.interpreters import partial_eval as pe
  jaxpr, used = pe.dce_jaxpr(closed.jaxpr, [True] * len(closed.jaxpr.outvars))      # drop dead equations
  outs = interp.eval(jaxpr, closed.consts, *[leaves[i].arr for i, u in zip(pos, used) if u])
  if getattr(interp, 'lazy_unsupported', False):
    from verif.engine.jaxsym import Poison
    from verif.engine.alg import Unsupported
    for o in outs:
      if is_sym(o):
        for e in o.reshape(-1):
          if isinstance(e, Poison):
            raise Unsupported('%s (reaches an output)' % e.err)
  otree = jax.tree_util.tree_structure(out_shape)
  interp.last_jaxpr = closed
  return jax.tree_util.tree_unflatten(otree, outs)


def float_call(fn, *args, **kw):
  """Run the real function natively with Sym leaves replaced by float arrays (for replays)."""
  raise NotImplementedError


# --------------------------------------------------------------------------------------------------
# SMT back end
def _model_value(m, v):
  import z3
  x = m.eval(v, model_completion=True)
  if z3.is_rational_value(x):
    return Fraction(x.numerator_as_long(), x.denominator_as_long())
  if z3.is_int_value(x):
    return x.as_long()
  if z3.is_true(x):
    return True
  if z3.is_false(x):
    return False
  if z3.is_algebraic_value(x):
    return Fraction(x.approx(20).numerator_as_long(), x.approx(20).denominator_as_long())
  return str(x)


def _square_abstraction(formulas):
  """innermost compound terms t that occur squared (t*t or t**2) somewhere in `formulas` -> substitution list [(t, fresh real)]"""
  import z3
  seen, cand = set(), {}

  def walk(e):
    if e.get_id() in seen:
      return
    seen.add(e.get_id())
    ch = e.children()
    if z3.is_mul(e):
      cnt = {}
      for c in ch:
        cnt.setdefault(c.get_id(), []).append(c)
      for k, v in cnt.items():
        if len(v) >= 2 and v[0].num_args() > 0 and z3.is_real(v[0]):
          cand[k] = v[0]
    elif z3.is_app(e) and e.decl().kind() == z3.Z3_OP_POWER and ch[0].num_args() > 0 and z3.is_real(ch[0]):
      cand[ch[0].get_id()] = ch[0]
    for c in ch:
      walk(c)
  for f in formulas:
    walk(f)
  # a squared term that contains an if-then-else is replaced by its maximal if-free compound subterms (safe_norm: (y + [y ~ 0])^2 -> y)
  memo_ite = {}

  def has_ite(e):
    k = e.get_id()
    if k not in memo_ite:
      memo_ite[k] = z3.is_app(e) and (e.decl().kind() == z3.Z3_OP_ITE or any(has_ite(c) for c in e.children()))
    return memo_ite[k]

  def free_parts(e, out, vis):
    if e.get_id() in vis:
      return
    vis.add(e.get_id())
    if not has_ite(e):
      if z3.is_real(e) and e.num_args() > 0 and not z3.is_rational_value(e):
        out[e.get_id()] = e
      return
    for c in e.children():
      free_parts(c, out, vis)
  refined = {}
  for k, t in cand.items():
    if has_ite(t):
      free_parts(t, refined, set())
    else:
      refined[k] = t
  cand = refined
  ids = set(cand)

  def has_inner(t):
    vis = set()

    def w(e):
      for c in e.children():
        if c.get_id() in vis:
          continue
        vis.add(c.get_id())
        if c.get_id() in ids or w(c):
          return True
      return False
    return w(t)
  inner = [t for t in cand.values() if not has_inner(t)]
  return [(t, z3.Real('abs!%d' % i)) for i, t in enumerate(inner)]


def _abstract_prepass(alg, pre, goals, timeout_s, seed):
  """generalisation pre-pass (can only prove): replace the innermost squared compound terms by fresh reals in premises and goals alike; a goal valid for
  ALL values of the fresh reals is valid for the terms they stand for.  Returns the goals that are still open."""
  import z3
  facts = [a for a in list(pre) + list(alg.assume) + list(getattr(alg, 'assume_raw', [])) if not isinstance(a, bool)]
  zg = [g for g in goals if not isinstance(g, bool)]
  sub = _square_abstraction(facts + zg)
  if not sub:
    return goals, 0
  facts = [z3.substitute(a, *sub) for a in facts]
  still, done = [], 0
  for g in goals:
    if isinstance(g, bool):
      still.append(g)
      continue
    s = z3.Solver()
    s.set('timeout', int(timeout_s * 1000))
    s.set('random_seed', seed)
    for a in facts:
      s.add(a)
    s.add(z3.Not(z3.substitute(g, *sub)))
    if s.check() == z3.unsat:
      done += 1
    else:
      still.append(g)
  return still, done


def _sos_prepass(alg, pre, goals, timeout_s, seed):
  """weakening pre-pass (can only prove): for every defining equation  s*s == t1*t1 + ... + tn*tn (+ non-negative constants)  among the assumptions, keep only
  the consequences  s*s >= ti*ti  (for if-free ti) and the sign facts, drop every other assumption, and try each goal from the precondition and those facts.
  Dropping premises is sound; the small context is what lets nlsat answer (from_to: |rot|^2 >= w^2 >= 1e-12)."""
  import z3

  def is_sq(e):
    if z3.is_mul(e):
      ch = e.children()
      return len(ch) == 2 and ch[0].get_id() == ch[1].get_id()
    if z3.is_app(e) and e.decl().kind() == z3.Z3_OP_POWER:
      return z3.is_rational_value(e.arg(1)) and e.arg(1).as_fraction() == 2
    return False
  memo = {}

  def has_ite(e):
    k = e.get_id()
    if k not in memo:
      memo[k] = z3.is_app(e) and (e.decl().kind() == z3.Z3_OP_ITE or any(has_ite(c) for c in e.children()))
    return memo[k]
  facts = []
  for a in list(alg.assume):
    if isinstance(a, bool):
      continue
    if z3.is_eq(a) and is_sq(a.arg(0)) and (z3.is_add(a.arg(1)) or is_sq(a.arg(1))):
      ch = a.arg(1).children() if z3.is_add(a.arg(1)) else [a.arg(1)]
      if all(is_sq(c) or (z3.is_rational_value(c) and c.as_fraction() >= 0) for c in ch):
        facts += [a.arg(0) >= c for c in ch if not has_ite(c)]
    elif (z3.is_ge(a) or z3.is_le(a) or z3.is_gt(a) or z3.is_lt(a)) and not has_ite(a):
      facts.append(a)
  if not facts:
    return goals, 0
  still, done = [], 0
  for g in goals:
    if isinstance(g, bool):
      still.append(g)
      continue
    s = z3.Solver()
    s.set('timeout', int(timeout_s * 1000))
    s.set('random_seed', seed)
    for a in list(pre) + facts:
      if not isinstance(a, bool):
        s.add(a)
    s.add(z3.Not(g))
    if s.check() == z3.unsat:
      done += 1
    else:
      still.append(g)
  return still, done


def _sqrt_const_facts(alg, pre, timeout_s, seed):
  """derived facts (each proved from the precondition and ONE defining equation only): for a square-root definition  s >= 0, s*s == E  try  E == 1  and  E == 0;
  if valid, s == 1 (resp. 0) is a consequence.  Returned as extra premises: they make normalisations of provably unit vectors disappear before nlsat sees them."""
  import z3
  facts = []
  defs = [a for a in alg.assume if not isinstance(a, bool) and z3.is_eq(a) and z3.is_mul(a.arg(0)) and len(a.arg(0).children()) == 2
          and a.arg(0).arg(0).get_id() == a.arg(0).arg(1).get_id() and z3.is_const(a.arg(0).arg(0))]
  for d in defs[:12]:
    sv, E = d.arg(0).arg(0), d.arg(1)
    for k in (1, 0):
      q = z3.Solver()
      q.set('timeout', int(timeout_s * 1000))
      q.set('random_seed', seed)
      for a in pre:
        if not isinstance(a, bool):
          q.add(a)
      q.add(E != k)
      if q.check() == z3.unsat:
        facts.append(sv == k)
        break
  return facts


def smt_prove(alg: Z3Alg, pre, goal, timeout_s=30, name='', use_cvc5=True, side=False, seed=0, abstract=False, split_first=False):
  """Valid(pre & alg.assume => goal)?  pre: list of z3 bools.  goal: z3 bool or list (conjunction).
  Returns Result: proved (unsat), refuted (sat + model as witness), undecided."""
  import z3
  goals = goal if isinstance(goal, (list, tuple)) else [goal]
  goals = [bool(g) if isinstance(g, np.bool_) else g for g in goals]      # comparisons of concrete numpy scalars
  pre = [bool(a) if isinstance(a, np.bool_) else a for a in pre]
  goals = [g for g in goals if not (isinstance(g, bool) and g)]
  # syntactic pre-pass: goals that z3's simplifier already reduces to `true` (identical terms, congruent sqrt / trig instances) need no search
  pre_n = len(goals)
  goals = [g for g in goals if isinstance(g, bool) or not z3.is_true(z3.simplify(g))]
  if any(isinstance(g, bool) and not g for g in goals):
    return Result(REFUTED, 'goal is the constant False', witness={})
  if not goals:
    return Result(PROVED, 'goal is trivially true after partial evaluation / term simplification (%d clauses)' % pre_n, stats={'queries': 0, 'clauses': pre_n})
  n_abs = 0
  if split_first:
    pre = list(pre) + _sqrt_const_facts(alg, pre, 10, seed)
  if abstract:
    if any(isinstance(a, bool) and not a for a in pre):
      return Result(ERROR, 'precondition is the constant False (vacuous)')
    goals, n_abs = _abstract_prepass(alg, pre, goals, min(20, timeout_s), seed)
    if goals:
      goals, n_sos = _sos_prepass(alg, pre, goals, min(20, timeout_s), seed)
      n_abs += n_sos
    if not goals:
      return Result(PROVED, 'unsat (all %d clauses after abstraction of squared subterms by fresh reals)' % n_abs,
                    stats={'solver': 'z3 ' + z3.get_version_string(), 'queries': n_abs, 'clauses': pre_n, 'abstracted_clauses': n_abs})
  s = z3.Solver()
  s.set('timeout', int((min(timeout_s, 15) if (split_first and len(goals) > 1) else timeout_s) * 1000))
  s.set('random_seed', seed)
  for a in list(pre) + list(alg.assume):
    if isinstance(a, bool):
      if not a:
        return Result(ERROR, 'precondition is the constant False (vacuous)')
      continue
    s.add(a)
  s.add(z3.Not(z3.And(*goals)) if len(goals) > 1 else z3.Not(goals[0]))
  t0 = time.time()
  r = s.check()
  dt = time.time() - t0
  stats = {'solver': 'z3 ' + z3.get_version_string(), 'solver_s': round(dt, 3), 'queries': 1 + n_abs,
           'assertions': len(s.assertions()), 'abstracted_clauses': n_abs}
  if r == z3.unsat:
    return Result(PROVED, 'unsat', stats=stats)
  if r == z3.sat:
    m = s.model()
    wit = {}
    for nm, v in alg.vars.items():
      wit[nm] = _model_value(m, v)
    return Result(REFUTED, 'sat', witness=wit, stats=stats, solver_output=str(m)[:4000])
  reason = s.reason_unknown()
  if use_cvc5 and not (split_first and len(goals) > 1):
    r2 = _cvc5(s.to_smt2(), timeout_s)
    stats['cvc5'] = r2
    if r2 == 'unsat':
      stats['solver'] = 'cvc5 (after z3 unknown)'
      return Result(PROVED, 'unsat (cvc5)', stats=stats)
  gr = _guided_refute(alg, pre, goals, seed, min(60, max(20, timeout_s)))
  if gr is not None:
    stats['solver_s'] = round(time.time() - t0, 3)
    stats['queries'] += gr[2]
    return Result(REFUTED, 'sat (guided search: inputs fixed to sampled rationals satisfying the precondition, %s; callee outputs left to the solver)' % gr[3], witness=gr[0], stats=stats, solver_output=gr[1][:4000])
  if len(goals) > 1:
    # clause split: the negated conjunction is a disjunction; each disjunct alone is a much easier query (a counterexample of ONE clause is a counterexample of the
    # conjunction, and the conjunction is valid iff every clause is)
    open_, t1 = 0, time.time()
    per = max(10, min(int(timeout_s), 60))
    def _size(g_):
      try:
        return len(g_.sexpr())
      except Exception:      # noqa: BLE001
        return 0
    goals = sorted(goals, key=_size)      # cheapest clauses first: a counterexample of a small clause is found before the budget goes into the large ones
    for k, g in enumerate(goals):
      if time.time() - t1 > 4 * timeout_s:
        open_ += len(goals) - k
        break
      sk = z3.Solver()
      sk.set('timeout', per * 1000)
      sk.set('random_seed', seed)
      for a in list(pre) + list(alg.assume):
        if not isinstance(a, bool):
          sk.add(a)
      sk.add(z3.Not(g))
      rk = sk.check()
      stats['queries'] += 1
      if rk == z3.unknown:
        # cone of influence: only the hypotheses that share a symbol (transitively) with this clause.  unsat of the slice => unsat; a model of the slice together with a model
        # of the (symbol-disjoint) remainder is a model of the whole query
        hyps = [a for a in list(pre) + list(alg.assume) if not isinstance(a, bool)]
        inn, out_ = _cone(hyps, z3.Not(g))
        if out_:
          s1 = z3.Solver()
          s1.set('timeout', per * 1000)
          s1.set('random_seed', seed)
          s1.add(*inn)
          s1.add(z3.Not(g))
          r1 = s1.check()
          stats['queries'] += 1
          if r1 == z3.unsat:
            rk = r1
          elif r1 == z3.sat:
            s2 = z3.Solver()
            s2.set('timeout', per * 1000)
            s2.add(*out_)
            if s2.check() == z3.sat:
              m1, m2 = s1.model(), s2.model()
              wit = {}
              for nm, v in alg.vars.items():
                a1 = _model_value(m1, v)
                wit[nm] = a1 if m1[v] is not None else _model_value(m2, v)
              stats['solver_s'] = round(time.time() - t0, 3)
              return Result(REFUTED, 'sat (clause %d of %d on its cone of influence; the symbol-disjoint remainder of the hypotheses is satisfiable)' % (k + 1, len(goals)), witness=wit,
                            stats=stats, solver_output=(str(m1) + str(m2))[:4000])
      if rk == z3.sat:
        m = sk.model()
        wit = {nm: _model_value(m, v) for nm, v in alg.vars.items()}
        stats['solver_s'] = round(time.time() - t0, 3)
        return Result(REFUTED, 'sat (clause %d of %d, after the joint query was unknown)' % (k + 1, len(goals)), witness=wit, stats=stats, solver_output=str(m)[:4000])
      if rk != z3.unsat:
        open_ += 1
    stats['solver_s'] = round(time.time() - t0, 3)
    if open_ == 0:
      return Result(PROVED, 'unsat (clause by clause, after the joint query was unknown)', stats=stats)
  return Result(UNDECIDED, 'z3: unknown (%s)' % reason, stats=stats)


_UNIT3 = [(0, 0, 1), (0, 0, -1), (1, 0, 0), (0, -1, 0), ('3/5', '4/5', 0), ('2/3', '-1/3', '2/3'), ('-2/7', '3/7', '6/7'), ('4/9', '4/9', '-7/9'), (0, '-5/13', '12/13')]
_UNIT4 = [(1, 0, 0, 0), ('1/2', '1/2', '1/2', '1/2'), ('4/5', '3/5', 0, 0), ('2/3', 0, '-2/3', '1/3'), ('1/2', '-1/2', '1/2', '-1/2'), ('2/7', '3/7', 0, '6/7'), ('4/5', 0, 0, '-3/5')]


def _unit_groups(pre):
  """hypotheses of the form  sum_i v_i*v_i == 1  over 3 or 4 distinct constants: those constants are sampled from rational points of the sphere"""
  import z3
  groups = []
  for a in pre:
    if isinstance(a, bool) or not z3.is_eq(a):
      continue
    a = z3.simplify(a, som=False)
    if not z3.is_eq(a):
      continue
    l, r = a.children()
    if z3.is_rational_value(l):
      l, r = r, l
    if not (z3.is_rational_value(r) and r.as_fraction() == 1 and z3.is_add(l)):
      continue
    terms, stack = [], [l]
    while stack:
      t = stack.pop()
      if z3.is_add(t):
        stack.extend(t.children())
      elif not (z3.is_rational_value(t) and t.as_fraction() == 0):
        terms.append(t)
    vs = []
    for t in terms:
      if z3.is_app(t) and t.decl().kind() == z3.Z3_OP_POWER and z3.is_rational_value(t.children()[1]) and t.children()[1].as_fraction() == 2:
        t = t.children()[0] * t.children()[0]
      ch = t.children()
      if z3.is_mul(t) and len(ch) == 2 and ch[0].get_id() == ch[1].get_id() and z3.is_const(ch[0]) and ch[0].decl().kind() == z3.Z3_OP_UNINTERPRETED:
        vs.append(ch[0])
      else:
        vs = None
        break
    if vs and len(vs) in (3, 4) and len({v.get_id() for v in vs}) == len(vs):
      groups.append(vs)
  return groups


def _guided_refute(alg, pre, goals, seed, budget_s):
  """counterexample search for queries the solvers leave open: every INPUT variable (algebra variables created by the obligation body; names without '!') is fixed to a sampled
  rational -- unit-norm groups from rational points of the sphere, the rest from a small signed set, redrawn until the precondition holds -- and only the callee outputs introduced
  by cut handlers (names with '!', uninterpreted functions) are left to the solver.  Any `sat` is a model of the original query; nothing else is concluded (sound for refutation only)."""
  import random
  import z3
  t0 = time.time()
  hyps_pre = [a for a in pre if not isinstance(a, bool)]
  hyps_as = [a for a in alg.assume if not isinstance(a, bool)]
  notg = z3.Not(z3.And(*goals)) if len(goals) > 1 else z3.Not(goals[0])
  inputs = {nm: v for nm, v in alg.vars.items() if '!' not in nm and z3.is_real(v) and z3.is_const(v)}
  if not inputs:
    return None
  groups = _unit_groups(hyps_pre)
  ingroup = {}
  for gi, vs in enumerate(groups):
    for j, v in enumerate(vs):
      ingroup.setdefault(v.decl().name(), (gi, j))
  rnd = random.Random(1000 + seed)
  vals = ['1/4', '1/2', '1', '3/2', '2', '3', '1/3', '5/4']
  q = 0
  for k in range(200):
    if time.time() - t0 > budget_s:
      break
    pick = [rnd.choice(_UNIT3 if len(vs) == 3 else _UNIT4) for vs in groups]
    positive = (k % 3 == 0)
    asg = {}
    for nm in inputs:
      if nm in ingroup:
        gi, j = ingroup[nm]
        asg[nm] = str(pick[gi][j])
      else:
        asg[nm] = rnd.choice(vals) if (positive or rnd.random() < 0.5) else '-' + rnd.choice(vals)
    sub = [(inputs[nm], z3.RealVal(x)) for nm, x in asg.items()]
    ps = [z3.simplify(z3.substitute(a, *sub)) for a in hyps_pre]
    if any(z3.is_false(a) for a in ps):
      # repair simple sign preconditions by flipping the offending variables to positive values once
      for a0 in hyps_pre:
        if z3.is_false(z3.simplify(z3.substitute(a0, *sub))):
          for nm in _syms_of(a0, {}):
            if nm in asg and nm not in ingroup:
              asg[nm] = asg[nm].lstrip('-')
      sub = [(inputs[nm], z3.RealVal(x)) for nm, x in asg.items()]
      ps = [z3.simplify(z3.substitute(a, *sub)) for a in hyps_pre]
      if any(z3.is_false(a) for a in ps):
        continue
    g1 = z3.simplify(z3.substitute(notg, *sub))
    if z3.is_false(g1):
      continue
    s = z3.Solver()
    s.set('timeout', 4000)
    s.add(*[a for a in ps if not z3.is_true(a)])
    s.add(*[z3.simplify(z3.substitute(a, *sub)) for a in hyps_as])
    s.add(g1)
    q += 1
    if s.check() == z3.sat:
      m = s.model()
      wit = {}
      for nm, v in alg.vars.items():
        wit[nm] = asg[nm] if nm in asg else _model_value(m, v)
      return wit, 'inputs: %s\nmodel of the callee outputs: %s' % (asg, m), q, 'draw %d' % (k + 1)
  return None


def _syms_of(e, cache):
  import z3
  k = e.get_id()
  if k in cache:
    return cache[k]
  out, stack, seen = set(), [e], set()
  while stack:
    t = stack.pop()
    i = t.get_id()
    if i in seen:
      continue
    seen.add(i)
    if z3.is_app(t):
      if t.decl().kind() == z3.Z3_OP_UNINTERPRETED:
        out.add(t.decl().name())
      stack.extend(t.children())
    elif z3.is_quantifier(t):
      stack.append(t.body())
  cache[k] = out
  return out


def _cone(hyps, target):
  """split hyps into those connected to target through shared uninterpreted symbols (constants and functions) and the rest"""
  cache = {}
  S = set(_syms_of(target, cache))
  rest, inn, changed = list(hyps), [], True
  while changed:
    changed = False
    keep = []
    for a in rest:
      sa = _syms_of(a, cache)
      if sa & S:
        inn.append(a)
        S |= sa
        changed = True
      else:
        keep.append(a)
    rest = keep
  return inn, rest


def _cvc5(smt2, timeout_s):
  try:
    with tempfile.NamedTemporaryFile('w', suffix='.smt2', delete=False) as f:
      f.write('(set-logic ALL)\n' + smt2)
      path = f.name
    out = subprocess.run(['/usr/bin/cvc5', '--tlimit=%d' % int(timeout_s * 1000), path],
                         capture_output=True, text=True, timeout=timeout_s + 5)
    os.unlink(path)
    return out.stdout.strip().split('\n')[0] if out.stdout.strip() else 'error'
  except Exception as e:      # noqa: BLE001
    return 'error: %s' % type(e).__name__


def smt_sat(alg: Z3Alg, pre, timeout_s=20):
  """satisfiability of a precondition (vacuity guard); returns (bool|None, model dict)"""
  import z3
  s = z3.Solver()
  s.set('timeout', int(timeout_s * 1000))
  for a in list(pre) + list(alg.assume):
    if isinstance(a, bool):
      if not a:
        return False, {}
      continue
    s.add(a)
  r = s.check()
  if r == z3.sat:
    m = s.model()
    return True, {nm: _model_value(m, v) for nm, v in alg.vars.items()}
  if r == z3.unsat:
    return False, {}
  return None, {}


def eqs(alg, got, want):
  """list of equalities between two (nested) array-likes of scalars"""
  g = np.asarray(got, dtype=object) if not isinstance(got, np.ndarray) else got
  w = np.asarray(want, dtype=object) if not isinstance(want, np.ndarray) else want
  g, w = np.broadcast_arrays(g, w)
  out = []
  for a, b in zip(g.reshape(-1), w.reshape(-1)):
    if isinstance(a, np.generic):
      a = alg.const(a.item())
    if isinstance(b, np.generic):
      b = alg.const(b.item())
    out.append(alg.cmp('eq', a, b))
  return out


# --------------------------------------------------------------------------------------------------
# RING back end
def ring_equal(alg: RingAlg, got, want, name='', sampler=None):
  """normal form of got - want is 0 for every component?  On a residue: Result(REFUTED) with the
  residue printed; witness search is done by the caller's replay (random rational points)."""
  g = got if isinstance(got, np.ndarray) else np.asarray(got, dtype=object)
  w = want if isinstance(want, np.ndarray) else np.asarray(want, dtype=object)
  if g.shape != w.shape:
    g, w = np.broadcast_arrays(g, w)
  res = []
  n = 0
  for idx in np.ndindex(*g.shape) if g.shape else [()]:
    a, b = g[idx], w[idx]
    if isinstance(a, np.generic):
      a = alg.const(a.item())
    if isinstance(b, np.generic):
      b = alg.const(b.item())
    n += 1
    if isc(a) and isc(b):
      if a != b:
        res.append((idx, 'const %s != %s' % (a, b)))
      continue
    d = alg.normal(alg.sub(a, b))
    if isinstance(d, Ratio):
      d = d.num
    if isinstance(d, Poly):
      if not d.is_zero():
        res.append((idx, '%d-term residue: %s' % (len(d), alg.show(d, 6))))
    elif d != 0:
      res.append((idx, 'const residue %s' % d))
  stats = {'components': n, 'peak_terms': alg.peak, 'generators': len(alg.names), 'relations': len(alg.rel),
           'denominators_assumed_nonzero': len(alg.den_side)}
  if not res:
    return Result(PROVED, 'normal form of every difference is 0 (%d components)' % n, stats=stats)
  return Result(REFUTED, '%s: non-zero normal form at %s' % (name, '; '.join('%s: %s' % r for r in res[:4])),
                stats=stats, solver_output='\n'.join('%s: %s' % r for r in res))


def combine(results, name=''):
  """conjunction of sub-results"""
  worst = PROVED
  order = {PROVED: 0, UNDECIDED: 1, REFUTED: 2, ERROR: 3}
  stats = {}
  det = []
  wit = None
  rep = None
  out = ''
  for r in results:
    if order[r.verdict] > order[worst]:
      worst = r.verdict
    for k, v in r.stats.items():
      if isinstance(v, (int, float)) and not isinstance(v, bool):
        stats[k] = round(stats.get(k, 0) + v, 3) if k.endswith('_s') or k in ('queries', 'components') else max(stats.get(k, 0), v)
      else:
        stats.setdefault(k, v)
    if r.verdict != PROVED:
      det.append(r.detail)
      wit = wit or r.witness
      rep = rep or r.replay
      out = out or r.solver_output
  return Result(worst, '; '.join(det) if det else 'all %d parts proved' % len(results), witness=wit,
                replay=rep, stats=stats, solver_output=out)


# --------------------------------------------------------------------------------------------------
def to_float(x):
  if isinstance(x, Fraction):
    return float(x)
  if isinstance(x, (bool, int, float)):
    return x
  return x


def jsonable(x):
  if isinstance(x, dict):
    return {str(k): jsonable(v) for k, v in x.items()}
  if isinstance(x, (list, tuple)):
    return [jsonable(v) for v in x]
  if isinstance(x, Fraction):
    return float(x) if x.denominator != 1 else int(x)
  if isinstance(x, np.ndarray):
    return jsonable(x.tolist())
  if isinstance(x, np.generic):
    return x.item()
  if isinstance(x, (bool, int, float, str)) or x is None:
    return x
  return str(x)
