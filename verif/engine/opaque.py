"""`opaque`: a JAX primitive that cuts a callee out of its caller's trace (modular verification).

The callee's *contract* is what the caller's proof sees; the callee's own body is verified against
that contract separately.  The primitive has a batching rule, so the boundary survives jax.vmap."""
import contextlib
import importlib
import numpy as np
import jax
import jax.numpy as jnp
from jax.extend import core as jcore
from jax.interpreters import batching
from jax._src import core as _core

opaque_p = jcore.Primitive('opaque')
opaque_p.multiple_results = True


def _abs(*avals, name, out_shapes, out_dtypes, batch, static, argnames):
  return [_core.ShapedArray(tuple(batch) + tuple(s), d) for s, d in zip(out_shapes, out_dtypes)]


opaque_p.def_abstract_eval(_abs)


def _impl(*args, name, **kw):
  raise RuntimeError('opaque call %s is not executable' % name)


opaque_p.def_impl(_impl)


def _batch(args, dims, *, name, out_shapes, out_dtypes, batch, static, argnames):
  size = next(a.shape[d] for a, d in zip(args, dims) if d is not None)
  new = []
  for a, d in zip(args, dims):
    if d is None:
      a = jnp.broadcast_to(a, (size,) + a.shape)
    else:
      a = jnp.moveaxis(a, d, 0)
    new.append(a)
  outs = opaque_p.bind(*new, name=name, out_shapes=out_shapes, out_dtypes=out_dtypes,
                       batch=(size,) + tuple(batch), static=static, argnames=argnames)
  return outs, [0] * len(outs)


batching.primitive_batchers[opaque_p] = _batch


def _is_arr(x):
  # python scalars are static (shapes, flags, step sizes); arrays and tracers are operands
  return isinstance(x, (jax.Array, np.ndarray, np.generic)) or hasattr(x, 'aval')


def opaque(name, fn):
  """wrap fn: at trace time the output structure comes from eval_shape of the REAL callee, and an
  `opaque` equation is emitted instead of the callee's body.  Array-valued arguments become operands
  (params['argnames'] gives the parameter name of each), python scalars / None are static."""
  import inspect
  try:
    sig = inspect.signature(fn)
  except (TypeError, ValueError):
    sig = None

  def wrapped(*args, **kw):
    items = None
    if sig is not None:
      try:
        ba = sig.bind(*args, **kw)
        items = list(ba.arguments.items())
      except TypeError:
        items = None
    if items is None:
      items = [('arg%d' % i, a) for i, a in enumerate(args)] + sorted(kw.items())
    flat, names = [], []
    for nm, v in items:
      ls = jax.tree_util.tree_leaves(v, is_leaf=lambda x: x is None)
      flat += ls
      names += [nm] * len(ls)
    arr_idx = [i for i, x in enumerate(flat) if _is_arr(x)]
    static = tuple((names[i], repr(x)) for i, x in enumerate(flat) if i not in arr_idx)

    def on_arrays(*arrs):
      it = iter(arrs)
      def sub(v):
        return jax.tree_util.tree_map(lambda x: next(it) if _is_arr(x) else x, v, is_leaf=lambda x: x is None)
      vals = {nm: sub(v) for nm, v in items}
      if sig is not None and all(not nm.startswith('arg') or nm in sig.parameters for nm in vals):
        pos, kws = [], {}
        for nm, v in vals.items():
          prm = sig.parameters.get(nm)
          if prm is not None and prm.kind == inspect.Parameter.VAR_POSITIONAL:
            pos += list(v)
          elif prm is not None and prm.kind == inspect.Parameter.VAR_KEYWORD:
            kws.update(v)
          elif prm is not None and prm.kind in (inspect.Parameter.POSITIONAL_ONLY, inspect.Parameter.POSITIONAL_OR_KEYWORD):
            pos.append(v)
          else:
            kws[nm] = v
        return fn(*pos, **kws)
      return fn(*[v for nm, v in vals.items() if nm.startswith('arg')], **{nm: v for nm, v in vals.items() if not nm.startswith('arg')})
    out_struct = jax.eval_shape(on_arrays, *[flat[i] for i in arr_idx])
    oflat, otree = jax.tree_util.tree_flatten(out_struct)
    outs = opaque_p.bind(*[jnp.asarray(flat[i]) for i in arr_idx], name=name,
                         out_shapes=tuple(tuple(o.shape) for o in oflat),
                         out_dtypes=tuple(np.dtype(o.dtype) for o in oflat), batch=(), static=static,
                         argnames=tuple(names[i] for i in arr_idx))
    return jax.tree_util.tree_unflatten(otree, outs)
  wrapped.__wrapped__ = fn
  wrapped.__name__ = getattr(fn, '__name__', name)
  return wrapped


@contextlib.contextmanager
def cut(*targets):
  """targets: 'pkg.module:attr' (optionally 'pkg.module:Class.attr').  Each is replaced by an
  opaque stub for the duration of the block.  Also patches `from x import attr` aliases given as
  extra 'alias_module:alias_attr=pkg.module:attr'."""
  saved = []
  tables = []
  try:
    for t in targets:
      if '=' in t:
        alias, t0 = t.split('=')
      else:
        alias, t0 = t, t
      modname, attr = alias.split(':')
      mod = importlib.import_module(modname)
      obj = mod
      parts = attr.split('.')
      for pth in parts[:-1]:
        obj = getattr(obj, pth)
      if not hasattr(obj, parts[-1]):
        raise AttributeError('cut target %s does not exist' % alias)
      real = getattr(obj, parts[-1])
      saved.append((obj, parts[-1], real))
      stub = opaque(t0, real)
      setattr(obj, parts[-1], stub)
      # the callee may also be referenced from module-level dispatch tables ({'1': _one_dof, ...}) built at import time: those references are cut as well
      if len(parts) == 1:
        for nm_, val_ in list(vars(mod).items()):
          if isinstance(val_, dict):
            for k_, v_ in list(val_.items()):
              if v_ is real:
                val_[k_] = stub
                tables.append((val_, k_, real))
          elif isinstance(val_, list):
            for k_, v_ in enumerate(val_):
              if v_ is real:
                val_[k_] = stub
                tables.append((val_, k_, real))
          elif isinstance(val_, tuple) and any(v_ is real for v_ in val_):
            saved.append((mod, nm_, val_))
            setattr(mod, nm_, tuple(stub if v_ is real else v_ for v_ in val_))
    yield
  finally:
    for tab, k_, real in reversed(tables):
      tab[k_] = real
    for obj, a, real in reversed(saved):
      setattr(obj, a, real)


def arg(P, ins, name, default=None):
  """value of the named argument at an opaque call: operand (array) or static python value"""
  import ast
  for nm, x in zip(P['argnames'], ins):
    if nm == name:
      return x
  for nm, r in P['static']:
    if nm == name:
      try:
        return ast.literal_eval(r)
      except Exception:      # noqa: BLE001
        return r
  return default


def args_named(P, ins, name):
  return [x for nm, x in zip(P['argnames'], ins) if nm == name]
