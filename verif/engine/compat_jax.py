"""Everything that depends on jax 0.11.1 internals lives here and fails closed."""
import numpy as np
import jax


def is_key_dtype(dt):
  try:
    return jax.dtypes.issubdtype(dt, jax.dtypes.prng_key)
  except Exception:
    return 'key<' in str(dt)


class _Closed:
  def __init__(self, jaxpr, consts):
    self.jaxpr, self.consts = jaxpr, consts


def scan_parts(P):
  """-> (closed body, number of consts, number of carries)"""
  body = P['jaxpr']
  if 'num_consts' in P:
    nc, ncar = P['num_consts'], P['num_carry']
  elif 'ft_in' in P:
    a, b, c = P['ft_in'].unpack()
    nc, ncar = len(a), len(b)
  else:
    raise RuntimeError('unknown scan parameter layout: %s' % sorted(P))
  if hasattr(body, 'consts'):
    return body, nc, ncar
  return _Closed(body, []), nc, ncar
