"""Engine J: mixed concrete / symbolic interpreter for jaxprs of the real brax functions.

  * an equation all of whose operands are concrete is executed by JAX itself (`primitive.bind`);
  * data-movement primitives are executed by JAX on arrays of element ids (no hand-written semantics);
  * ~45 scalar primitives have 1-3 line semantics over an `Alg`;
  * `opaque` equations (callee cuts) are dispatched to contract handlers.
"""
from __future__ import annotations
import itertools
import numpy as np
import jax
import jax.numpy as jnp
from jax.extend import core as jcore

from .alg import Alg, Unsupported, is_sym, isc, obj0
from . import compat_jax as cj

jax.config.update('jax_enable_x64', True)

CMP = ('lt', 'le', 'gt', 'ge', 'eq', 'ne')
# data movement: name -> (data operand positions or None for all, index operand positions)
MOVE = {
    'slice': None, 'squeeze': None, 'broadcast_in_dim': None, 'concatenate': None, 'reshape': None,
    'transpose': None, 'rev': None, 'expand_dims': None, 'pad': None, 'copy': None, 'copy_p': None,
    'split': None, 'unstack': None, 'stack': None, 'tile': None,
    'gather': ([0], [1]), 'scatter': ([0, 2], [1]), 'dynamic_slice': ([0], 'rest'),
    'dynamic_update_slice': ([0, 1], 'rest'),
}
TRANSC = ('atanh', 'exp', 'log', 'tanh', 'log1p', 'atan2', 'acos', 'asin', 'sin', 'cos', 'expm1', 'atan',
          'sinh', 'cosh', 'tan', 'erf', 'logistic', 'erf_inv', 'exp2', 'floor', 'ceil', 'round')
CALLS = {'jit': 'jaxpr', 'pjit': 'jaxpr', 'closed_call': 'call_jaxpr', 'core_call': 'call_jaxpr',
         'custom_jvp_call': 'call_jaxpr', 'custom_vjp_call': 'call_jaxpr', 'remat': 'jaxpr',
         'checkpoint': 'jaxpr', 'custom_vjp_call_jaxpr': 'fun_jaxpr'}


def _kind(dtype):
  k = np.dtype(dtype).kind if not cj.is_key_dtype(dtype) else 'K'
  return {'f': 'f', 'i': 'i', 'u': 'i', 'b': 'b', 'K': 'K'}.get(k, k)


def wrap(o):
  if isinstance(o, np.ndarray):
    return o
  return obj0(o)


class Poison:
  """value of an equation the algebra cannot express (Unsupported), kept lazily: it is an error only if it reaches an output or a symbolic operation.
  Opt-in (Interp(lazy_unsupported=True)): sound for VALUE obligations -- a value selected away by a CONCRETE predicate is never used -- but not for definedness
  obligations (C03), which therefore never enable it."""

  def __init__(self, err):
    self.err = err

  def __repr__(self):
    return 'Poison(%s)' % self.err


def has_poison(x):
  return is_sym(x) and any(isinstance(e, Poison) for e in x.reshape(-1))


def poison_like(avals, err):
  outs = []
  for a in avals:
    o = np.empty(tuple(a.shape), dtype=object)
    pz = Poison(err)
    if o.ndim == 0:
      o[()] = pz
    else:
      o.reshape(-1)[:] = [pz] * o.size
    outs.append(o)
  return outs


class Interp:
  def __init__(self, alg: Alg, cuts=None, unroll=True, hints=None, on_call=None):
    self.alg = alg
    self.cuts = cuts or {}          # opaque name -> handler(interp, params, ins) -> outs
    self.calls = []                 # record of opaque calls (name, batch, ins, outs)
    self.hints = hints or {}
    self.stats = {'eqns': 0, 'sym_eqns': 0}
    self.concrete_nans = []
    self.concrete_infs = []      # +-inf computed by a concrete equation from finite operands (x/0, log 0): a zero denominator of the derivative program
    self.lazy_unsupported = False
    self._poison_seen = False
    self.on_call = on_call
    self.prims = set()
    self.side_notes = []            # side conditions introduced by contract cuts, to be discharged by the caller

  # -- lifting -----------------------------------------------------------------------------------
  def lift(self, a):
    if is_sym(a):
      return a
    a = np.asarray(a)
    kind = _kind(a.dtype)
    out = np.empty(a.shape, dtype=object)
    flat = out.reshape(-1) if a.ndim else None
    c = self.alg.const
    if a.ndim == 0:
      out[()] = c(a.item(), kind)
    else:
      src = a.reshape(-1)
      for i in range(src.size):
        flat[i] = c(src[i].item(), kind)
    return out

  def ew(self, f, *xs):
    xs = [self.lift(x) for x in xs]
    r = np.frompyfunc(f, len(xs), 1)(*xs)
    return wrap(r)

  # -- data movement by element ids -------------------------------------------------------------
  def move(self, eqn, ins):
    spec = MOVE[eqn.primitive.name]
    n = len(ins)
    if spec is None:
      data = list(range(n))
    else:
      data = spec[0]
    tables, id_ins, base = [], [], 1
    for i, x in enumerate(ins):
      if i in data:
        x = self.lift(x)
        ids = np.arange(base, base + x.size, dtype=np.int64).reshape(x.shape)
        base += x.size
        tables.append(x.reshape(-1))
        id_ins.append(ids)
      else:
        if is_sym(x):
          raise Unsupported('symbolic index operand of %s' % eqn.primitive.name)
        id_ins.append(x)
    params = dict(eqn.params)
    if eqn.primitive.name in ('gather',) and 'fill_value' in params and params['fill_value'] is not None:
      params['fill_value'] = 0
    outs = eqn.primitive.bind(*[jnp.asarray(i) for i in id_ins], **params)
    outs = outs if eqn.primitive.multiple_results else [outs]
    fill = obj0(self.alg.const(0, _kind(eqn.outvars[0].aval.dtype)))
    flat = np.concatenate([fill.reshape(1)] + tables)
    return [wrap(flat[np.asarray(o)]) for o in outs]

  # -- evaluation -----------------------------------------------------------------------------------
  def eval_closed(self, closed, *args):
    return self.eval(closed.jaxpr, closed.consts, *args)

  def eval(self, jaxpr, consts, *args):
    env = {}
    A = self.alg

    def read(v):
      if isinstance(v, jcore.Literal):
        return np.asarray(v.val, dtype=v.aval.dtype) if not cj.is_key_dtype(v.aval.dtype) else v.val
      return env[v]

    def norm_in(c):
      if is_sym(c):
        return c
      if hasattr(c, 'dtype') and cj.is_key_dtype(c.dtype):
        return c
      return np.asarray(c)

    for v, c in zip(jaxpr.constvars, consts):
      env[v] = norm_in(c)
    assert len(jaxpr.invars) == len(args), (len(jaxpr.invars), len(args))
    for v, a in zip(jaxpr.invars, args):
      env[v] = norm_in(a)
    for eqn in jaxpr.eqns:
      ins = [read(v) for v in eqn.invars]
      if not self.lazy_unsupported:
        outs = self.eqn(eqn, ins)
      else:
        pname = eqn.primitive.name
        tainted = self._poison_seen and any(has_poison(x) for x in ins)
        passthrough = pname in MOVE or pname == 'select_n' or pname in CALLS
        if tainted and not passthrough:
          err = next(e for x in ins if has_poison(x) for e in x.reshape(-1) if isinstance(e, Poison)).err
          outs = poison_like([v.aval for v in eqn.outvars], err)
        else:
          try:
            outs = self.eqn(eqn, ins)
          except Unsupported as ex:
            self._poison_seen = True
            where = ''
            try:
              from jax._src import source_info_util
              fr = source_info_util.user_frame(eqn.source_info)
              where = ' at %s:%s' % (fr.file_name.split('/')[-1], fr.start_line) if fr else ''
            except Exception:      # noqa: BLE001
              pass
            outs = poison_like([v.aval for v in eqn.outvars], '%s [%s%s]' % (ex, pname, where))
          except Exception as ex:      # noqa: BLE001
            if not tainted:
              raise
            outs = poison_like([v.aval for v in eqn.outvars], 'poisoned operand (%s)' % type(ex).__name__)
      for v, o in zip(eqn.outvars, outs):
        if is_sym(o) or isinstance(o, np.ndarray):
          if tuple(o.shape) != tuple(v.aval.shape):
            raise AssertionError('shape mismatch at %s: %s vs %s' % (eqn.primitive.name, o.shape, v.aval.shape))
        env[v] = o
    return [read(v) for v in jaxpr.outvars]

  def eqn(self, eqn, ins):
    A = self.alg
    p = eqn.primitive.name
    P = eqn.params
    self.stats['eqns'] += 1
    if p in CALLS:
      sub = P[CALLS[p]]
      if hasattr(sub, 'jaxpr'):
        return self.eval(sub.jaxpr, sub.consts, *ins)
      return self.eval(sub, [], *ins)
    if p == 'opaque':
      return self.opaque(eqn, ins)
    if p == 'xla_pmap':
      return self.pmap(eqn, ins)
    if p == 'shard_map':
      return self.shard_map(eqn, ins)
    if p in ('sharding_constraint', 'mesh_cast', 'reshard', 'device_put'):
      return list(ins)
    anysym = any(is_sym(x) for x in ins)
    if p == 'scan':
      return self.scan(eqn, ins)
    if p == 'cond':
      return self.cond(eqn, ins)
    if p == 'while':
      return self.while_(eqn, ins)
    if not anysym and getattr(A, 'name', '') == 'sym' and p in TRANSC and len(ins) == 1 and np.asarray(ins[0]).dtype.kind == 'f':
      return [self.ew(lambda a: A.fn(p, a), ins[0])]          # keep log(2), exp(1), ... exact in the SYM back end
    if not anysym:
      o = eqn.primitive.bind(*[x if (hasattr(x, 'dtype') and cj.is_key_dtype(x.dtype)) else jnp.asarray(x) for x in ins], **P)
      o = o if eqn.primitive.multiple_results else [o]
      res = [x if cj.is_key_dtype(x.dtype) else np.asarray(x) for x in o]
      # a NaN computed by a concrete equation from NaN-free operands (0/0, inf-inf, atan2-derivative at the origin ...): remembered, so that definedness
      # contracts (C03) can report it; other obligations are unaffected (a NaN that reaches a symbolic operation still makes them undecided)
      try:
        if any(r.dtype.kind == 'f' and np.isnan(r).any() for r in res if hasattr(r, 'dtype') and not cj.is_key_dtype(r.dtype)) and \
           not any(np.asarray(x).dtype.kind == 'f' and np.isnan(np.asarray(x)).any() for x in ins if not (hasattr(x, 'dtype') and cj.is_key_dtype(x.dtype))):
          self.concrete_nans.append({'primitive': p, 'operands': [np.asarray(x).reshape(-1)[:6].tolist() for x in ins if not (hasattr(x, 'dtype') and cj.is_key_dtype(x.dtype))][:3]})
        elif p in ('div', 'rsqrt', 'log', 'pow', 'integer_pow') and any(r.dtype.kind == 'f' and np.isinf(r).any() for r in res if hasattr(r, 'dtype') and not cj.is_key_dtype(r.dtype)) and \
           all(np.isfinite(np.asarray(x)).all() for x in ins if not (hasattr(x, 'dtype') and cj.is_key_dtype(x.dtype)) and np.asarray(x).dtype.kind == 'f'):
          self.concrete_infs.append({'primitive': p, 'operands': [np.asarray(x).reshape(-1)[:6].tolist() for x in ins if not (hasattr(x, 'dtype') and cj.is_key_dtype(x.dtype))][:3]})
      except Exception:      # noqa: BLE001
        pass
      return res
    self.stats['sym_eqns'] += 1
    self.prims.add(p)
    ew = self.ew
    if p in MOVE:
      spec = MOVE[p]
      if spec is not None:
        idxpos = range(len(spec[0]), len(ins)) if spec[1] == 'rest' else spec[1]
        if any(is_sym(ins[i]) for i in idxpos):
          return self.sym_index(eqn, ins)
      return self.move(eqn, ins)
    if p == 'add' or p == 'add_any':
      return [ew(A.add, *ins)]
    if p == 'sub':
      return [ew(A.sub, *ins)]
    if p == 'mul':
      return [ew(A.mul, *ins)]
    if p == 'neg':
      return [ew(A.neg, *ins)]
    if p == 'div':
      if _kind(eqn.outvars[0].aval.dtype) == 'i':
        return [ew(self._idiv, *ins)]
      return [ew(A.div, *ins)]
    if p == 'max':
      return [ew(A.max, *ins)]
    if p == 'min':
      return [ew(A.min, *ins)]
    if p == 'abs':
      return [ew(A.abs, *ins)]
    if p == 'sign':
      return [ew(A.sign, *ins)]
    if p == 'square':
      return [ew(lambda a: A.mul(a, a), *ins)]
    if p == 'integer_pow':
      y = P['y']
      return [ew(lambda a: A.ipow(a, y), *ins)]
    if p == 'sqrt':
      return [ew(A.sqrt, *ins)]
    if p == 'rsqrt':
      return [ew(A.rsqrt, *ins)]
    if p == 'pow':
      def pw(a, b):
        if isc(b) and b == int(b) and abs(int(b)) <= 8:
          return A.ipow(a, int(b))
        return A.fn('pow', a, b)
      return [ew(pw, *ins)]
    if p in TRANSC:
      return [ew(lambda *a: A.fn(p, *a), *ins)]
    if p in CMP:
      return [ew(lambda a, b: A.cmp(p, a, b), *ins)]
    if p == 'and':
      return [ew(A.and_, *ins)]
    if p == 'or':
      return [ew(A.or_, *ins)]
    if p == 'not':
      return [ew(A.not_, *ins)]
    if p == 'xor':
      return [ew(lambda a, b: A.cmp('ne', a, b), *ins)]
    if p == 'clamp':
      lo, x, hi = ins
      return [ew(lambda l, v, h: A.min(A.max(v, l), h), lo, x, hi)]
    if p == 'select_n':
      return [self.select_n(ins)]
    if p == 'convert_element_type':
      return [self.convert(ins[0], _kind(eqn.invars[0].aval.dtype), _kind(P['new_dtype']))]
    if p in ('stop_gradient', 'reduce_precision', 'optimization_barrier'):
      return list(ins)
    if p == 'is_finite':
      return [ew(lambda a: True, *ins)]
    if p == 'dot_general':
      return [self.dot_general(eqn, ins)]
    if p in ('reduce_sum', 'reduce_max', 'reduce_min', 'reduce_and', 'reduce_or', 'reduce_prod'):
      f = {'reduce_sum': A.add, 'reduce_max': A.max, 'reduce_min': A.min, 'reduce_and': A.and_,
           'reduce_or': A.or_, 'reduce_prod': A.mul}[p]
      return [self.reduce(f, ins[0], P['axes'], eqn.outvars[0].aval)]
    if p in ('cumsum', 'cumprod', 'cummax', 'cummin'):
      f = {'cumsum': A.add, 'cumprod': A.mul, 'cummax': A.max, 'cummin': A.min}[p]
      return [self.cumulative(f, ins[0], P['axis'], P.get('reverse', False))]
    if p in ('argmax', 'argmin'):
      return [self.argext(p, ins[0], P['axes'], eqn.outvars[0].aval)]
    if p in ('scatter-add', 'scatter_add'):
      return [self.scatter_add(eqn, ins)]
    if p == 'rem':
      return [ew(self._rem, *ins)]
    if p.startswith('random_') or p in ('threefry2x32',):
      return self.random(eqn, ins)
    raise Unsupported('primitive %s (symbolic operands)' % p)

  # -- scalar helpers ---------------------------------------------------------------------------
  def _idiv(self, a, b):
    A = self.alg
    if isc(a) and isc(b):
      q = abs(a) // abs(b)
      return q if (a >= 0) == (b >= 0) else -q
    if hasattr(A, 'idiv'):
      return A.idiv(a, b)
    raise Unsupported('symbolic integer division')

  def _rem(self, a, b):
    """C-style remainder (sign of the dividend), as lax.rem."""
    A = self.alg
    if isc(a) and isc(b):
      if isinstance(a, int) and isinstance(b, int):
        r = abs(a) % abs(b)
        return r if a >= 0 else -r
      import math
      return A.const(math.fmod(float(a), float(b)), 'f')
    if hasattr(A, 'rem'):
      return A.rem(a, b)
    raise Unsupported('symbolic rem')

  def convert(self, x, src, dst):
    A = self.alg
    if src == dst or not is_sym(x):
      if not is_sym(x):
        return x
      return x
    if dst == 'f':
      return self.ew(A.to_float, x)
    if dst == 'i':
      return self.ew(lambda a: A.to_int(a, src), x)
    if dst == 'b':
      return self.ew(A.to_bool, x)
    raise Unsupported('convert_element_type %s->%s' % (src, dst))

  def select_n(self, ins):
    A = self.alg
    c, cases = ins[0], ins[1:]
    if is_sym(c) and all(isc(e) for e in c.reshape(-1)):          # an object array that only holds constants (e.g. any() over a zero axis row)
      c = np.array([int(e) for e in c.reshape(-1)]).reshape(c.shape)
    if not is_sym(c):
      cs = np.broadcast_arrays(*[self.lift(x) for x in cases])
      ci = np.broadcast_to(np.asarray(c).astype(int), cs[0].shape)
      out = np.empty(cs[0].shape, dtype=object)
      for k, arr in enumerate(cs):
        m = ci == k
        out[m] = arr[m]
      return out
    if len(cases) != 2:
      raise Unsupported('symbolic multi-way select_n')

    def pick(cc, a, b):
      if isc(cc):                      # element-wise: a constant predicate element selects without looking at the other branch (which may be a lazy error)
        return b if int(cc) else a
      if isinstance(a, Poison) or isinstance(b, Poison):
        return a if isinstance(a, Poison) else b
      return A.ite(cc, b, a)
    return self.ew(pick, c, *cases)

  def dot_general(self, eqn, ins):
    A = self.alg
    (lc, rc), (lb, rb) = eqn.params['dimension_numbers']
    a, b = self.lift(ins[0]), self.lift(ins[1])
    lf = [d for d in range(a.ndim) if d not in lc and d not in lb]
    rf = [d for d in range(b.ndim) if d not in rc and d not in rb]
    at = np.transpose(a, list(lb) + lf + list(lc))
    bt = np.transpose(b, list(rb) + rf + list(rc))
    bshape = at.shape[:len(lb)]
    mshape = at.shape[len(lb):len(lb) + len(lf)]
    nshape = bt.shape[len(rb):len(rb) + len(rf)]
    kshape = at.shape[len(lb) + len(lf):]
    B = int(np.prod(bshape)) if bshape else 1
    M = int(np.prod(mshape)) if mshape else 1
    N = int(np.prod(nshape)) if nshape else 1
    K = int(np.prod(kshape)) if kshape else 1
    a3 = at.reshape(B, M, K)
    b3 = bt.reshape(B, N, K)
    out = np.empty((B, M, N), dtype=object)
    kind = _kind(eqn.outvars[0].aval.dtype)
    zero = A.const(0, kind)
    for bi in range(B):
      for i in range(M):
        ra = a3[bi, i]
        nz = [k for k in range(K) if not (isc(ra[k]) and ra[k] == 0)]
        for j in range(N):
          rb_ = b3[bi, j]
          acc = zero
          for k in nz:
            y = rb_[k]
            if isc(y) and y == 0:
              continue
            acc = A.add(acc, A.mul(ra[k], y))
          out[bi, i, j] = acc
    return out.reshape(tuple(bshape) + tuple(mshape) + tuple(nshape))

  def reduce(self, f, x, axes, aval):
    x = self.lift(x)
    axes = tuple(sorted(axes))
    if not axes:
      return x
    keep = [d for d in range(x.ndim) if d not in axes]
    xt = np.transpose(x, keep + list(axes))
    kshape = xt.shape[:len(keep)]
    xt = xt.reshape(kshape + (-1,))
    out = np.empty(kshape, dtype=object)
    for idx in np.ndindex(*kshape):
      row = xt[idx]
      if row.size == 0:
        raise Unsupported('reduction over an empty axis')
      acc = row[0]
      for e in row[1:]:
        acc = f(acc, e)
      out[idx] = acc
    return out

  def cumulative(self, f, x, axis, reverse):
    x = self.lift(x)
    xm = np.moveaxis(x, axis, 0)
    if reverse:
      xm = xm[::-1]
    out = np.empty(xm.shape, dtype=object)
    acc = None
    for i in range(xm.shape[0]):
      acc = xm[i] if acc is None else wrap(np.frompyfunc(f, 2, 1)(acc, xm[i]))
      out[i] = acc
    if reverse:
      out = out[::-1]
    return np.moveaxis(out, 0, axis)

  def argext(self, p, x, axes, aval):
    A = self.alg
    x = self.lift(x)
    (axis,) = axes
    xm = np.moveaxis(x, axis, -1)
    out = np.empty(xm.shape[:-1], dtype=object)
    better = 'gt' if p == 'argmax' else 'lt'
    for idx in np.ndindex(*xm.shape[:-1]):
      row = xm[idx]
      bi, bv = 0, row[0]
      for k in range(1, len(row)):
        c = A.cmp(better, row[k], bv)
        bi = A.ite(c, k, bi)
        bv = A.ite(c, row[k], bv)
      out[idx] = bi
    return out

  def scatter_add(self, eqn, ins):
    A = self.alg
    operand, idx, upd = ins
    if is_sym(idx):
      raise Unsupported('scatter-add with symbolic indices')
    operand, upd = self.lift(operand), self.lift(upd)
    # target position of every update element: scatter (overwrite) ids one update element at a time
    # is quadratic; instead scatter-add powers is unsafe; use the linear structure via jacobian.
    dt = eqn.invars[0].aval.dtype
    f = lambda u: eqn.primitive.bind(jnp.zeros(operand.shape, dt), jnp.asarray(idx), u, **eqn.params)
    J = np.asarray(jax.jacfwd(f)(jnp.zeros(upd.shape, dt)))
    J = J.reshape(operand.size, upd.size)
    if not np.all((J == 0) | (J == 1)):
      raise Unsupported('scatter-add with non 0/1 structure')
    of = operand.reshape(-1).copy()
    uf = upd.reshape(-1)
    rows, cols = np.nonzero(J)
    for r, c in zip(rows, cols):
      of[r] = A.add(of[r], uf[c])
    return of.reshape(operand.shape)

  def sym_index(self, eqn, ins):
    """dynamic_slice / dynamic_update_slice / gather with symbolic start indices: ite over the
    finitely many (clamped) start positions; in-bounds side conditions are recorded."""
    A = self.alg
    p = eqn.primitive.name
    if p in ('dynamic_slice', 'dynamic_update_slice'):
      if p == 'dynamic_slice':
        operand = self.lift(ins[0])
        idxs = ins[1:]
        sizes = eqn.params['slice_sizes']
        upd = None
      else:
        operand = self.lift(ins[0])
        upd = self.lift(ins[1])
        idxs = ins[2:]
        sizes = upd.shape
      starts = []
      for dim, (ix, sz) in enumerate(zip(idxs, sizes)):
        mx = operand.shape[dim] - sz
        if not is_sym(ix):
          starts.append([(True, int(np.clip(int(ix), 0, mx)))])
        else:
          i0 = ix.item()
          lst = []
          for v in range(0, mx + 1):
            if v == 0:
              cnd = A.cmp('le', i0, 0)
            elif v == mx:
              cnd = A.cmp('ge', i0, mx)
            else:
              cnd = A.cmp('eq', i0, v)
            if mx == 0:
              cnd = True
            lst.append((cnd, v))
          starts.append(lst)
      out = None
      for combo in reversed(list(itertools.product(*starts))):
        cnd = True
        for c, _ in combo:
          cnd = A.and_(cnd, c)
        st = [v for _, v in combo]
        sl = tuple(slice(s, s + z) for s, z in zip(st, sizes))
        if upd is None:
          res = operand[sl]
        else:
          res = operand.copy()
          res[sl] = upd
        if out is None:
          out = res
        else:
          out = self.ew(lambda a, b, cnd=cnd: A.ite(cnd, a, b), res, out)
      return [out]
    if p == 'gather':
      operand = self.lift(ins[0])
      idx = ins[1]
      dn = eqn.params['dimension_numbers']
      if not (tuple(dn.collapsed_slice_dims) == (0,) and tuple(dn.start_index_map) == (0,)
              and idx.shape[-1] == 1):
        raise Unsupported('symbolic gather with general dimension numbers')
      mode = str(eqn.params.get('mode'))
      n0 = operand.shape[0]
      flat_idx = idx.reshape(-1)
      rows = []
      for i0 in flat_idx:
        if isc(i0):
          rows.append(operand[int(np.clip(i0, 0, n0 - 1))])
          continue
        if hasattr(A, 'side'):
          A.side.append(('gather-in-bounds', A.and_(A.cmp('ge', i0, 0), A.cmp('lt', i0, n0))))
        acc = operand[n0 - 1]
        for v in range(n0 - 2, -1, -1):
          cnd = A.cmp('le', i0, 0) if v == 0 else A.cmp('eq', i0, v)
          acc = self.ew(lambda a, b, cnd=cnd: A.ite(cnd, a, b), operand[v], acc)
        rows.append(acc)
      out = np.empty((len(rows),) + operand.shape[1:], dtype=object)
      for i, r in enumerate(rows):
        out[i] = r[()] if (isinstance(r, np.ndarray) and r.shape == ()) else r      # a 0-d object array would be stored as a nested array
      return [out.reshape(tuple(eqn.outvars[0].aval.shape))]
    raise Unsupported('symbolic index operand of %s' % p)

  # -- control flow -----------------------------------------------------------------------------
  def scan(self, eqn, ins):
    P = eqn.params
    L, rev = P['length'], P['reverse']
    closed, nc, ncar = cj.scan_parts(P)
    consts_ = ins[:nc]
    carry = list(ins[nc:nc + ncar])
    xs = ins[nc + ncar:]
    nys = len(closed.jaxpr.outvars) - ncar
    ylist = {}
    order = range(L - 1, -1, -1) if rev else range(L)
    for i in order:
      xi = [x[i] for x in xs]
      res = self.eval(closed.jaxpr, closed.consts, *consts_, *carry, *xi)
      carry = list(res[:ncar])
      ylist[i] = res[ncar:]
    ys = []
    for k in range(nys):
      aval = closed.jaxpr.outvars[ncar + k].aval
      if L == 0:
        ys.append(np.zeros((0,) + tuple(aval.shape), dtype=aval.dtype))
        continue
      items = [ylist[i][k] for i in range(L)]
      if any(is_sym(t) for t in items):
        items = [self.lift(t) for t in items]
        out = np.empty((L,) + tuple(aval.shape), dtype=object)
        for i, t in enumerate(items):
          out[i] = t
        ys.append(out)
      else:
        ys.append(np.stack([np.asarray(t) for t in items]))
    return carry + ys

  def cond(self, eqn, ins):
    A = self.alg
    idx, ops = ins[0], ins[1:]
    brs = eqn.params['branches']
    if not is_sym(idx):
      b = brs[int(np.clip(int(idx), 0, len(brs) - 1))]
      return self.eval(b.jaxpr, b.consts, *ops)
    i0 = idx.item()
    res = [self.eval(b.jaxpr, b.consts, *ops) for b in brs]
    outs = []
    n = len(brs)
    for k in range(len(res[0])):
      acc = self.lift(res[-1][k])
      for bi in range(n - 2, -1, -1):
        if isinstance(i0, bool) or (not isc(i0) and _is_boolish(A, i0)):
          cnd = A.not_(i0) if bi == 0 else i0
        else:
          cnd = A.cmp('le', i0, 0) if bi == 0 else A.cmp('eq', i0, bi)
        acc = self.ew(lambda a, b, cnd=cnd: A.ite(cnd, a, b), res[bi][k], acc)
      outs.append(acc)
    return outs

  def while_(self, eqn, ins):
    P = eqn.params
    cn, bn = P['cond_nconsts'], P['body_nconsts']
    cc, bc, carry = ins[:cn], ins[cn:cn + bn], list(ins[cn + bn:])
    cj_, bj = P['cond_jaxpr'], P['body_jaxpr']
    for _ in range(100000):
      c, = self.eval(cj_.jaxpr, cj_.consts, *cc, *carry)
      if is_sym(c):
        c = c.item()
        if not isc(c):
          raise Unsupported('while loop with a symbolic condition')
      if not bool(c):
        return carry
      carry = list(self.eval(bj.jaxpr, bj.consts, *bc, *carry))
    raise Unsupported('while loop did not terminate')

  def pmap(self, eqn, ins):
    """xla_pmap without collectives: the body is evaluated once per index of the mapped axis (sound: a pmapped function is the per-device function)"""
    P = eqn.params
    n = P['axis_size']
    body = P['call_jaxpr']
    in_axes, out_axes = P['in_axes'], P['out_axes']
    for e in body.eqns:
      if e.primitive.name in ('psum', 'all_gather', 'pmax', 'pmin', 'ppermute', 'axis_index', 'all_to_all'):
        raise Unsupported('collective %s inside pmap' % e.primitive.name)
    per = []
    for i in range(n):
      args = []
      for x, ax in zip(ins, in_axes):
        if ax is None:
          args.append(x)
        else:
          x_ = x if is_sym(x) else np.asarray(x)
          args.append(np.take(x_, i, axis=ax) if not is_sym(x_) else wrap(np.take(x_, i, axis=ax)))
      per.append(self.eval(body, [], *args))
    outs = []
    for k, ax in enumerate(out_axes):
      items = [per[i][k] for i in range(n)]
      if ax is None:
        outs.append(items[0])
        continue
      if any(is_sym(t) for t in items):
        items = [self.lift(t) for t in items]
        o = np.empty((n,) + items[0].shape, dtype=object)
        for i, t in enumerate(items):
          o[i] = t
        outs.append(np.moveaxis(o, 0, ax))
      else:
        outs.append(np.moveaxis(np.stack([np.asarray(t) for t in items]), 0, ax))
    return outs

  def shard_map(self, eqn, ins):
    """shard_map over a one-axis mesh without collectives (this is how jax.pmap traces): the body is evaluated once per shard on its block"""
    P = eqn.params
    mesh = P['mesh']
    if len(mesh.axis_names) != 1:
      raise Unsupported('shard_map over a multi-axis mesh')
    name, n = mesh.axis_names[0], int(mesh.devices.size)
    body = P['jaxpr']
    for e in body.eqns:
      if e.primitive.name in ('psum', 'all_gather', 'pmax', 'pmin', 'ppermute', 'axis_index', 'all_to_all', 'psum2', 'pbroadcast'):
        raise Unsupported('collective %s inside shard_map' % e.primitive.name)

    def dim_of(spec):
      for d_, part in enumerate(spec):
        if part == name or (isinstance(part, tuple) and name in part):
          return d_
      return None
    per = []
    for i in range(n):
      args = []
      for x, spec in zip(ins, P['in_specs']):
        d_ = dim_of(spec)
        if d_ is None:
          args.append(x)
          continue
        x_ = x if is_sym(x) else np.asarray(x)
        blk = x_.shape[d_] // n
        sl = [slice(None)] * x_.ndim
        sl[d_] = slice(i * blk, (i + 1) * blk)
        args.append(x_[tuple(sl)])
      per.append(self.eval(body, [], *args))
    outs = []
    for k, spec in enumerate(P['out_specs']):
      d_ = dim_of(spec)
      items = [per[i][k] for i in range(n)]
      if d_ is None:
        outs.append(items[0])
      elif any(is_sym(t) for t in items):
        outs.append(np.concatenate([self.lift(t) for t in items], axis=d_))
      else:
        outs.append(np.concatenate([np.asarray(t) for t in items], axis=d_))
    return outs

  # -- cuts ---------------------------------------------------------------------------------------
  def opaque(self, eqn, ins):
    P = eqn.params
    name = P['name']
    h = self.cuts.get(name)
    if h is not None:
      outs = h(self, P, ins)
    else:
      outs = self.fresh_outputs(P)
    self.calls.append((name, tuple(P['batch']), ins, outs))
    return outs

  def fresh_outputs(self, P, tag=None):
    A = self.alg
    k = len(self.calls)
    outs = []
    for i, (sh, dt) in enumerate(zip(P['out_shapes'], P['out_dtypes'])):
      shape = tuple(P['batch']) + tuple(sh)
      nm = '%s!%d!o%d' % (tag or P['name'], k, i)
      kind = _kind(dt)
      if A.name == 'smt':
        outs.append(wrap(A.arr(nm, shape, {'f': 'R', 'i': 'I', 'b': 'B'}[kind])))
      elif A.name == 'ring':
        outs.append(wrap(A.arr(nm, shape)))
      elif hasattr(A, 'fresh_array'):
        outs.append(wrap(A.fresh_array(nm, shape, kind, P)))
      else:
        raise Unsupported('opaque call %s without a handler in algebra %s' % (P['name'], A.name))
    return outs

  def random(self, eqn, ins):
    raise Unsupported('PRNG primitive %s on symbolic operands (cut jax.random.* instead)' % eqn.primitive.name)


def _is_boolish(A, x):
  try:
    import z3
    return isinstance(x, z3.ExprRef) and z3.is_bool(x)
  except Exception:
    return False


# ---------------------------------------------------------------------------------------------------
def trace(fn, *example_args, **kw):
  """jaxpr of the real function for arguments of these shapes (pytrees allowed)."""
  return jax.make_jaxpr(fn, **kw)(*example_args)


def dce(closed, used_outputs):
  from jax._src.interpreters import partial_eval as pe
  jaxpr, used_in = pe.dce_jaxpr(closed.jaxpr, list(used_outputs))
  return jaxpr, closed.consts, used_in


def run_flat(interp, closed, flat_args):
  return interp.eval(closed.jaxpr, closed.consts, *flat_args)


def self_validate(fn, flat_example, k=3, seed=0, cuts=None, rtol=1e-9, atol=1e-9, sampler=None):
  """Interpret the jaxpr of `fn` (flat positional array args) with the float algebra on k random
  inputs and compare with JAX's own execution.  Returns (ok, detail)."""
  from .alg import FloatAlg
  rng = np.random.RandomState(seed)
  closed = jax.make_jaxpr(fn)(*flat_example)
  for t in range(k):
    args = []
    for a in flat_example:
      a = np.asarray(a)
      if sampler is not None:
        args.append(sampler(rng, a))
      elif a.dtype.kind == 'f':
        args.append(rng.uniform(-1, 1, a.shape))
      else:
        args.append(a)
    want = fn(*[jnp.asarray(a) for a in args])
    want = jax.tree_util.tree_leaves(want)
    I = Interp(FloatAlg(), cuts=cuts)
    sym_args = []
    for a in args:
      if np.asarray(a).dtype.kind == 'f':
        o = np.empty(np.shape(a), dtype=object)
        for idx in np.ndindex(*np.shape(a)):
          o[idx] = float(np.asarray(a)[idx])
        sym_args.append(o)
      else:
        sym_args.append(a)
    got = I.eval(closed.jaxpr, closed.consts, *sym_args)
    for g, w in zip(got, want):
      g = np.asarray(g if not is_sym(g) else g.astype(float), dtype=float) if not (hasattr(g, 'dtype') and cj.is_key_dtype(g.dtype)) else None
      if g is None:
        continue
      w = np.asarray(w, dtype=float)
      if not np.allclose(g, w, rtol=rtol, atol=atol, equal_nan=True):
        return False, 'sample %d: interpreter %r vs jax %r' % (t, g, w)
  return True, '%d samples agree' % k
