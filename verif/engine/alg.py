"""Scalar algebras for the jaxpr interpreter (Engine J).

A scalar is either *concrete* (python bool / int / Fraction / float) or an element of the algebra
(z3 term, Poly, sympy expr, ...).  Every algebra gets the same concrete fast paths from `Alg`, so
index arithmetic, masks and constants never reach a solver.

  Z3Alg    -> back end SMT   (z3 terms; side conditions and assumptions collected on the algebra)
  RingAlg  -> back end RING  (sparse polynomials over Q, normal form modulo sphere relations)
  FloatAlg -> self-validation of the interpreter against JAX's own execution
  SymAlg   -> back end SYM   (sympy expressions, transcendental identities)
"""
from __future__ import annotations
import math
from fractions import Fraction
import numpy as np

INF = float('inf')


class Unsupported(Exception):
  """The obligation cannot be decided by this engine/back end (verdict: undecided)."""


def isc(a):
  return isinstance(a, (bool, int, float, Fraction))


def isinf(a):
  return isinstance(a, float) and (a == INF or a == -INF)


def obj0(x):
  a = np.empty((), dtype=object)
  a[()] = x
  return a


def is_sym(a):
  return isinstance(a, np.ndarray) and a.dtype == object


# ------------------------------------------------------------------------------------------------
class Alg:
  name = 'base'
  exact = True          # floats are turned into exact rationals

  # -- constants --------------------------------------------------------------------------------
  def const(self, v, kind=None):
    """python/numpy scalar -> concrete scalar of this algebra."""
    if isinstance(v, np.generic):
      v = v.item()
    if isinstance(v, bool) or isinstance(v, int):
      if kind == 'f':
        return Fraction(v) if self.exact else float(v)
      return v
    if isinstance(v, float):
      if v != v:
        raise Unsupported('NaN constant')
      if v in (INF, -INF):
        return v
      return Fraction(v) if self.exact else v
    if isinstance(v, Fraction):
      return v
    if isinstance(v, complex):
      raise Unsupported('complex constant')
    return v

  # -- arithmetic with concrete shortcuts --------------------------------------------------------
  def add(self, a, b):
    ca, cb = isc(a), isc(b)
    if ca and cb:
      return a + b
    if ca and a == 0:
      return b
    if cb and b == 0:
      return a
    if (ca and isinf(a)) or (cb and isinf(b)):
      raise Unsupported('arithmetic on a non-finite constant')
    return self._add(a, b)

  def sub(self, a, b):
    ca, cb = isc(a), isc(b)
    if ca and cb:
      return a - b
    if cb and b == 0:
      return a
    if ca and a == 0:
      return self.neg(b)
    if (ca and isinf(a)) or (cb and isinf(b)):
      raise Unsupported('arithmetic on a non-finite constant')
    return self._sub(a, b)

  def mul(self, a, b):
    ca, cb = isc(a), isc(b)
    if ca and cb:
      if isinstance(a, bool) and isinstance(b, bool):
        return a and b
      return a * b
    if ca:
      if a == 0:
        return a * 0 if not isinstance(a, bool) else 0
      if a == 1:
        return b
      if isinf(a):
        raise Unsupported('arithmetic on a non-finite constant')
    if cb:
      if b == 0:
        return b * 0 if not isinstance(b, bool) else 0
      if b == 1:
        return a
      if isinf(b):
        raise Unsupported('arithmetic on a non-finite constant')
    return self._mul(a, b)

  def neg(self, a):
    if isc(a):
      return -a
    return self._neg(a)

  def div(self, a, b):
    ca, cb = isc(a), isc(b)
    if cb:
      if b == 0:
        raise Unsupported('division by the constant 0')
      if isinf(b):
        if ca and not isinf(a):
          return a * 0
        raise Unsupported('division by a non-finite constant')
      if ca:
        if isinstance(a, int) and isinstance(b, int) and not self.exact:
          return a / b
        if isinstance(a, (int, bool)) and isinstance(b, (int, bool)):
          return Fraction(a, b)
        return a / b
      if b == 1:
        return a
      inv = (1 / Fraction(b)) if self.exact else 1.0 / b
      return self._mul(inv, a)
    if ca and a == 0:
      self.side_nonzero(b, 'div')
      return a
    return self._div(a, b)

  def ipow(self, a, y):
    if isc(a):
      if y >= 0:
        return a ** y
      if a == 0:
        raise Unsupported('0 ** negative')
      return (Fraction(1) / a ** (-y)) if self.exact else 1.0 / a ** (-y)
    r = a
    for _ in range(abs(y) - 1):
      r = self.mul(r, a)
    if y == 0:
      return 1
    return r if y > 0 else self.div(1, r)

  def sqrt(self, a):
    if isc(a):
      if a < 0:
        raise Unsupported('sqrt of a negative constant')
      if isinstance(a, Fraction) or isinstance(a, int):
        f = Fraction(a)
        n, d = math.isqrt(f.numerator), math.isqrt(f.denominator)
        if n * n == f.numerator and d * d == f.denominator:
          return Fraction(n, d)
        if self.exact:
          return self._sqrt(a)
      return math.sqrt(a)
    return self._sqrt(a)

  def rsqrt(self, a):
    return self.div(1, self.sqrt(a))

  def abs(self, a):
    if isc(a):
      return abs(a)
    return self._abs(a)

  def sign(self, a):
    if isc(a):
      return (a > 0) - (a < 0) if isinstance(a, int) else type(a)((a > 0) - (a < 0))
    return self._sign(a)

  def max(self, a, b):
    ca, cb = isc(a), isc(b)
    if ca and cb:
      return a if a >= b else b
    if ca and isinf(a):
      return b if a < 0 else a
    if cb and isinf(b):
      return a if b < 0 else b
    return self._max(a, b)

  def min(self, a, b):
    ca, cb = isc(a), isc(b)
    if ca and cb:
      return a if a <= b else b
    if ca and isinf(a):
      return b if a > 0 else a
    if cb and isinf(b):
      return a if b > 0 else b
    return self._min(a, b)

  # -- comparisons ---------------------------------------------------------------------------------
  def cmp(self, op, a, b):
    ca, cb = isc(a), isc(b)
    if ca and cb:
      return {'lt': a < b, 'le': a <= b, 'gt': a > b, 'ge': a >= b, 'eq': a == b, 'ne': a != b}[op]
    if ca and isinf(a):
      pos = a > 0
      return {'lt': not pos, 'le': not pos, 'gt': pos, 'ge': pos, 'eq': False, 'ne': True}[op]
    if cb and isinf(b):
      pos = b > 0
      return {'lt': pos, 'le': pos, 'gt': not pos, 'ge': not pos, 'eq': False, 'ne': True}[op]
    return self._cmp(op, a, b)

  def and_(self, a, b):
    if isc(a):
      return b if a else False
    if isc(b):
      return a if b else False
    return self._and(a, b)

  def or_(self, a, b):
    if isc(a):
      return True if a else b
    if isc(b):
      return True if b else a
    return self._or(a, b)

  def not_(self, a):
    if isc(a):
      return not a
    return self._not(a)

  def ite(self, c, a, b):
    """a if c else b"""
    if isc(c):
      return a if c else b
    if a is b:
      return a
    if isc(a) and isc(b) and type(a) is type(b) and a == b:
      return a
    return self._ite(c, a, b)

  # -- conversions -----------------------------------------------------------------------------
  def to_float(self, a):      # int/bool -> real
    if isc(a):
      if isinstance(a, (bool, int)):
        return Fraction(int(a)) if self.exact else float(a)
      return a
    return self._to_float(a)

  def to_int(self, a, from_kind):          # bool -> int, float -> int (truncation)
    if isc(a):
      if isinstance(a, bool):
        return int(a)
      if isinstance(a, int):
        return a
      return int(a)           # python truncates toward zero, as XLA does
    return self._to_int(a, from_kind)

  def to_bool(self, a):
    if isc(a):
      return a != 0
    return self._to_bool(a)

  # -- transcendental ------------------------------------------------------------------------------
  _MATH = {'exp': math.exp, 'log': math.log, 'tanh': math.tanh, 'log1p': math.log1p,
           'atan2': math.atan2, 'acos': math.acos, 'asin': math.asin, 'sin': math.sin,
           'cos': math.cos, 'expm1': math.expm1, 'atan': math.atan, 'sinh': math.sinh,
           'cosh': math.cosh, 'tan': math.tan, 'erf': math.erf,
           'logistic': lambda x: 1 / (1 + math.exp(-x)), 'pow': math.pow,
           'floor': math.floor, 'ceil': math.ceil, 'round': round, 'exp2': lambda x: 2.0 ** x}

  def fn(self, name, *args):
    if all(isc(a) for a in args):
      if name in ('sin', 'cos', 'tanh', 'atan2', 'asin', 'atan', 'sinh', 'expm1', 'log1p', 'tan') \
         and all(a == 0 for a in args) and self.exact:
        return Fraction(1) if name == 'cos' else Fraction(0)
      if name == 'exp' and args[0] == 0 and self.exact:
        return Fraction(1)
      if name == 'log' and args[0] == 1 and self.exact:
        return Fraction(0)
      if name in ('floor', 'ceil', 'round') and self.exact:
        v = self._MATH[name](args[0])
        return Fraction(v)
      try:
        v = self._MATH[name](*[float(a) for a in args])
      except (ValueError, OverflowError) as e:
        raise Unsupported('%s%r: %s' % (name, args, e))
      if self.exact:
        return self._inexact_const(name, args, v)
      return v
    return self._fn(name, *args)

  def _inexact_const(self, name, args, v):
    # a transcendental function of a constant: keep it symbolic in exact algebras
    return self._fn(name, *args)

  # -- side conditions (definedness) ---------------------------------------------------------------
  def side_nonzero(self, b, what):
    pass

  # -- hooks to implement ---------------------------------------------------------------------------
  def _unsup(self, *a):
    raise Unsupported('%s algebra: operation not available' % self.name)
  _add = _sub = _mul = _neg = _div = _sqrt = _abs = _sign = _max = _min = _cmp = _and = _or = _not = \
      _ite = _to_float = _to_int = _to_bool = _fn = _unsup


# ------------------------------------------------------------------------------------------------
class FloatAlg(Alg):
  """Everything is concrete python floats: the interpreter is then a (slow) re-implementation of
  JAX's evaluation, used to validate the interpreter against JAX on the very jaxpr under proof."""
  name = 'float'
  exact = False

  def var(self, name, value):
    return float(value)

  def _sqrt(self, a):
    return math.sqrt(a)


# ------------------------------------------------------------------------------------------------
import z3  # noqa: E402


def _zr(v):
  if isinstance(v, bool):
    return z3.BoolVal(v)
  if isinstance(v, int):
    return z3.IntVal(v)
  if isinstance(v, Fraction):
    return z3.RealVal(str(v))
  if isinstance(v, float):
    if isinf(v):
      raise Unsupported('non-finite constant in a term')
    return z3.RealVal(str(Fraction(v)))
  return v


class Z3Alg(Alg):
  name = 'smt'

  def __init__(self, abstract_minmax=False):
    self.assume = []        # facts introduced by the encoding (sqrt, trig pairs, cut postconditions)
    self.assume_raw = []    # redundant copies of sqrt facts over unsimplified radicands
    self.side = []          # (kind, condition) definedness side conditions
    self.n = 0
    self.trig = {}
    self.ufs = {}
    self.abstract_minmax = abstract_minmax
    self.sqrt_cache = {}
    self.vars = {}

  # variables
  def var(self, name, kind='R'):
    v = {'R': z3.Real, 'I': z3.Int, 'B': z3.Bool}[kind](name)
    self.vars[name] = v
    return v

  def fresh(self, prefix, kind='R'):
    self.n += 1
    return self.var('%s!%d' % (prefix, self.n), kind)

  def arr(self, name, shape, kind='R'):
    a = np.empty(shape, dtype=object)
    for idx in np.ndindex(*shape):
      a[idx] = self.var(name + ''.join('_%d' % i for i in idx), kind)
    return a

  def _pair(self, a, b):
    a, b = _zr(a), _zr(b)
    if z3.is_int(a) and z3.is_real(b):
      a = z3.ToReal(a)
    elif z3.is_real(a) and z3.is_int(b):
      b = z3.ToReal(b)
    return a, b

  def _add(self, a, b):
    a, b = self._pair(a, b)
    return a + b

  def _sub(self, a, b):
    a, b = self._pair(a, b)
    return a - b

  def _mul(self, a, b):
    a, b = self._pair(a, b)
    if z3.is_bool(a) and z3.is_bool(b):
      return z3.And(a, b)
    return a * b

  def _neg(self, a):
    return -a

  def side_nonzero(self, b, what):
    self.side.append((what + '-nonzero', _zr(b) != 0))

  def _div(self, a, b):
    a, b = self._pair(a, b)
    if z3.is_int(a) and z3.is_int(b):
      raise Unsupported('symbolic integer division')
    self.side.append(('div-nonzero', b != 0))
    return a / b

  def _sqrt(self, a):
    a = _zr(a)
    if z3.is_int(a):
      a = z3.ToReal(a)
    a0 = a
    a = z3.simplify(a)
    k = a.get_id()
    if k not in self.sqrt_cache:
      s = self.fresh('sqrt')
      self.assume += [s >= 0, s * s == a]
      self.assume_raw += [s * s == a0]     # same fact over the unsimplified radicand (shares subterms with the program; used by the abstraction pre-pass)
      self.side.append(('sqrt-nonneg', a >= 0))
      self.sqrt_cache[k] = (a, s)
    return self.sqrt_cache[k][1]

  def _abs(self, a):
    if self.abstract_minmax:
      return self.uf('ABS', a)
    return z3.If(a >= 0, a, -a)

  def _sign(self, a):
    one = z3.RealVal(1) if z3.is_real(a) else z3.IntVal(1)
    return z3.If(a > 0, one, z3.If(a < 0, -one, one - one))

  def _comm(self, name, a, b):
    # commutative uninterpreted function: canonical argument order
    if a.get_id() > b.get_id():
      a, b = b, a
    return self.uf(name, a, b)

  def _max(self, a, b):
    a, b = self._pair(a, b)
    if self.abstract_minmax:
      return self._comm('MAX', a, b)
    return z3.If(a >= b, a, b)

  def _min(self, a, b):
    a, b = self._pair(a, b)
    if self.abstract_minmax:
      return self._comm('MIN', a, b)
    return z3.If(a <= b, a, b)

  def _cmp(self, op, a, b):
    a, b = self._pair(a, b)
    if z3.is_bool(a):
      if op == 'eq':
        return a == b
      if op == 'ne':
        return z3.Xor(a, b)
      raise Unsupported('ordering on booleans')
    return {'lt': a < b, 'le': a <= b, 'gt': a > b, 'ge': a >= b, 'eq': a == b, 'ne': a != b}[op]

  def _and(self, a, b):
    return z3.And(_zr(a), _zr(b))

  def _or(self, a, b):
    return z3.Or(_zr(a), _zr(b))

  def _not(self, a):
    return z3.Not(a)

  def _ite(self, c, a, b):
    a, b = self._pair(a, b)
    return z3.If(c, a, b)

  def _to_float(self, a):
    if z3.is_bool(a):
      return z3.If(a, z3.RealVal(1), z3.RealVal(0))
    if z3.is_int(a):
      return z3.ToReal(a)
    return a

  def _to_int(self, a, from_kind):
    if z3.is_bool(a):
      return z3.If(a, z3.IntVal(1), z3.IntVal(0))
    if z3.is_int(a):
      return a
    # truncation toward zero
    return z3.If(a >= 0, z3.ToInt(a), -z3.ToInt(-a))

  def _to_bool(self, a):
    if z3.is_bool(a):
      return a
    return a != 0

  def rem(self, a, b):
    """lax.rem on integers: C remainder (sign of the dividend)"""
    a, b = _zr(a), _zr(b)
    if not (z3.is_int(a) and z3.is_int(b)):
      raise Unsupported('symbolic rem on reals')
    self.side.append(('rem-nonzero', b != 0))
    ab = z3.If(b >= 0, b, -b)
    m = a % b                       # z3: 0 <= m < |b|
    return z3.If(z3.And(a < 0, m != 0), m - ab, m)

  def idiv(self, a, b):
    """lax.div on integers: truncation toward zero"""
    a, b = _zr(a), _zr(b)
    self.side.append(('div-nonzero', b != 0))
    q = a / b                       # z3 integer division (floor for b > 0, ceil for b < 0: Euclidean)
    r = a - q * b
    return z3.If(z3.And(a < 0, r != 0), z3.If(b > 0, q + 1, q - 1), q)

  def uf(self, name, *args):
    args = [_zr(a) for a in args]
    args = [z3.ToReal(a) if z3.is_int(a) else a for a in args]
    key = (name, len(args))
    if key not in self.ufs:
      self.ufs[key] = z3.Function(name, *([z3.RealSort()] * (len(args) + 1)))
    return self.ufs[key](*args)

  def trig_pair(self, a):
    a = z3.simplify(_zr(a))
    k = a.get_id()
    if k not in self.trig:
      # sin/cos as uninterpreted FUNCTIONS of the argument (so equal arguments give equal values across runs) plus the
      # Pythagorean identity instantiated at every argument that occurs: a sound abstraction of the real functions
      c, s = self.uf('cos', a), self.uf('sin', a)
      self.assume.append(c * c + s * s == 1)
      self.trig[k] = (a, c, s)
    return self.trig[k][1:]

  def _fn(self, name, *args):
    if name == 'cos':
      return self.trig_pair(args[0])[0]
    if name == 'sin':
      return self.trig_pair(args[0])[1]
    return self.uf(name, *args)


# ------------------------------------------------------------------------------------------------
BITS = 6
MASK = (1 << BITS) - 1


class Poly:
  """Sparse polynomial over Q.  Monomials are ints packing one BITS-wide exponent per variable, so
  a monomial product is an integer addition.  `deg` is an upper bound of the total degree and is
  what guarantees that no exponent field overflows."""
  __slots__ = ('t', 'deg', 'R')

  def __init__(self, R, t, deg):
    self.R, self.t, self.deg = R, t, deg

  def __len__(self):
    return len(self.t)

  def is_zero(self):
    return not self.t

  def const_value(self):
    if not self.t:
      return 0
    if len(self.t) == 1 and 0 in self.t:
      return self.t[0]
    return None

  def __eq__(self, o):
    if isinstance(o, Poly):
      return self.t == o.t
    if isc(o):
      return self.t == ({0: o} if o != 0 else {})
    return NotImplemented

  def __hash__(self):
    return hash(frozenset(self.t.items()))

  def __repr__(self):
    return self.R.show(self)


class RBool:
  """an undecided predicate over polynomials in the ring algebra; becomes a truth value only through a
  contract-supplied branch hint"""
  __slots__ = ('key', 'text', 'op', 'kids')

  def __init__(self, key, text, op=None, kids=()):
    self.key, self.text, self.op, self.kids = key, text, op, tuple(kids)


class Ratio:
  """num/den with den a non-constant polynomial that the contract must show non-zero (recorded in
  RingAlg.den_side).  No gcd cancellation; equality is decided by cross-multiplication."""
  __slots__ = ('num', 'den')

  def __init__(self, num, den):
    self.num, self.den = num, den


def _norm(c):
  if type(c) is Fraction and c.denominator == 1:
    return c.numerator
  return c


class RAbs:
  """|p| for a non-constant polynomial p (ring algebra): supports comparison with constants only"""
  __slots__ = ('p',)

  def __init__(self, p):
    self.p = p


class RingAlg(Alg):
  """Q[x1..xn] modulo sphere relations  v^2 = rhs(other variables).  With `eager` the relations are
  applied after every product, so every value is in normal form and equality is structural."""
  name = 'ring'

  def __init__(self, eager=True, max_terms=400000):
    self.names = []
    self.index = {}
    self.rel = {}           # var index -> replacement Poly for v^2
    self.eager = eager
    self.max_terms = max_terms
    self.hints = []         # (description, discharged-by) branch hints used
    self.inverses = {}      # Poly (frozen) -> reciprocal generator
    self.trig = {}
    self.peak = 0
    self.nonzero = []       # polynomials declared non-zero by the contract (reciprocal generators)
    self.sqrt_decl = {}     # frozenset(items) -> generator with g^2 = p (declared by contract)
    self.allow_ratio = True # quotients by non-constant polynomials become Ratio; den_side lists the denominators
    self.den_side = []      # denominators that must be non-zero under the contract's precondition
    self.sqrt_side = []     # radicands that must be >= 0
    self.cmp_hints = {}     # (frozenset(poly terms), op) -> (truth, reason): branch hints from the contract
    self.hints_used = []

  # variables
  def var(self, name):
    if name in self.index:
      i = self.index[name]
    else:
      i = len(self.names)
      self.names.append(name)
      self.index[name] = i
    return Poly(self, {1 << (BITS * i): 1}, 1)

  def arr(self, name, shape):
    a = np.empty(shape, dtype=object)
    for idx in np.ndindex(*shape):
      a[idx] = self.var(name + ''.join('_%d' % i for i in idx))
    return a

  def P(self, c):
    if isinstance(c, Poly):
      return c
    if isinstance(c, RAbs):
      raise Unsupported('arithmetic on |p| of a non-constant polynomial (only comparisons of |p| with a constant are decided, from the hints on p)')
    if isinstance(c, bool):
      c = int(c)
    if isinstance(c, float):
      if isinf(c):
        raise Unsupported('non-finite constant in a polynomial')
      c = Fraction(c)
    c = _norm(c)
    return Poly(self, {0: c} if c != 0 else {}, 0)

  def unit(self, vs):
    """declare sum(v^2) = 1; the last variable's square is rewritten."""
    vs = list(vs)
    lead = vs[-1]
    (m, c), = lead.t.items()
    i = (m.bit_length() - 1) // BITS
    rhs = self.P(1)
    for v in vs[:-1]:
      rhs = self._sub(rhs, self._mul_raw(v, v))
    self.rel[i] = rhs
    # a consequence of the relation itself: not all components vanish (decides `all(v == 0)` / `any(v != 0)` guards on unit vectors)
    try:
      self.hint_or([(v, 'ne', 0) for v in vs], True, 'a unit vector has a non-zero component (from the declared relation sum v^2 = 1)')
    except Exception:      # noqa: BLE001
      pass

  def relation(self, lead_var, rhs):
    (m, c), = lead_var.t.items()
    self.rel[(m.bit_length() - 1) // BITS] = self.P(rhs)

  # raw arithmetic
  def _split(self, a):
    if isinstance(a, Ratio):
      return a.num, a.den
    return self.P(a), None

  def _mk(self, n, d):
    if d is None:
      return n
    if n.is_zero():
      return n
    return Ratio(n, d)

  def _add(self, a, b):
    if isinstance(a, Ratio) or isinstance(b, Ratio):
      (an, ad), (bn, bd) = self._split(a), self._split(b)
      if ad is None:
        return self._mk(self._add(self._mul(an, bd), bn), bd)
      if bd is None:
        return self._mk(self._add(an, self._mul(bn, ad)), ad)
      if ad.t == bd.t:
        return self._mk(self._add(an, bn), ad)
      return self._mk(self._add(self._mul(an, bd), self._mul(bn, ad)), self._mul(ad, bd))
    a, b = self.P(a), self.P(b)
    if len(a.t) < len(b.t):
      a, b = b, a
    t = dict(a.t)
    for m, c in b.t.items():
      v = t.get(m)
      if v is None:
        t[m] = c
      else:
        v = v + c
        if v == 0:
          del t[m]
        else:
          t[m] = _norm(v)
    return Poly(self, t, a.deg if a.deg > b.deg else b.deg)

  def _neg(self, a):
    if isinstance(a, Ratio):
      return Ratio(self._neg(a.num), a.den)
    return Poly(self, {m: -c for m, c in a.t.items()}, a.deg)

  def _sub(self, a, b):
    return self._add(a, self._neg(b if isinstance(b, Ratio) else self.P(b)))

  def _mul_raw(self, a, b):
    a, b = self.P(a), self.P(b)
    deg = a.deg + b.deg
    if deg > MASK:
      raise Unsupported('polynomial degree bound exceeds %d' % MASK)
    if len(a.t) < len(b.t):
      a, b = b, a
    t = {}
    get = t.get
    for m2, c2 in b.t.items():
      for m1, c1 in a.t.items():
        m = m1 + m2
        v = get(m)
        if v is None:
          t[m] = c1 * c2
        else:
          t[m] = v + c1 * c2
    t = {m: _norm(c) for m, c in t.items() if c != 0}
    if len(t) > self.peak:
      self.peak = len(t)
      if self.peak > self.max_terms:
        raise Unsupported('polynomial swell: %d terms' % self.peak)
    return Poly(self, t, deg)

  def reduce(self, p):
    if not self.rel or not isinstance(p, Poly):
      return p
    for i, rhs in reversed(list(self.rel.items())):      # newest first: a newer rhs may mention older lead variables
      sh = BITS * i
      hi = None
      lo = {}
      for m, c in p.t.items():
        e = (m >> sh) & MASK
        if e >= 2:
          if hi is None:
            hi = {}
          k = e // 2
          hi.setdefault(k, {})[m - ((2 * k) << sh)] = c
        else:
          lo[m] = c
      if hi is None:
        continue
      acc = Poly(self, lo, p.deg)
      for k, t in hi.items():
        rp = rhs
        for _ in range(k - 1):
          rp = self._mul_raw(rp, rhs)
        acc = self._add(acc, self._mul_raw(Poly(self, t, p.deg), rp))
      # the rewrite can re-introduce squares of earlier lead variables only through rhs, which by
      # construction mentions no lead variable
      p = acc
    # tighten the degree bound
    if p.t:
      d = 0
      for m in p.t:
        s = 0
        while m:
          s += m & MASK
          m >>= BITS
        if s > d:
          d = s
      p = Poly(self, p.t, d)
    else:
      p = Poly(self, p.t, 0)
    return p

  def _mul(self, a, b):
    if isinstance(a, Ratio) or isinstance(b, Ratio):
      (an, ad), (bn, bd) = self._split(a), self._split(b)
      n = self._mul(an, bn)
      d = ad if bd is None else (bd if ad is None else self._mul(ad, bd))
      return self._mk(n, d)
    r = self._mul_raw(a, b)
    return self.reduce(r) if self.eager else r

  def normal(self, p):
    if isinstance(p, Ratio):
      n = self.reduce(p.num)
      return n if n.is_zero() else Ratio(n, self.reduce(p.den))
    p = self.P(p)
    return self.reduce(p)

  def is_zero(self, p):
    return self.normal(p).is_zero()

  # division / sqrt
  def declare_nonzero(self, p, name):
    """contract-declared non-zero polynomial: introduces reciprocal generator i with i*p = 1.
    Relation is used only in the form  (i*p) -> 1  when dividing by exactly p."""
    p = self.normal(p)
    g = self.var(name)
    self.inverses[frozenset(p.t.items())] = g
    return g

  def declare_sqrt(self, p, name):
    """contract-declared s = sqrt(p) (p >= 0 discharged elsewhere): generator with s^2 = p."""
    p = self.normal(p)
    g = self.var(name)
    self.relation(g, p)
    self.sqrt_decl[frozenset(p.t.items())] = g
    return g

  def _div(self, a, b):
    if isinstance(b, Ratio):
      self.den_side.append(b.num)
      return self._mul(a, Ratio(b.den, b.num) if b.num.const_value() is None else self._mul(b.den, self.P(Fraction(1) / b.num.const_value())))
    if isinstance(a, Ratio):
      b = self.normal(b)
      c = b.const_value()
      if c is not None:
        if c == 0:
          raise Unsupported('division by a polynomial that reduces to 0')
        return Ratio(self._mul(a.num, self.P(Fraction(1) / c)), a.den)
      self.den_side.append(b)
      return Ratio(a.num, self._mul(a.den, b))
    b = self.normal(b)
    c = b.const_value()
    if c is not None:
      if c == 0:
        raise Unsupported('division by a polynomial that reduces to 0')
      return self._mul(self.P(Fraction(1) / c), a)
    a = self.normal(a)
    q = self._exact_quotient(a, b)
    if q is not None:
      return q
    g = self.inverses.get(frozenset(b.t.items()))
    if g is not None:
      return self._mul(a, g)
    if self.allow_ratio:
      self.den_side.append(b)
      return self._mk(a, b)
    raise Unsupported('division by a non-constant polynomial without a declared inverse (%d terms)' % len(b))

  def _exact_quotient(self, a, b):
    if a.is_zero():
      return a
    if len(b.t) == 1:
      (mb, cb), = b.t.items()
      t = {}
      for m, c in a.t.items():
        # mb must divide m field by field
        d = m - mb
        if d < 0:
          return None
        x, y = m, mb
        ok = True
        while y:
          if (x & MASK) < (y & MASK):
            ok = False
            break
          x >>= BITS
          y >>= BITS
        if not ok:
          return None
        t[d] = _norm(Fraction(c) / cb)
      return Poly(self, t, a.deg)
    return None

  def _sqrt(self, a):
    a = self.normal(a)
    c = a.const_value()
    if c is not None:
      r = Alg.sqrt(self, Fraction(c))
      if isinstance(r, (Fraction, int)):
        return self.P(r)
      raise Unsupported('sqrt of a non-square constant in the ring')
    if isinstance(a, Ratio):
      raise Unsupported('sqrt of a rational function')
    key = frozenset(a.t.items())
    g = self.sqrt_decl.get(key)
    if g is not None:
      return g
    # s := sqrt(a) is a real number whenever a >= 0 (side condition, recorded); it satisfies s^2 = a.
    # the ring cannot use s >= 0, which only makes fewer things provable.
    g = self.var('sqrt!%d' % len(self.sqrt_decl))
    self.relation(g, a)
    self.sqrt_decl[key] = g
    self.sqrt_side.append(a)
    return g

  def sqrt_hint(self, root, reason):
    """contract-supplied fact  sqrt(root^2) = root  for a polynomial `root` that the contract's precondition makes non-negative (e.g. cos q on |q| < pi/2).
    Sound exactly when root >= 0; the reason is recorded with the hints used."""
    r = self.normal(root)
    a = self.normal(self._mul(r, r))
    self.sqrt_decl[frozenset(a.t.items())] = r
    self.hints_used.append(('sqrt((%s)^2) = %s' % (self.show(r, 4), self.show(r, 4)), True, reason))

  def _abs(self, a):
    a = self.normal(a)
    if isinstance(a, Ratio):
      raise Unsupported('|.| of a rational function')
    return RAbs(a)

  def _cmp(self, op, a, b):
    if isinstance(a, RAbs) or isinstance(b, RAbs):
      # |p| op c  is the conjunction / disjunction of the two one-sided predicates on p (each decided by its own hint)
      if isinstance(b, RAbs):
        a, b = b, a
        op = {'lt': 'gt', 'gt': 'lt', 'le': 'ge', 'ge': 'le', 'eq': 'eq', 'ne': 'ne'}[op]
      if isinstance(b, RAbs):
        raise Unsupported('comparison of two absolute values')
      if op == 'lt':
        return self.and_(self.cmp('lt', self._neg(self.P(b)), a.p), self.cmp('lt', a.p, b))
      if op == 'le':
        return self.and_(self.cmp('le', self._neg(self.P(b)), a.p), self.cmp('le', a.p, b))
      if op == 'gt':
        return self.or_(self.cmp('gt', a.p, b), self.cmp('lt', a.p, self._neg(self.P(b))))
      if op == 'ge':
        return self.or_(self.cmp('ge', a.p, b), self.cmp('le', a.p, self._neg(self.P(b))))
      raise Unsupported('equality with an absolute value')
    d = self.normal(self._sub(a, b))
    if isinstance(d, Ratio):
      if op in ('eq', 'ne'):
        d = d.num
      else:
        raise Unsupported('ordering of rational functions')
    c = d.const_value()
    if c is not None:
      return {'lt': c < 0, 'le': c <= 0, 'gt': c > 0, 'ge': c >= 0, 'eq': c == 0, 'ne': c != 0}[op]
    key = self._ckey(d, op)
    h = self.cmp_hints.get(key)
    if h is not None:
      self.hints_used.append((self.show(d, 4) + ' ' + op + ' 0', h[0], h[1]))
      return h[0]
    return RBool(key, '%s %s 0' % (self.show(d, 4), op))

  def _ckey(self, d, op):
    """canonical key of `d op 0`: the coefficient of the smallest monomial is made positive"""
    m0 = min(d.t)
    if d.t[m0] < 0:
      d = self._neg(d)
      op = {'lt': 'gt', 'gt': 'lt', 'le': 'ge', 'ge': 'le', 'eq': 'eq', 'ne': 'ne'}[op]
    return ('cmp', frozenset(d.t.items()), op)

  def truth(self, rb):
    h = self.cmp_hints.get(rb.key)
    if h is not None:
      self.hints_used.append((rb.text[:80], h[0], h[1]))
      return h[0]
    # composite predicates: decided from the truth of their parts (each part needs its own hint)
    if rb.op == 'and':
      # De Morgan: and_i (a_i op_i 0) is false when the hinted disjunction or_i not(a_i op_i 0) is true
      leaves, stack, ok = [], list(rb.kids), True
      while stack:
        k = stack.pop()
        if k.op == 'and':
          stack.extend(k.kids)
        elif isinstance(k.key, tuple) and k.key and k.key[0] == 'cmp':
          leaves.append(k.key)
        else:
          ok = False
          break
      if ok and leaves:
        neg = {'lt': 'ge', 'ge': 'lt', 'le': 'gt', 'gt': 'le', 'eq': 'ne', 'ne': 'eq'}
        h = self.cmp_hints.get(('or', frozenset(('cmp', kk[1], neg[kk[2]]) for kk in leaves)))
        if h is not None:
          self.hints_used.append((rb.text[:80], not h[0], h[1]))
          return not h[0]
      return all(self.truth(k) for k in rb.kids)
    if rb.op == 'not':
      return not self.truth(rb.kids[0])
    if rb.op == 'or':
      unknown = False
      for k in rb.kids:
        try:
          if self.truth(k):
            return True
        except Unsupported:
          unknown = True
      if not unknown:
        return False
    raise Unsupported('predicate `%s` on non-constant polynomials needs a branch hint' % rb.text[:200])

  def _and(self, a, b):
    return RBool(('and', frozenset([a.key, b.key])), '(%s) & (%s)' % (a.text, b.text), 'and', (a, b))

  def _or(self, a, b):
    ka = a.key[1] if a.key[0] == 'or' else frozenset([a.key])
    kb = b.key[1] if b.key[0] == 'or' else frozenset([b.key])
    return RBool(('or', ka | kb), '(%s) | (%s)' % (a.text, b.text), 'or', (a, b))

  def _not(self, a):
    return RBool(('not', a.key), '!(%s)' % a.text, 'not', (a,))

  def _ite(self, c, a, b):
    return a if self.truth(c) else b

  def _to_int(self, a, from_kind):
    if isinstance(a, RBool):
      return int(self.truth(a))
    raise Unsupported('float->int conversion in the ring algebra')

  def hint_or(self, cmps, truth, reason):
    """truth value of OR_i (a_i op_i b_i)"""
    keys = []
    for a, op, b in cmps:
      d = self.normal(self._sub(a, b))
      keys.append(self._ckey(d, op))
    self.cmp_hints[('or', frozenset(keys))] = (truth, reason)

  def hint(self, a, op, b, truth, reason):
    """contract-supplied value of the predicate `a op b` under the contract's precondition; every
    hint must be justified by a separately discharged obligation or a stated precondition."""
    d = self.normal(self._sub(a, b))
    neg = {'lt': 'ge', 'ge': 'lt', 'le': 'gt', 'gt': 'le', 'eq': 'ne', 'ne': 'eq'}
    self.cmp_hints[self._ckey(d, op)] = (truth, reason)
    self.cmp_hints[self._ckey(d, neg[op])] = (not truth, reason)

  def _to_float(self, a):
    if isinstance(a, RBool):
      return int(self.truth(a))
    return a

  def _to_bool(self, a):
    if isinstance(a, RBool):
      return a
    return self._cmp('ne', a, 0)

  def trig_pair(self, a):
    if isc(a):
      key = ('c', a)
    else:
      a = self.normal(a)
      key = frozenset(a.t.items())
    if key not in self.trig:
      k = len(self.trig)
      s, c = self.var('S!%d' % k), self.var('C!%d' % k)
      self.unit([s, c])          # C^2 -> 1 - S^2
      self.trig[key] = (c, s, a)
    return self.trig[key][:2]

  def _fn(self, name, *args):
    if name == 'cos':
      return self.trig_pair(args[0])[0]
    if name == 'sin':
      return self.trig_pair(args[0])[1]
    raise Unsupported('transcendental %s in the ring algebra' % name)

  # evaluation / printing
  def show(self, p, limit=12):
    out = []
    for m, c in list(p.t.items())[:limit]:
      mon = []
      i = 0
      while m:
        e = m & MASK
        if e:
          mon.append(self.names[i] + ('^%d' % e if e > 1 else ''))
        m >>= BITS
        i += 1
      out.append('%s*%s' % (c, '*'.join(mon)) if mon else str(c))
    s = ' + '.join(out) if out else '0'
    if len(p.t) > limit:
      s += ' + ...(%d terms)' % len(p.t)
    return s

  def evaluate(self, p, env):
    """numeric evaluation with env: name -> number"""
    if isc(p):
      return p
    tot = 0
    for m, c in p.t.items():
      v = c
      i = 0
      while m:
        e = m & MASK
        if e:
          v = v * env[self.names[i]] ** e
        m >>= BITS
        i += 1
      tot = tot + v
    return tot

  def variables(self, p):
    vs = set()
    for m in p.t:
      i = 0
      while m:
        if m & MASK:
          vs.add(self.names[i])
        m >>= BITS
        i += 1
    return vs


# ------------------------------------------------------------------------------------------------
class Dep:
  """a value that may depend on the set of input labels `s` (bitmask)"""
  __slots__ = ('s',)

  def __init__(self, s):
    self.s = s

  def __repr__(self):
    return 'Dep(%s)' % bin(self.s)


class DepAlg(Alg):
  """Back end DEP: may-depend analysis.  Every operation's result depends on the union of its operands'
  labels (conditions of selects included); concrete values depend on nothing.  Sound over-approximation of
  information flow through the jaxpr: label sets only grow."""
  name = 'dep'

  def label(self, bit):
    return Dep(1 << bit)

  def arr(self, shape, bit):
    a = np.empty(shape, dtype=object)
    for idx in np.ndindex(*shape):
      a[idx] = Dep(1 << bit)
    return a

  @staticmethod
  def _u(*xs):
    s = 0
    for x in xs:
      if isinstance(x, Dep):
        s |= x.s
    return Dep(s)

  def add(self, a, b):
    if isc(a) and isc(b):
      return Alg.add(self, a, b)
    return self._u(a, b)
  sub = add

  def mul(self, a, b):
    if isc(a) and isc(b):
      return Alg.mul(self, a, b)
    if (isc(a) and a == 0) or (isc(b) and b == 0):
      return 0
    return self._u(a, b)

  def div(self, a, b):
    if isc(a) and isc(b):
      return Alg.div(self, a, b)
    return self._u(a, b)

  def max(self, a, b):
    if isc(a) and isc(b):
      return Alg.max(self, a, b)
    return self._u(a, b)
  min = max

  def cmp(self, op, a, b):
    if isc(a) and isc(b):
      return Alg.cmp(self, op, a, b)
    return self._u(a, b)

  def and_(self, a, b):
    if isc(a) and isc(b):
      return a and b
    if (isc(a) and not a) or (isc(b) and not b):
      return False
    return self._u(a, b)

  def or_(self, a, b):
    if isc(a) and isc(b):
      return a or b
    return self._u(a, b)

  def ite(self, c, a, b):
    if isc(c):
      return a if c else b
    return self._u(c, a, b)

  def _one(self, a, *rest):
    return self._u(a)
  _neg = _sqrt = _abs = _sign = _not = _to_float = _to_bool = _one

  def _to_int(self, a, k):
    return self._u(a)

  def ipow(self, a, y):
    if isc(a):
      return Alg.ipow(self, a, y)
    return self._u(a)

  def _fn(self, name, *args):
    return self._u(*args)

  def _inexact_const(self, name, args, v):
    return Fraction(v) if v == v and v not in (INF, -INF) else v

  def rem(self, a, b):
    return self._u(a, b)
  idiv = rem

  def fresh_array(self, nm, shape, kind, P):
    raise Unsupported('opaque call in DEP analysis')


# ------------------------------------------------------------------------------------------------
class SymAlg(Alg):
  """Back end SYM: sympy expressions; transcendental functions are sympy's own, so identities between them are
  decided by sympy's normalisers after a case split on signs (symbols are created positive / negative)."""
  name = 'sym'

  def __init__(self):
    import sympy
    self.sp = sympy

  def var(self, name, **assume):
    return self.sp.Symbol(name, real=True, **assume)

  def _s(self, a):
    sp = self.sp
    if isinstance(a, bool):
      return sp.true if a else sp.false
    if isinstance(a, int):
      return sp.Integer(a)
    if isinstance(a, Fraction):
      return sp.Rational(a.numerator, a.denominator)
    if isinstance(a, float):
      if isinf(a):
        return sp.oo if a > 0 else -sp.oo
      f = Fraction(a)
      return sp.Rational(f.numerator, f.denominator)
    return a

  def _add(self, a, b): return self._s(a) + self._s(b)
  def _sub(self, a, b): return self._s(a) - self._s(b)
  def _mul(self, a, b): return self._s(a) * self._s(b)
  def _neg(self, a): return -a
  def _div(self, a, b): return self._s(a) / self._s(b)
  def _sqrt(self, a): return self.sp.sqrt(self._s(a))
  def _abs(self, a): return self.sp.Abs(a)
  def _sign(self, a): return self.sp.sign(a)
  def _max(self, a, b): return self.sp.Max(self._s(a), self._s(b))
  def _min(self, a, b): return self.sp.Min(self._s(a), self._s(b))

  def _cmp(self, op, a, b):
    sp = self.sp
    a, b = self._s(a), self._s(b)
    r = {'lt': sp.Lt, 'le': sp.Le, 'gt': sp.Gt, 'ge': sp.Ge, 'eq': sp.Eq, 'ne': sp.Ne}[op](a, b)
    if r is sp.true:
      return True
    if r is sp.false:
      return False
    return r

  def _and(self, a, b): return self.sp.And(self._s(a), self._s(b))
  def _or(self, a, b): return self.sp.Or(self._s(a), self._s(b))
  def _not(self, a): return self.sp.Not(a)

  def _ite(self, c, a, b):
    return self.sp.Piecewise((self._s(a), c), (self._s(b), True))

  def _to_float(self, a):
    if isinstance(a, self.sp.logic.boolalg.Boolean):
      return self.sp.Piecewise((1, a), (0, True))
    return a

  def _to_bool(self, a):
    return self._cmp('ne', a, 0)

  def _fn(self, name, *args):
    sp = self.sp
    args = [self._s(a) for a in args]
    table = {'exp': sp.exp, 'log': sp.log, 'tanh': sp.tanh, 'log1p': lambda x: sp.log(1 + x), 'sin': sp.sin, 'cos': sp.cos,
             'expm1': lambda x: sp.exp(x) - 1, 'atan2': sp.atan2, 'acos': sp.acos, 'asin': sp.asin, 'atan': sp.atan, 'sinh': sp.sinh, 'cosh': sp.cosh,
             'tan': sp.tan, 'erf': sp.erf, 'logistic': lambda x: 1 / (1 + sp.exp(-x)), 'pow': lambda x, y: x ** y, 'atanh': sp.atanh, 'exp2': lambda x: 2 ** x}
    if name not in table:
      raise Unsupported('SYM: function %s' % name)
    return table[name](*args)

  def _inexact_const(self, name, args, v):
    return self._fn(name, *args)

  def is_zero(self, e, assumptions_note=''):
    """normaliser recipe (DESIGN 7 C20): expand_log of factor(cancel(together(arg))) for every log, then simplify"""
    sp = self.sp
    e = self._s(e)
    if e == 0:
      return True
    e = e.rewrite(sp.exp) if e.has(sp.tanh) else e

    def fix_log(expr):
      return expr.replace(lambda x: isinstance(x, sp.log), lambda x: sp.expand_log(sp.log(sp.factor(sp.cancel(sp.together(x.args[0])))), force=True))
    e2 = sp.simplify(fix_log(sp.simplify(e)))
    if e2 == 0:
      return True
    e3 = sp.simplify(sp.expand_log(sp.logcombine(sp.expand(e2), force=True), force=True))
    return e3 == 0
