"""Engine P: path-exhaustive execution of REAL CPython functions on z3-backed proxy values.

The function object under contract is called as is.  Numeric leaves of its arguments are `SN` proxies;
arithmetic and comparisons build z3 terms, and every `__bool__` consults a decision prefix: the driver
re-executes the function once per feasible path (depth-first).  The result is the complete set of
(path condition, outcome) pairs for loop-free code and loops over concrete-length data."""
from __future__ import annotations
import time
from fractions import Fraction
import numpy as np
import z3


class PathBudget(Exception):
  pass


class ProxyLimit(TypeError):
  """the code under contract did something with a proxy that the proxy cannot represent (index / float conversion):
  a limit of the engine -> undecided, never an outcome of the function"""


class _Ctx:
  def __init__(self, prefix, base):
    self.prefix = list(prefix)
    self.entry = len(prefix)
    self.pos = 0
    self.pc = list(base)
    self.nbase = len(base)


_CUR = None
_STATS = {'solver_calls': 0}


def _feasible(conds):
  s = z3.Solver()
  s.set('timeout', 10000)
  s.add(*conds)
  _STATS['solver_calls'] += 1
  r = s.check()
  if r == z3.unknown:
    raise PathBudget('z3 unknown on a path condition')
  return r == z3.sat


def decide(cond):
  c = _CUR
  if c is None:
    raise RuntimeError('symbolic bool used outside of explore()')
  cond = z3.simplify(cond)
  if z3.is_true(cond):
    return True
  if z3.is_false(cond):
    return False
  if c.pos < len(c.prefix):
    d = c.prefix[c.pos]
  else:
    d = _feasible(c.pc + [cond])
    c.prefix.append(d)
  c.pos += 1
  c.pc.append(cond if d else z3.Not(cond))
  return d


def E(o):
  if isinstance(o, SN):
    return o.e
  if isinstance(o, SB):
    return o.e
  if isinstance(o, bool):
    return z3.BoolVal(o)
  if isinstance(o, (int, np.integer)):
    return z3.IntVal(int(o))
  if isinstance(o, (float, np.floating)):
    return z3.RealVal(str(Fraction(float(o))))
  if isinstance(o, Fraction):
    return z3.RealVal(str(o))
  if isinstance(o, z3.ExprRef):
    return o
  raise TypeError('cannot lift %r' % (o,))


def _pair(a, b):
  a, b = E(a), E(b)
  if z3.is_int(a) and z3.is_real(b):
    a = z3.ToReal(a)
  if z3.is_real(a) and z3.is_int(b):
    b = z3.ToReal(b)
  return a, b


class SB:
  """symbolic bool"""

  def __init__(self, e):
    self.e = e

  def __bool__(self):
    return decide(self.e)

  def __invert__(self):
    return SB(z3.Not(self.e))

  def __and__(self, o):
    return SB(z3.And(self.e, E(o)))
  __rand__ = __and__

  def __or__(self, o):
    return SB(z3.Or(self.e, E(o)))
  __ror__ = __or__

  def __eq__(self, o):
    if isinstance(o, np.ndarray):
      return NotImplemented
    return SB(self.e == E(o))

  def __ne__(self, o):
    if isinstance(o, np.ndarray):
      return NotImplemented
    return SB(self.e != E(o))

  def __hash__(self):
    return hash(self.e)


def _cmp(op):
  def f(self, o):
    if isinstance(o, np.ndarray):
      return NotImplemented
    a, b = _pair(self, o)
    return SB(op(a, b))
  return f


def _ar(op, swap=False):
  def f(self, o):
    if isinstance(o, np.ndarray):
      return NotImplemented
    a, b = _pair(self, o)
    if swap:
      a, b = b, a
    return SN(op(a, b))
  return f


class SN:
  """symbolic number (z3 Int or Real)"""

  def __init__(self, e):
    self.e = e
  __eq__ = _cmp(lambda a, b: a == b)
  __ne__ = _cmp(lambda a, b: a != b)
  __lt__ = _cmp(lambda a, b: a < b)
  __le__ = _cmp(lambda a, b: a <= b)
  __gt__ = _cmp(lambda a, b: a > b)
  __ge__ = _cmp(lambda a, b: a >= b)
  __add__ = _ar(lambda a, b: a + b)
  __radd__ = _ar(lambda a, b: a + b, True)
  __sub__ = _ar(lambda a, b: a - b)
  __rsub__ = _ar(lambda a, b: a - b, True)
  __mul__ = _ar(lambda a, b: a * b)
  __rmul__ = _ar(lambda a, b: a * b, True)

  def __floordiv__(self, o):
    a, b = _pair(self, o)
    if z3.is_int(a) and z3.is_int(b):
      return SN(a / b)          # z3 integer division: floor for positive divisors
    raise TypeError('floordiv on reals')

  def __neg__(self):
    return SN(-self.e)

  def __abs__(self):
    return SN(z3.If(self.e >= 0, self.e, -self.e))

  def __hash__(self):
    return hash(self.e)

  def __bool__(self):
    return decide(self.e != 0)

  def __index__(self):
    raise ProxyLimit('symbolic number used as an index')

  def __float__(self):
    raise ProxyLimit('symbolic number converted to float')

  def __int__(self):
    raise ProxyLimit('symbolic number converted to int')

  def __repr__(self):
    return 'SN(%s)' % self.e


def symarr(name, shape, kind='R'):
  a = np.empty(shape, dtype=object)
  mk = z3.Real if kind == 'R' else z3.Int
  for idx in np.ndindex(*shape):
    a[idx] = SN(mk(name + ''.join('_%d' % i for i in idx)))
  return a


class Path:
  def __init__(self, pc, outcome, value, exc, state=None):
    self.pc, self.outcome, self.value, self.exc, self.state = pc, outcome, value, exc, state


def explore(run, base=(), max_paths=20000, catch=(Exception,)):
  """run() builds fresh proxy arguments and calls the real function; returns its value (or any
  observation).  Exceptions of the types in `catch` are outcomes.  Returns the list of Paths."""
  global _CUR
  paths = []
  stack = [[]]
  base = list(base)
  while stack:
    prefix = stack.pop()
    _CUR = _Ctx(prefix, base)
    cur = _CUR
    try:
      val = run()
      p = Path(cur.pc[cur.nbase:], 'return', val, None)
    except (PathBudget, ProxyLimit):
      _CUR = None
      raise
    except catch as ex:      # noqa: BLE001
      p = Path(cur.pc[cur.nbase:], 'raise', None, ex)
    finally:
      _CUR = None
    paths.append(p)
    if len(paths) > max_paths:
      raise PathBudget('more than %d paths' % max_paths)
    for i in range(cur.entry, len(cur.prefix)):
      alt = cur.prefix[:i] + [not cur.prefix[i]]
      cond = cur.pc[cur.nbase + i]
      if _feasible(base + cur.pc[cur.nbase:cur.nbase + i] + [z3.Not(cond)]):
        stack.append(alt)
  return paths


def valid(assumptions, goal, timeout_s=20):
  """is (assumptions => goal) valid?  returns ('proved'|'refuted'|'undecided', model)"""
  s = z3.Solver()
  s.set('timeout', int(timeout_s * 1000))
  s.add(*assumptions)
  s.add(z3.Not(goal))
  r = s.check()
  if r == z3.unsat:
    return 'proved', None
  if r == z3.sat:
    return 'refuted', s.model()
  return 'undecided', None
