"""vcheck driver: runs the obligations of one property, decides, writes evidence and replays."""
from __future__ import annotations
import argparse
import fnmatch
import importlib
import json
import multiprocessing as mp
import os
import re
import sys
import time

ROOT = os.path.dirname(os.path.dirname(os.path.dirname(os.path.abspath(__file__))))


def _worker_env():
  os.environ.setdefault('JAX_PLATFORMS', 'cpu')
  os.environ.setdefault('XLA_FLAGS', '--xla_force_host_platform_device_count=4 --xla_cpu_multi_thread_eigen=false intra_op_parallelism_threads=1')
  os.environ.setdefault('OMP_NUM_THREADS', '1')
  os.environ.setdefault('OPENBLAS_NUM_THREADS', '1')
  os.environ['BRAX_VERIF'] = '1'
  import contextlib, io
  with contextlib.redirect_stdout(io.StringIO()):      # mjx prints two 'Failed to import warp' lines
    try:
      import mujoco.mjx  # noqa: F401
    except Exception:      # noqa: BLE001
      pass


_CACHE = {}


def _load(prop, tier):
  key = (prop, tier)
  if key not in _CACHE:
    mod = importlib.import_module('verif.contracts.%s' % prop)
    _CACHE[key] = (mod, {o.id: o for o in mod.obligations(tier)})
  return _CACHE[key]


def run_one(task):
  prop, tier, oid, seed = task
  _worker_env()
  import warnings
  warnings.filterwarnings('ignore')
  from verif.engine import oblig
  try:
    mod, obs = _load(prop, tier)
    ob = obs[oid]
    os.environ['VERIF_SEED'] = str(seed)
    r = oblig.execute(ob)
  except Exception as e:      # noqa: BLE001
    import traceback
    r = oblig.Result(oblig.ERROR, 'worker: %s\n%s' % (e, traceback.format_exc()[-1500:]))
  return oid, r.to_json()


def load_known():
  p = os.path.join(ROOT, 'known_findings.json')
  if not os.path.exists(p):
    return []
  return json.load(open(p))


def main(argv=None):
  ap = argparse.ArgumentParser()
  ap.add_argument('prop')
  ap.add_argument('--tier', default=os.environ.get('VERIF_TIER', 'quick'))
  ap.add_argument('--only', default=None, help='fnmatch pattern on obligation ids')
  ap.add_argument('--jobs', type=int, default=int(os.environ.get('VERIF_JOBS', '0')))
  ap.add_argument('--list', action='store_true')
  ap.add_argument('--no-evidence', action='store_true')
  ap.add_argument('-v', '--verbose', action='store_true')
  args = ap.parse_args(argv)
  tier = args.tier if args.tier in ('quick', 'thorough') else 'quick'
  seed = int(os.environ.get('VERIF_SEED', '0') or 0)
  prop = args.prop
  t0 = time.time()
  _worker_env()
  sys.path.insert(0, ROOT)
  from verif.engine import oblig
  try:
    mod = importlib.import_module('verif.contracts.%s' % prop)
    obs = [o for o in mod.obligations(tier) if tier in o.tiers]
  except Exception as e:      # noqa: BLE001
    import traceback
    traceback.print_exc()
    print('ENGINE-ERROR property=%s cannot build obligations: %s' % (prop, e))
    return 3
  if args.only:
    obs = [o for o in obs if fnmatch.fnmatch(o.id, args.only)]
  if args.list:
    for o in obs:
      print('%-60s %-9s %-6s %4ds  %s' % (o.id, o.kind, o.backend, o.budget, o.function))
    return 0
  if not obs:
    print('ENGINE-ERROR property=%s zero obligations generated (vacuous check)' % prop)
    return 3
  declared = getattr(mod, 'EXPECTED_MIN', {}).get(tier, 1)
  jobs = args.jobs or min(14, len(obs), (os.cpu_count() or 4))
  order = sorted(obs, key=lambda o: -o.budget)
  tasks = [(prop, tier, o.id, seed) for o in order]
  results = {}
  ctx = mp.get_context('spawn')
  hard = max(o.budget for o in obs) * 2 + 120 + sum(o.budget for o in obs) / max(1, jobs)
  with ctx.Pool(jobs) as pool:
    pend = [(t[2], pool.apply_async(run_one, (t,))) for t in tasks]
    deadline = time.time() + hard
    for oid, fut in pend:
      try:
        rid, rj = fut.get(timeout=max(1, deadline - time.time()))
        results[rid] = rj
        if args.verbose:
          print('  %-58s %-9s %6.1fs  %s' % (rid, rj['verdict'], rj['stats'].get('wall_s', 0), rj['detail'][:100]), flush=True)
      except mp.TimeoutError:
        results[oid] = oblig.Result(oblig.UNDECIDED, 'hard deadline of the pool reached').to_json()
    pool.terminate()
  return decide(prop, tier, seed, mod, obs, results, time.time() - t0, args, declared)


def _safe(s):
  return re.sub(r'[^A-Za-z0-9_.+-]', '_', s)


def decide(prop, tier, seed, mod, obs, results, wall, args, declared):
  from verif.engine import oblig
  known = [k for k in load_known() if k.get('property') == prop and k.get('status', 'known') == 'known']
  lines = []
  violations = 0
  undecided = []
  errors = []
  known_hit = []
  per = []
  n_req = n_dis = n_att = n_att_ok = n_canary = n_bnd = n_bnd_ok = 0
  bounded_eval = bounded_distinct = 0
  samples = []
  assumptions = set(getattr(mod, 'ASSUMPTIONS', []))
  functions = set()
  solver_s = 0.0
  for o in obs:
    r = results[o.id]
    v = r['verdict']
    functions.add(o.function)
    for a in o.assumes:
      assumptions.add(a)
    solver_s += r['stats'].get('solver_s', 0) or 0
    entry = {'id': o.id, 'function': o.function, 'clause': o.clause, 'backend': o.backend, 'kind': o.kind,
             'verdict': v, 'wall_s': r['stats'].get('wall_s'), 'stats': r['stats'], 'detail': r['detail'][:300]}
    per.append(entry)
    if o.kind == 'canary':
      n_canary += 1
      if v != oblig.REFUTED:
        errors.append('canary %s was not refuted (%s: %s)' % (o.id, v, r['detail'][:200]))
      continue
    if o.kind == 'bounded':
      bounded_eval += int(r['stats'].get('evaluations', 0))
      bounded_distinct += int(r['stats'].get('distinct_nontrivial', 0))
    if o.kind == 'required':
      n_req += 1
    elif o.kind == 'bounded':
      n_bnd += 1
    else:
      n_att += 1
    if v == oblig.PROVED:
      if o.kind == 'required':
        n_dis += 1
      elif o.kind == 'bounded':
        n_bnd_ok += 1          # a bounded stand-in that held: NEVER counted as a discharged proof obligation
      else:
        n_att_ok += 1
      if len(samples) < 4:
        samples.append({'obligation': o.id, 'function': o.function, 'clause': o.clause, 'backend': o.backend,
                        'verdict': v, 'detail': r['detail'][:200], 'stats': r['stats']})
    elif v == oblig.REFUTED:
      hit = None
      for k in known:
        # a finding is identified by the obligation AND, where given, by the failing call site named in the refutation (`detail_contains`): another violation of the same
        # obligation is still reported
        if fnmatch.fnmatch(o.id, k['obligation']) and (not k.get('detail_contains') or k['detail_contains'] in (r.get('detail') or '')):
          hit = k
          break
      if hit is not None:
        known_hit.append((o, hit))
        lines.append('KNOWN-FINDING: property=%s %s [%s]' % (prop, hit['what'], o.id))
      else:
        violations += 1
        d = os.path.join(ROOT, 'replays', prop)
        os.makedirs(d, exist_ok=True)
        path = os.path.join(d, _safe(o.id) + '.json')
        rep = r.get('replay') or {}
        reproduced = bool(rep.get('reproduced'))
        json.dump({'property': prop, 'obligation': o.id, 'function': o.function, 'clause': o.clause,
                   'backend': o.backend, 'verdict': v, 'detail': r['detail'], 'witness': oblig.jsonable(r.get('witness')),
                   'native_replay': oblig.jsonable(rep), 'solver_output': r.get('solver_output', ''),
                   'replay_cmd': './vcheck %s --tier %s --only %s -v' % (prop, tier, o.id)},
                  open(path, 'w'), indent=1)
        lines.append('VIOLATION property=%s replay=%s%s' % (prop, path, '' if reproduced else ' no-failing-input-found'))
    elif v == oblig.UNDECIDED:
      if o.kind in ('required', 'bounded'):
        undecided.append('%s: %s' % (o.id, r['detail'][:200]))
    else:
      errors.append('%s: %s' % (o.id, r['detail'][:1500]))
  if n_req < declared and not args.only:
    errors.append('only %d required obligations generated, contract file declares >= %d' % (n_req, declared))
  # mechanical scan: every cut target named in the contract file(s) of this property, with the status of the callee contract
  import re as _re
  cut_used = set()
  try:
    import inspect
    from verif.contracts import cutlist
    srcs = [inspect.getsource(mod)]
    for extra in ('C09x', 'C14b', 'C14c', 'havoc', 'cuts', 'C04', 'C10', 'C11', 'C02', 'C15') if prop in ('C09', 'C14', 'C15', 'C07', 'C06', 'C08', 'C12', 'C05', 'C02') else ():
      try:
        srcs.append(inspect.getsource(importlib.import_module('verif.contracts.%s' % extra))) if extra != prop and ('%s.' % extra) in srcs[0] + ' ' else None
      except Exception:      # noqa: BLE001
        pass
    text = '\n'.join(x for x in srcs if x)
    for t in cutlist.CUTS:
      if ("'%s'" % t) in text or (t in ('havoc.step', 'havoc.reset') and 'havoc' in text):
        cut_used.add(t)
    cut_report = ['%s -- %s: %s' % (t, cutlist.CUTS[t][0], cutlist.CUTS[t][1]) for t in sorted(cut_used)]
    n_assume = len(_re.findall(r'A\.assume', text))
  except Exception as e:      # noqa: BLE001
    cut_report, n_assume = ['scan failed: %s' % e], -1
  level = getattr(mod, 'LEVEL', 'other')
  cov = {
      'obligations': n_req, 'discharged': n_dis,
      'checker_cmd': './vcheck %s --tier %s' % (prop, tier),
      'trusted_base': sorted(getattr(mod, 'TRUSTED', []) + ['z3 %s' % _z3v(), 'cvc5 1.0.3 (on z3 unknown)', 'jax 0.11.1 tracer (jaxpr = the function at a static configuration)', 'Engine J primitive semantics (self-validated vs JAX on sampled inputs)', 'CPython 3.12, numpy']),
      'samples': samples or [{'note': 'no proved obligation in this run'}],
      'explanation': getattr(mod, 'EXPLANATION', ''),
      'attempted': n_att, 'attempted_proved': n_att_ok, 'canaries_refuted': n_canary,
      'bounded_standins': n_bnd, 'bounded_standins_held': n_bnd_ok,
      'note_on_counts': 'obligations/discharged count PROVED (deductively discharged) required obligations only; bounded stand-ins are counted separately and never as proved',
      'functions_under_contract': sorted(functions),
      'solver_s': round(solver_s, 3),
      'back_ends': sorted({o.backend for o in obs}),
      'known_findings_hit': [{'obligation': o.id, 'what': k['what']} for o, k in known_hit],
      'undecided_required': undecided,
      'per_obligation': per,
      'callee_cuts': cut_report,
      'assume_sites_in_contract_files': n_assume,
  }
  if bounded_eval:
    cov['evaluations'] = bounded_eval
    cov['distinct_nontrivial'] = bounded_distinct
    cov['rule'] = getattr(mod, 'BOUNDED_RULE', 'bounded stand-in evaluations (never counted as proved)')
  for c_ in cut_report:
    if ' -- assumed' in c_:
      assumptions.add('assumed contract of a cut callee: ' + c_)
  ev = {'property_id': prop, 'tier': tier, 'seed': seed, 'level': level, 'coverage': cov,
        'assumptions': sorted(assumptions), 'wall_s': round(wall, 2), 'violations': violations}
  if not args.no_evidence and not args.only:
    os.makedirs(os.path.join(ROOT, 'evidence'), exist_ok=True)
    json.dump(ev, open(os.path.join(ROOT, 'evidence', '%s.json' % prop), 'w'), indent=1)
  for l in lines:
    print(l)
  print('%s tier=%s: %d required obligations, %d discharged; bounded stand-ins %d/%d held; attempted %d/%d; canaries %d; known findings %d; '
        'violations %d; undecided %d; errors %d; %.1fs' % (prop, tier, n_req, n_dis, n_bnd_ok, n_bnd, n_att_ok, n_att, n_canary,
                                                           len(known_hit), violations, len(undecided), len(errors), wall))
  for u in undecided:
    print('UNDECIDED %s' % u)
  for e in errors:
    print('ENGINE-ERROR %s' % e)
  if violations:
    return 1
  if errors:
    return 3
  if undecided:
    return 2
  return 0


def _z3v():
  try:
    import z3
    return z3.get_version_string()
  except Exception:      # noqa: BLE001
    return '?'


if __name__ == '__main__':
  sys.exit(main())
