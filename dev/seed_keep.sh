#!/bin/sh
# dev/seed_keep.sh <ID> <name> <outdir> "<needs>" "<detected-by>"
ID=$1; NAME=$2; OUT=$3; NEEDS=$4; DET=$5
D=/verif/seeded/$ID-$NAME; mkdir -p $D
cp $OUT/patch.diff $OUT/demo.py $D/; [ -f $OUT/notes.md ] && cp $OUT/notes.md $D/
python3 - "$ID" "$NAME" "$NEEDS" "$DET" "$D" <<'PY'
import json, sys
ID, NAME, NEEDS, DET, D = sys.argv[1:]
json.dump({"property": ID, "name": NAME, "source": "independent sub-agent given only the property text and a scratch worktree",
           "needs_to_manifest": NEEDS, "confirmed": "dev/seed_demo.sh: demo.py exits non-zero with the patch and 0 without it (scratch worktree); patch applied to /repo, ./vcheck %s run, patch reverted" % ID,
           "detected_by": DET}, open(D + '/meta.json', 'w'), indent=1)
PY
echo kept $D
