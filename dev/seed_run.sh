#!/bin/sh
# dev/seed_run.sh <ID> [extra vcheck args]: run ./vcheck <ID> against the scratch worktree $WTBASE/<ID> with $WTBASE/<ID>_out/patch.diff applied (never touches /repo)
B=${WTBASE:-/tmp/wt2}; ID=$1; shift
WT=$B/$ID
git -C $WT checkout -q -- . && git -C $WT apply $B/${ID}_out/patch.diff || { echo "APPLY FAILED"; exit 9; }
cd /verif && VERIF_REPO=$WT ./vcheck $ID --tier quick --no-evidence "$@"; rc=$?
echo "seed $ID: vcheck exit=$rc"
