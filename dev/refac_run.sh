#!/bin/sh
# dev/refac_run.sh <ID> <check ids...>: run the given checks against the behaviour-preserving refactoring in /tmp/wt4/<ID> (patch applied); every check must exit 0
B=${RBASE:-/tmp/wt4}; ID=$1; shift; WT=$B/$ID
git -C $WT checkout -q -- . && git -C $WT apply $B/${ID}_out/patch.diff || { echo "APPLY FAILED"; exit 9; }
(cd $WT && [ -z "$SKIP_EQUIV" ] && PYTHONPATH=$WT JAX_PLATFORMS=cpu timeout 1500 /venv/bin/python $B/${ID}_out/equiv.py > $B/${ID}_equiv.log 2>&1; echo "refactor $ID: equiv.py exit=$?")
for C in "$@"; do
  cd /verif && VERIF_REPO=$WT timeout 3000 ./vcheck $C --tier quick --no-evidence > $B/${ID}_$C.log 2>&1; rc=$?
  echo "refactor $ID: check $C exit=$rc  $(grep 'tier=' $B/${ID}_$C.log | sed 's/.*required obligations, //' | cut -c1-110)"
  grep "VIOLATION\|UNDECIDED\|ENGINE" $B/${ID}_$C.log | cut -c1-200
done
