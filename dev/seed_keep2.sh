#!/bin/sh
# dev/seed_keep2.sh <ID> <name> "<needs>" "<detected-by>" : keep /tmp/wt2/<ID>_out as /verif/seeded/<ID>-<name> (round 2)
ID=$1; NAME=$2; NEEDS=$3; DET=$4; OUT=${WTBASE:-/tmp/wt2}/${ID}_out
D=/verif/seeded/$ID-$NAME; mkdir -p $D
cp $OUT/patch.diff $OUT/demo.py $D/; [ -f $OUT/notes.md ] && cp $OUT/notes.md $D/
python3 - "$ID" "$NAME" "$NEEDS" "$DET" "$D" <<'PY'
import json, sys
ID, NAME, NEEDS, DET, D = sys.argv[1:]
json.dump({"property": ID, "name": NAME, "round": 2, "source": "independent sub-agent given only the property text (properties.jsonl entry) and a scratch worktree of /repo; nothing from /verif",
           "needs_to_manifest": NEEDS,
           "confirmed": "dev/seed_demo.sh: demo.py exits non-zero with the patch and 0 without it (scratch worktree /tmp/wt2/%s); the agent ran the test files next to the change with and without it (identical results, see notes.md); dev/seed_run.sh: ./vcheck %s --tier quick with VERIF_REPO pointing at the patched scratch worktree (never applied to /repo)" % (ID, ID),
           "detected_by": DET}, open(D + '/meta.json', 'w'), indent=1)
PY
echo kept $D
