#!/bin/sh
# dev/mut.sh <patch-file> <check args...> : apply patch to /repo, run ./vcheck, revert. Development only.
P="$1"; shift
git -C /repo apply "$P" || { echo "patch failed"; exit 9; }
cd /verif && ./vcheck "$@" --no-evidence; rc=$?
git -C /repo checkout -- . 
echo "exit=$rc"
