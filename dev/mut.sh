#!/bin/sh
# dev/mut.sh <patch-file> <check args...> : apply patch to /repo, run ./vcheck, revert (git apply -R). Development only.
P="$1"; shift
git -C /repo apply "$P" || { echo "patch failed"; exit 9; }
cd /verif && ./vcheck "$@" --no-evidence; rc=$?
git -C /repo apply -R "$P"
echo "exit=$rc"
