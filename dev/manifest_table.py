chk('C09', 'proof',
    'Every listed law of the spatial algebra is a machine-discharged obligation over the jaxprs of the real brax.math / brax.base / brax.com functions, for ALL real inputs (z3 QF_NRA, or exact normal form modulo the unit-sphere relations); stronger than the lattice evaluation in the property text.',
    'floats as exact reals; jnp.linalg.det cut with an assumed contract; atan2/asin inverse axioms for the Euler chart; jax tracer; interpreter primitive semantics self-validated against JAX on sampled inputs',
    'contract-based deductive verification: VC generation from jaxprs of the real functions, discharged by z3 / exact polynomial normal form', '7 C09')
chk('C19', 'proof',
    'compute_gae traced at every (T,B) in the quick/thorough range and proved equal to the explicit defining sum for ALL real inputs (all masks, lambda, discount); the scan body is verified with a symbolic carry (T-generic induction step); the jaxpr of jax.grad through the outputs is identically zero.',
    'floats as exact reals; T in 1..12 and B in {1,2} enumerated, T-generic only through the scan-body rule plus the unfolding lemma; jax tracer and jax.grad trusted',
    'contract-based deductive verification: VC generation from the jaxpr of compute_gae, z3 (polynomial identities), exact normal form for the gradient', '7 C19')
chk('C18', 'proof',
    'The batched Welford update is proved to preserve the invariant (count, mean, summed_variance) = f(ghost sums S0,S1,S2) for ALL data, weights and prior states at each listed batch shape, as an exact rational-function identity; std clipping, normalize/denormalize inverse and integer-leaf passthrough are separate obligations; batching independence and weight = repetition are also proved directly.',
    'floats as exact reals (accumulator round-off not covered); listed batch shapes; population statistics from ghost sums is a paper lemma; pmap_axis_name=None',
    'contract-based deductive verification: inductive invariant over ghost state, exact rational-function normal form + z3', '7 C18')
chk('C17', 'proof',
    'insert_internal is proved against the whole-view FIFO contract with symbolic cursors and contents (z3) for every capacity/batch in range; Queue and UniformSamplingQueue sampling are proved for every cursor position with symbolic contents and arbitrary PRNG output; the real host-side guards are executed path-exhaustively with symbolic capacity/count; the host-counter lemma links them. Histories follow by induction over the representation invariant (paper lemma).',
    'capacity <= 6 (quick <= 4), batch <= 4, record width 1-2; int32 cursors as mathematical integers; jax.random.randint/split assumed contracts; sharded wrappers only by a bounded stand-in (labelled bounded, one shard)',
    'contract-based deductive verification: representation invariant + abstract view, VCs from jaxprs (z3), cursor case split, path-exhaustive execution of the real host methods', '7 C17')
chk('C15', 'proof',
    'Transition contracts of EpisodeWrapper, AutoResetWrapper, EvalWrapper, actor_step and generate_unroll are proved over a havoc environment (arbitrary outputs per member and sub-step) with a SYMBOLIC episode_length, together with the inductive invariant of the wrapped state; this covers every termination pattern and history by induction, beyond the enumerated schedules of the property text.',
    'action_repeat in {1,2,3}, batch in {1,2}; "exactly episode_length" is read with the proviso action_repeat | episode_length (otherwise the first multiple >= L); acting.py definitions are extracted by ast (module import block dropped); Evaluator metric wiring is a concrete check with np.mean/np.std trusted',
    'contract-based deductive verification: transition contracts + inductive invariant over a havoc callee (contract true), VCs from the jaxprs of the real wrappers, z3', '7 C15')
chk('C11', 'proof',
    'actuator.to_tau is proved equal to the reference actuator model for every actuator-to-dof index map with nu <= 3, nv <= 4 (several actuators per dof, unactuated dofs exactly 0, q_id != qd_id) and for ALL real controls, states, gains, gears, biases and (finite or infinite) ranges; monotonicity and saturation are proved relationally on the real code.',
    'proof is over actuator tables; the MJCF->table mapping in load_model is not proved; reference model transcribed from MuJoCo documentation; floats as reals',
    'contract-based deductive verification: VCs from the jaxpr of to_tau per index map, z3 with an abstraction ladder (min/max as commutative UFs, then exact)', '7 C11')
chk('C14', 'other',
    'Hybrid. PROVED: the real validate_model, executed path-exhaustively on a proxy model with symbolic field values over every enumerated structure (njnt<=3, ngeom<=2, nu<=2), rejects each of 16 unsupported-feature predicates wherever the feature sits; the validate_model call dominates every native init (AST); System index helpers are correct for all type strings <= 4 (sampled to 6). BOUNDED stand-in (labelled, not proof): generated MJCF documents through mjcf.loads and the three inits, clean vs one injected feature, and structural agreement of accepted models with MuJoCo.',
    'load_model (MuJoCo compiler, mjx.put_model) is only exercised by the bounded stand-in; structure sizes bounded as stated; feature predicates are my reading of the property text',
    'contract-based deductive verification: path-exhaustive symbolic execution of the real Python validator with z3 path conditions; AST dominance; bounded run-time contract checks', '7 C14')
