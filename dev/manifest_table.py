chk('C09', 'proof',
    'Every listed law of the spatial algebra is a machine-discharged obligation over the jaxprs of the real brax.math / brax.base / brax.com functions, for ALL real inputs (z3 QF_NRA, or exact normal form modulo the unit-sphere relations); stronger than the lattice evaluation in the property text.',
    'floats as exact reals; jnp.linalg.det cut with an assumed contract; atan2/asin inverse axioms for the Euler chart; jax tracer; interpreter primitive semantics self-validated against JAX on sampled inputs',
    'contract-based deductive verification: VC generation from jaxprs of the real functions, discharged by z3 / exact polynomial normal form', '7 C09')
