#!/bin/sh
# dev/seed_demo.sh <ID> [outdir]: confirm in the scratch worktree that demo.py fails with the patch and passes without it
B=${WTBASE:-/tmp/wt2}; ID=$1; OUT=${2:-$B/${ID}_out}; WT=$B/$ID
cd $WT && git checkout -q -- . && git apply $OUT/patch.diff || { echo "APPLY FAILED"; exit 9; }
PYTHONPATH=$WT JAX_PLATFORMS=cpu timeout 1200 /venv/bin/python $OUT/demo.py > $B/${ID}_with.log 2>&1; W=$?
git checkout -q -- .
PYTHONPATH=$WT JAX_PLATFORMS=cpu timeout 1200 /venv/bin/python $OUT/demo.py > $B/${ID}_without.log 2>&1; WO=$?
echo "$ID: with-change exit=$W  without exit=$WO"
