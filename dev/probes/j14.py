import jax, jax.numpy as jnp
jax.config.update('jax_enable_x64', True)
from brax.training import distribution as D
d=D.NormalTanhDistribution(2)
print(jax.make_jaxpr(d.log_prob)(jnp.zeros(4), jnp.zeros(2)))
print(jax.make_jaxpr(d.sample)(jnp.zeros(4), jax.random.PRNGKey(0)))
