import time, z3, numpy as np, jax, jax.numpy as jp, sys as _s
from jx2 import *
from brax import math, base, kinematics
from brax.io import mjcf
xml='''<mujoco><worldbody>
<body name="a" pos="0.1 0.2 0.3" quat="0.5 0.5 0.5 0.5"><joint type="hinge" axis="0 0.6 0.8" pos="0.1 0 0.2"/><geom size="0.1"/>
 <body name="b" pos="0.3 0 0.1" quat="0.5 -0.5 0.5 0.5"><joint type="%s" axis="0.6 0.8 0" pos="0 0.1 0.2"/><geom size="0.1"/></body>
</body></worldbody></mujoco>''' % (_s.argv[1] if len(_s.argv)>1 else 'slide')
sys=mjcf.loads(xml)
_orig=math.normalize
math.normalize=lambda x,axis=None:(x,jp.ones(()))
leaves,treedef=jax.tree_util.tree_flatten(sys)
paths=jax.tree_util.tree_flatten_with_path(sys)[0]
S={}
want=['.link.transform.pos','.link.transform.rot','.link.joint.pos','.dof.motion.ang','.dof.motion.vel']
args=[]
for (p,l) in paths:
    k=jax.tree_util.keystr(p)
    if k in want:
        s=sym(k.replace('.','_'),np.shape(l)); S[k]=s; args.append(s)
    else: args.append(np.asarray(l))
# structural zeros per joint kind (load_model guarantee): hinge: vel=0, slide: ang=0
kinds=['hinge', _s.argv[1] if len(_s.argv)>1 else 'slide']
for i,k in enumerate(kinds):
    if k=='hinge': S['.dof.motion.vel'][i]=[RV(0.0)]*3
    else: S['.dof.motion.ang'][i]=[RV(0.0)]*3
q=sym('q',(sys.q_size(),)); qd=sym('qd',(sys.qd_size(),))
def f(*flat):
    s=jax.tree_util.tree_unflatten(treedef,flat[:-2]); x,xd=kinematics.forward(s,flat[-2],flat[-1]); return x.pos,x.rot,xd.ang,xd.vel
cj=jax.make_jaxpr(f)(*leaves,jp.zeros(sys.q_size()),jp.zeros(sys.qd_size()))
ctx=Ctx(); t=time.time()
pos,rot,ang,vel=eval_jaxpr(ctx,cj.jaxpr,cj.consts,*args,q,qd)
print('interp',time.time()-t)
# ---- spec (MuJoCo mj_kinematics semantics) over z3 terms
def qmul(u,v): return [u[0]*v[0]-u[1]*v[1]-u[2]*v[2]-u[3]*v[3], u[0]*v[1]+u[1]*v[0]+u[2]*v[3]-u[3]*v[2], u[0]*v[2]-u[1]*v[3]+u[2]*v[0]+u[3]*v[1], u[0]*v[3]+u[1]*v[2]-u[2]*v[1]+u[3]*v[0]]
def cross(a,b): return [a[1]*b[2]-a[2]*b[1], a[2]*b[0]-a[0]*b[2], a[0]*b[1]-a[1]*b[0]]
def dot(a,b): return sum(x*y for x,y in zip(a,b))
def rot_v(v,qq):
    # unit quaternion rotation  v + 2 s (u x v) + 2 u x (u x v)
    s,u=qq[0],qq[1:]; uv=cross(u,v); uuv=cross(u,uv)
    return [v[i]+2*s*uv[i]+2*uuv[i] for i in range(3)]
pre=[]
def unit(v): return dot(v,v)==1
xpos=[[RV(0.0)]*3]; xquat=[[RV(1.0),RV(0.0),RV(0.0),RV(0.0)]]  # world
par=[int(p)+1 for p in sys.link_parents]
for i in range(2):
    bp=list(S['.link.transform.pos'][i]); bq=list(S['.link.transform.rot'][i]); jp_=list(S['.link.joint.pos'][i])
    pre.append(unit(bq))
    P,Q=xpos[par[i]],xquat[par[i]]
    p=[P[k]+rot_v(bp,Q)[k] for k in range(3)]; qq=qmul(Q,bq)
    c,s=ctx.trig_pair(q[i]/2)
    if kinds[i]=='hinge':
        ax=list(S['.dof.motion.ang'][i]); pre.append(unit(ax))
        anchor=[p[k]+rot_v(jp_,qq)[k] for k in range(3)]
        qq=qmul(qq,[c,ax[0]*s,ax[1]*s,ax[2]*s])
        p=[anchor[k]-rot_v(jp_,qq)[k] for k in range(3)]
    else:
        ax=list(S['.dof.motion.vel'][i]); pre.append(unit(ax))
        pre.append(c>=RV(0.54))   # |q|<=2
        d=rot_v(ax,qq); p=[p[k]+d[k]*q[i] for k in range(3)]
    xpos.append(p); xquat.append(qq)
print('trig pairs',len(ctx.trig))
for i in range(2):
    for nm,got,exp in (('pos',pos[i],xpos[i+1]),('rot',rot[i],xquat[i+1])):
        s=z3.Solver(); s.set('timeout',120000)
        s.add(*pre); s.add(*ctx.assume)
        s.add(z3.Or(*[g!=e for g,e in zip(got,exp)]))
        t=time.time(); r=s.check(); print('link',i,nm,r,'%.2fs'%(time.time()-t))
