import time, z3, numpy as np, jax, jax.numpy as jnp
import jx2
from jx2 import *
from brax.training import replay_buffers as rb
def a0(v):
    t=np.empty((),dtype=object); t[()]=v; return t
for N,b in [(3,2),(4,2),(5,3)]:
    u=rb.UniformSamplingQueue(N, jnp.zeros(1), b)
    st=u.init(jax.random.PRNGKey(0))
    cj=jax.make_jaxpr(u.sample_internal)(st)
    ctx=Ctx(); ctx.int_bounds=(0,N+1)
    data=sym('D',(N,1)); ip=z3.Int('ip'); sp=z3.Int('sp'); key=sym('key',(2,),kind='I')
    pre=[0<=sp, sp<ip, ip<=N]
    try:
        d2,ip2,sp2,key2,batch=eval_jaxpr(ctx,cj.jaxpr,cj.consts,data,a0(ip),a0(sp),key)
    except NotImplementedError as e:
        print('unsupported',e); break
    goals=[ip2.item()!=ip, sp2.item()!=sp]+[d2[i,0]!=data[i,0] for i in range(N)]
    for r in range(b):
        held=z3.Or(*[z3.And(sp<=i,i<ip,batch[r,0]==data[i,0]) for i in range(N)])
        goals.append(z3.Not(held))
    s=z3.Solver(); s.set('timeout',120000); s.add(*pre); s.add(*ctx.assume); s.add(z3.Or(*goals)); t=time.time(); print('uniform',N,b,s.check(),'%.2fs'%(time.time()-t), 'side oblig',len(ctx.oblig))
