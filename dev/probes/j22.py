import jax, jax.numpy as jp
jax.config.update('jax_enable_x64', True)
from brax import math
f=lambda x,t: jax.jvp(lambda y: math.normalize(y)[0], (x,), (t,))[1]
print(jax.make_jaxpr(f)(jp.ones(3), jp.ones(3)))
g=lambda x: jax.grad(lambda y: math.safe_norm(y))(x)
print(jax.make_jaxpr(g)(jp.ones(3)))
