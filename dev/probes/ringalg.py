"""ring algebra glue for jx2 prototype"""
import numpy as np, z3, jx2
from fractions import Fraction
from sympy.polys.rings import ring, PolyElement
from sympy import QQ
def install():
    jx2.toR=lambda a:a
    def RVp(x):
        if isinstance(x,(bool,np.bool_)): return bool(x)
        if isinstance(x,(int,np.integer)): return QQ(int(x))
        if isinstance(x,(float,np.floating)):
            f=Fraction(float(x)); return QQ(f.numerator,f.denominator)
        return x
    jx2.RV=RVp
    _isr=z3.is_real; z3.is_real=lambda a: False if not isinstance(a,z3.ExprRef) else _isr(a)
    _isi=z3.is_int; z3.is_int=lambda a: False if not isinstance(a,z3.ExprRef) else _isi(a)
    _isb=z3.is_bool; z3.is_bool=lambda a: False if not isinstance(a,z3.ExprRef) else _isb(a)
class RingWorld:
    def __init__(self,names):
        self.R,*g=ring(names,QQ); self.G=dict(zip(names,g)); self.rels=[]
    def arr(self,prefix,shape):
        a=np.empty(shape,dtype=object)
        for idx in np.ndindex(*shape): a[idx]=self.G[prefix+''.join('_%d'%i for i in idx)]
        return a
    def unit(self,v): self.rels.append(sum(x*x for x in v)-1)
    def red(self,p):
        return p.rem(self.rels) if isinstance(p,PolyElement) and self.rels else p
def names_for(prefix,shape): return [prefix+''.join('_%d'%i for i in idx) for idx in np.ndindex(*shape)]
