import jax, jax.numpy as jnp, numpy as np
jax.config.update('jax_enable_x64', True)
from brax.training.agents.ppo import losses
from brax.training import replay_buffers as rb
from brax.training.acme import running_statistics as rs
T,B=3,2
z=jnp.zeros((T,B))
print(jax.make_jaxpr(lambda tr,te,r,v,bv,l,d: losses.compute_gae(tr,te,r,v,bv,l,d))(z,z,z,z,jnp.zeros(B),0.5,0.9))
q=rb.Queue(4, jnp.zeros(2), 2)
st=q.init(jax.random.PRNGKey(0))
print(jax.make_jaxpr(q.insert_internal)(st, jnp.zeros((3,2))))
print(jax.make_jaxpr(q.sample_internal)(st))
u=rb.UniformSamplingQueue(4, jnp.zeros(2), 2)
print(jax.make_jaxpr(u.sample_internal)(st))
