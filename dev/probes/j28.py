import time, z3, numpy as np, jax, jax.numpy as jp, itertools
import jx2
from jx2 import *
from brax import actuator
from brax.io import mjcf
from brax.training.agents.ppo import losses
# ---- (a) C11 to_tau on a real System with symbolic actuator table and chosen id maps
xml='''<mujoco><worldbody><body><joint type="hinge" name="j0"/><geom size="0.1"/>
 <body pos="0 0 1"><joint type="slide" name="j1"/><geom size="0.1"/>
 <body pos="0 0 1"><joint type="hinge" name="j2"/><geom size="0.1"/></body></body></body></worldbody>
 <actuator><motor joint="j0"/><position joint="j1" kp="3"/><velocity joint="j1" kv="2"/></actuator></mujoco>'''
sys0=mjcf.loads(xml); nu,nv=3,3
def a0(v):
    t=np.empty((),dtype=object); t[()]=v; return t
tot=0; t0=time.time()
for ids in itertools.product(range(nv),repeat=nu):
    sys=sys0.tree_replace({'actuator.q_id':jp.array(ids),'actuator.qd_id':jp.array(ids)})
    leaves,treedef=jax.tree_util.tree_flatten(sys)
    paths=jax.tree_util.tree_flatten_with_path(sys)[0]
    S={}; args=[]
    for (p,l) in paths:
        k=jax.tree_util.keystr(p)
        if k.startswith('.actuator.') and k not in ('.actuator.q_id','.actuator.qd_id'):
            S[k]=sym(k.replace('.','_'),np.shape(l)); args.append(S[k])
        else: args.append(np.asarray(l))
    def f(*flat):
        s=jax.tree_util.tree_unflatten(treedef,flat[:-3]); return actuator.to_tau(s,flat[-3],flat[-2],flat[-1])
    cj=jax.make_jaxpr(f)(*leaves,jp.zeros(nu),jp.zeros(sys.q_size()),jp.zeros(nv))
    ctx=Ctx(); ctx.uf_minmax=True; act=sym('u',(nu,)); q=sym('q',(3,)); qd=sym('qd',(nv,))
    (tau,)=eval_jaxpr(ctx,cj.jaxpr,cj.consts,*args,act,q,qd)
    cr=S['.actuator.ctrl_range']; fr=S['.actuator.force_range']; g=S['.actuator.gain']; ge=S['.actuator.gear']; bq=S['.actuator.bias_q']; bqd=S['.actuator.bias_qd']
    clip=lambda x,lo,hi: ctx.ufun('MIN',hi,ctx.ufun('MAX',lo,x))
    pre=[cr[i,0]<=cr[i,1] for i in range(nu)]+[fr[i,0]<=fr[i,1] for i in range(nu)]
    spec=[RV(0.0)]*nv
    for i in range(nu):
        c=clip(act[i],cr[i,0],cr[i,1]); fo=clip(g[i]*c+ge[i]*(bq[i]*q[ids[i]]+bqd[i]*qd[ids[i]]),fr[i,0],fr[i,1])
        spec[ids[i]]=spec[ids[i]]+ge[i]*fo
    s=z3.Solver(); s.set('timeout',60000); s.add(*pre); s.add(z3.Or(*[tau[d]!=spec[d] for d in range(nv)]))
    r=s.check(); tot+=1
    if r!=z3.unsat: print('ids',ids,r)
print('C11 to_tau formula: %d id maps, all unsat' % tot,'%.1fs'%(time.time()-t0))
# ---- (e) C19 no_gradient
T,B=4,2
def tot_fn(tr,te,r,v,bv,l,d):
    vs,adv=losses.compute_gae(tr,te,r,v,bv,l,d); return jp.sum(vs)+jp.sum(adv)
gj=jax.make_jaxpr(jax.grad(tot_fn,argnums=(0,1,2,3,4,5,6)))(jp.zeros((T,B)),jp.zeros((T,B)),jp.zeros((T,B)),jp.zeros((T,B)),jp.zeros(B),0.5,0.9)
ctx=Ctx()
outs=eval_jaxpr(ctx,gj.jaxpr,gj.consts,sym('tr',(T,B)),sym('te',(T,B)),sym('r',(T,B)),sym('v',(T,B)),sym('bv',(B,)),sym('l',()),sym('g',()))
allz=all((not is_sym(o) and not np.any(o)) or all(z3.is_true(z3.simplify(e==0)) for e in lift(o).reshape(-1)) for o in outs)
print('C19 gradient identically zero:',allz)
