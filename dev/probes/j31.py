import time, z3, numpy as np, jax, jax.numpy as jnp
import jx2
from jx2 import *
from brax.training import replay_buffers as rb
N,b=6,4
u=rb.UniformSamplingQueue(N, jnp.zeros(1), b)
st=u.init(jax.random.PRNGKey(0))
cj=jax.make_jaxpr(u.sample_internal)(st)
t0=time.time(); n=0
for ip in range(1,N+1):
    for sp in range(0,ip):
        ctx=Ctx(); data=sym('D',(N,1)); key=sym('key',(2,),kind='I')
        d2,ip2,sp2,key2,batch=eval_jaxpr(ctx,cj.jaxpr,cj.consts,data,np.asarray(ip,dtype=np.int32),np.asarray(sp,dtype=np.int32),key)
        goals=[]
        for r in range(b):
            goals.append(z3.Not(z3.Or(*[batch[r,0]==data[i,0] for i in range(sp,ip)])))
        s=z3.Solver(); s.set('timeout',60000); s.add(*ctx.assume); s.add(z3.Or(*goals)); r_=s.check(); n+=1
        if r_!=z3.unsat: print('ip',ip,'sp',sp,r_)
print('uniform N=%d b=%d: %d cursor cases, %.1fs'%(N,b,n,time.time()-t0))
