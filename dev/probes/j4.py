import time, z3, numpy as np, jax, jax.numpy as jp
from jx2 import *
from brax import math, base, kinematics
from brax.io import mjcf
xml='''<mujoco><worldbody>
<body name="a" pos="0.1 0.2 0.3" quat="0.5 0.5 0.5 0.5"><joint type="hinge" axis="0 0.6 0.8" pos="0.1 0 0.2"/><geom size="0.1"/>
 <body name="b" pos="0.3 0 0.1" quat="0.5 -0.5 0.5 0.5"><joint type="slide" axis="0.6 0.8 0" pos="0 0.1 0.2"/><geom size="0.1"/></body>
</body></worldbody></mujoco>'''
sys=mjcf.loads(xml)
leaves,treedef=jax.tree_util.tree_flatten(sys)
# make symbolic only the leaves kinematics uses: find by path
paths=jax.tree_util.tree_flatten_with_path(sys)[0]
symnames={}
def keystr(p): return jax.tree_util.keystr(p)
want=['.link.transform.pos','.link.transform.rot','.link.joint.pos','.link.joint.rot','.dof.motion.ang','.dof.motion.vel']
args=[]
for (p,l) in paths:
    k=keystr(p)
    if k in want:
        s=sym(k.replace('.','_'),np.shape(l)); symnames[k]=s; args.append(s)
    else: args.append(np.asarray(l))
q=sym('q',(sys.q_size(),)); qd=sym('qd',(sys.qd_size(),))
def f(*flat):
    s=jax.tree_util.tree_unflatten(treedef,flat[:-2]); x,xd=kinematics.forward(s,flat[-2],flat[-1]); return x.pos,x.rot,xd.ang,xd.vel
t=time.time()
cj=jax.make_jaxpr(f)(*leaves,jp.zeros(sys.q_size()),jp.zeros(sys.qd_size()))
print('trace',time.time()-t)
ctx=Ctx(); t=time.time()
pos,rot,ang,vel=eval_jaxpr(ctx,cj.jaxpr,cj.consts,*args,q,qd)
print('interp',time.time()-t, 'assume',len(ctx.assume),'oblig',len(ctx.oblig),'trig',[(str(a)) for a,_,_ in ctx.trig.values()])
print(pos[0][0])
