import time, z3, numpy as np, jax, jax.numpy as jp
from jx import *
from brax import math, base, kinematics
from brax.io import mjcf
xml='''<mujoco><worldbody>
<body name="a" pos="0.1 0.2 0.3" quat="0.5 0.5 0.5 0.5"><joint type="hinge" axis="0 0.6 0.8" pos="0.1 0 0.2"/><geom size="0.1"/>
 <body name="b" pos="0.3 0 0.1" quat="0.5 -0.5 0.5 0.5"><joint type="slide" axis="0.6 0.8 0" pos="0 0.1 0.2"/><geom size="0.1"/></body>
</body></worldbody></mujoco>'''
sys=mjcf.loads(xml)
print(sys.link_types, sys.link_parents)
cj=jax.make_jaxpr(lambda s,q,qd: kinematics.forward(s,q,qd))(sys, jp.zeros(sys.q_size()), jp.zeros(sys.qd_size()))
print(len(cj.jaxpr.eqns), len(cj.jaxpr.invars))
from collections import Counter
def count(j,c):
    for e in j.eqns:
        c[e.primitive.name]+=1
        for v in e.params.values():
            if hasattr(v,'jaxpr'): count(v.jaxpr if hasattr(v.jaxpr,'eqns') else v.jaxpr.jaxpr,c)
            elif hasattr(v,'eqns'): count(v,c)
    return c
print(count(cj.jaxpr,Counter()))
