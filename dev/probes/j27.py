import time, numpy as np, jax, jax.numpy as jp, sys as _s, z3
import jx2, ringalg
from ringalg import *
from jx2 import eval_jaxpr, Ctx
from opq import opaque
from brax import math, base, kinematics
from brax.io import mjcf
from sympy.polys.rings import PolyElement
ringalg.install()
word=_s.argv[1]   # e.g. hh, sh, hhh
axes=['0.6 0.8 0','0 0.6 0.8','0.8 0 0.6']
joints=''.join('<joint type="%s" axis="%s" pos="0 0.1 0.2"/>'%('hinge' if c=='h' else 'slide',axes[i]) for i,c in enumerate(word))
xml='''<mujoco><worldbody>
<body name="a" pos="0.1 0.2 0.3"><freejoint/><geom size="0.1"/>
 <body name="b" pos="0.3 0 0.1" quat="0.5 -0.5 0.5 0.5">%s<geom size="0.1"/></body>
</body></worldbody></mujoco>''' % joints
sys=mjcf.loads(xml); n=len(word)
math.normalize=opaque('math.normalize',math.normalize)
leaves,treedef=jax.tree_util.tree_flatten(sys)
paths=jax.tree_util.tree_flatten_with_path(sys)[0]
want={'.link.transform.pos':None,'.link.transform.rot':None,'.link.joint.pos':None,'.dof.motion.ang':None,'.dof.motion.vel':None}
names=[]
for (p,l) in paths:
    k=jax.tree_util.keystr(p)
    if k in want: want[k]=np.shape(l); names+=names_for(k.replace('.','_'),np.shape(l))
names+=names_for('q',(7+n,))+names_for('qd',(6+n,))+sum([['c%d'%i,'s%d'%i] for i in range(n)],[])
W=RingWorld(names)
args=[]; S={}
for (p,l) in paths:
    k=jax.tree_util.keystr(p)
    if k in want: S[k]=W.arr(k.replace('.','_'),want[k]); args.append(S[k])
    else: args.append(np.asarray(l))
Z=W.R(0); O=W.R(1)
S['.link.transform.pos'][0]=[Z]*3; S['.link.transform.rot'][0]=[O,Z,Z,Z]; S['.link.joint.pos'][0]=[Z]*3
for r in range(6):
    for c_ in range(3):
        S['.dof.motion.ang'][r,c_]=W.R(int(np.eye(6,3,-3)[r,c_])); S['.dof.motion.vel'][r,c_]=W.R(int(np.eye(6,3)[r,c_]))
ax=[]
for i,c in enumerate(word):
    if c=='h': S['.dof.motion.vel'][6+i]=[Z]*3; ax.append(list(S['.dof.motion.ang'][6+i]))
    else: S['.dof.motion.ang'][6+i]=[Z]*3; ax.append(list(S['.dof.motion.vel'][6+i]))
q=W.arr('q',(7+n,)); qd=W.arr('qd',(6+n,))
W.unit(list(q[3:7])); W.unit(list(S['.link.transform.rot'][1]))
for a in ax: W.unit(a)
for i in range(n): W.rels.append(W.G['c%d'%i]**2+W.G['s%d'%i]**2-1)
class C2(Ctx):
    def trig_pair(self,a):
        # a = q_i/2 ; find i
        for i in range(n):
            if a==q[7+i]*W.R(1)/2 or a==q[7+i]/2: return W.G['c%d'%i],W.G['s%d'%i]
        raise RuntimeError('trig arg %s'%a)
ctx=C2()
def h_normalize(ctx,P,ins):
    x=ins[0]; b=tuple(P['batch'])
    xs=x.reshape((-1,x.shape[-1])); out=np.empty(xs.shape,dtype=object); nrm=np.empty((xs.shape[0],),dtype=object)
    for i,row in enumerate(xs):
        n2=W.red(sum(e*e for e in row))
        if n2==1: out[i]=row; nrm[i]=O
        elif all(e==0 for e in row[1:]): out[i]=[O]+[Z]*(len(row)-1); nrm[i]=row[0]
        else: raise RuntimeError('normalize contract: cannot decide norm of %s'%(str(n2)[:200],))
    return [out.reshape(x.shape), nrm.reshape(b)]
ctx.cut_handlers={'math.normalize':h_normalize}
def f(*flat):
    s=jax.tree_util.tree_unflatten(treedef,flat[:-2]); x,xd=kinematics.forward(s,flat[-2],flat[-1]); return x.pos,x.rot
cj=jax.make_jaxpr(f)(*leaves,jp.zeros(7+n),jp.zeros(6+n))
t=time.time()
pos,rot=eval_jaxpr(ctx,cj.jaxpr,cj.consts,*args,q,qd)
print(word,'interp %.1fs'%(time.time()-t),'terms',len(pos[1][0]))
def qmul(u,v): return [u[0]*v[0]-u[1]*v[1]-u[2]*v[2]-u[3]*v[3], u[0]*v[1]+u[1]*v[0]+u[2]*v[3]-u[3]*v[2], u[0]*v[2]-u[1]*v[3]+u[2]*v[0]+u[3]*v[1], u[0]*v[3]+u[1]*v[2]-u[2]*v[1]+u[3]*v[0]]
def cross(a,b): return [a[1]*b[2]-a[2]*b[1], a[2]*b[0]-a[0]*b[2], a[0]*b[1]-a[1]*b[0]]
def rot_v(v,qq):
    s,u=qq[0],qq[1:]; uv=cross(u,v); uuv=cross(u,uv)
    return [v[i]+2*s*uv[i]+2*uuv[i] for i in range(3)]
P0=list(q[0:3]); Q0=list(q[3:7])
bp=list(S['.link.transform.pos'][1]); bq=list(S['.link.transform.rot'][1]); jpos=list(S['.link.joint.pos'][1])
p=[P0[k]+rot_v(bp,Q0)[k] for k in range(3)]; qq=qmul(Q0,bq)
for i,cw in enumerate(word):
    c,s=W.G['c%d'%i],W.G['s%d'%i]; a=ax[i]
    if cw=='h':
        anc=[p[k]+rot_v(jpos,qq)[k] for k in range(3)]; qq=qmul(qq,[c,a[0]*s,a[1]*s,a[2]*s]); p=[anc[k]-rot_v(jpos,qq)[k] for k in range(3)]
    else:
        d=rot_v(a,qq); p=[p[k]+d[k]*q[7+i] for k in range(3)]
t=time.time()
print(' pos',['0' if W.red(g-e)==0 else 'NONZERO' for g,e in zip(pos[1],p)],' rot',['0' if W.red(g-e)==0 else 'NONZERO' for g,e in zip(rot[1],qq)],'check %.1fs'%(time.time()-t))
