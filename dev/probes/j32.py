import numpy as np, jax, jax.numpy as jp, mujoco
jax.config.update('jax_enable_x64', True)
from brax import kinematics
from brax.io import mjcf
xml='''<mujoco><worldbody>
<body name="a" pos="0.1 0.2 0.3"><freejoint/><geom size="0.1"/>
 <body name="b" pos="0.3 0 0.1" quat="0.5 -0.5 0.5 0.5"><joint type="hinge" axis="0.6 0.8 0" pos="0 0 0"/><geom size="0.1"/>
  <body name="c" pos="0.3 0.2 0.1" quat="0.5 0.5 0.5 0.5"><joint type="slide" axis="0 0.6 0.8" pos="0 0 0"/><geom size="0.1"/></body></body>
</body></worldbody></mujoco>'''
sys=mjcf.loads(xml); mj=sys.mj_model; d=mujoco.MjData(mj)
rng=np.random.default_rng(0)
q=np.array(sys.init_q,dtype=float); q[:3]=rng.normal(size=3); qq=rng.normal(size=4); q[3:7]=qq/np.linalg.norm(qq); q[7:]=rng.uniform(-2,2,size=2); qd=rng.uniform(-1,1,size=sys.qd_size())
d.qpos[:]=q; d.qvel[:]=qd; mujoco.mj_forward(mj,d)
x,xd=kinematics.forward(sys,jp.array(q),jp.array(qd))
print('pos err',np.abs(np.asarray(x.pos)-d.xpos[1:]).max())
qe=np.minimum(np.abs(np.asarray(x.rot)-d.xquat[1:]).max(axis=1),np.abs(np.asarray(x.rot)+d.xquat[1:]).max(axis=1)); print('rot err',qe.max())
for b in range(1,mj.nbody):
    v=np.zeros(6); mujoco.mj_objectVelocity(mj,d,mujoco.mjtObj.mjOBJ_BODY,b,v,0)
    print(mj.body(b).name,'ang err',np.abs(np.asarray(xd.ang[b-1])-v[:3]).max(),'vel err',np.abs(np.asarray(xd.vel[b-1])-v[3:]).max())
