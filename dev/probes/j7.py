import time, numpy as np, jax, jax.numpy as jp, sys as _s
from sympy.polys.rings import ring, PolyElement
from sympy import QQ
import jx2
from jx2 import eval_jaxpr, Ctx, is_sym
from brax import math, base, kinematics
from brax.io import mjcf
import z3
# --- poly algebra hack: monkeypatch the few z3-specific helpers in jx2 for ring elements
jx2.toR=lambda a:a
def RVp(x):
    if isinstance(x,(bool,np.bool_)): return bool(x)
    from fractions import Fraction
    if isinstance(x,(int,np.integer)): return QQ(int(x))
    if isinstance(x,(float,np.floating)):
        f=Fraction(float(x)); return QQ(f.numerator,f.denominator)
    return x
jx2.RV=RVp
_isr=z3.is_real; z3.is_real=lambda a: False if isinstance(a,PolyElement) or not isinstance(a,z3.ExprRef) else _isr(a)
_isi=z3.is_int; z3.is_int=lambda a: False if not isinstance(a,z3.ExprRef) else _isi(a)
_isb=z3.is_bool; z3.is_bool=lambda a: False if not isinstance(a,z3.ExprRef) else _isb(a)

nl=int(_s.argv[1]) if len(_s.argv)>1 else 2
body=''
for i in range(nl):
    body+='<body name="b%d" pos="0.3 0 0.1" quat="0.5 -0.5 0.5 0.5"><joint type="hinge" axis="0.6 0.8 0" pos="0 0.1 0.2"/><geom size="0.1"/>'%i
body+='</body>'*nl
sys=mjcf.loads('<mujoco><worldbody>%s</worldbody></mujoco>'%body)
math.normalize=lambda x,axis=None:(x,jp.ones(()))
leaves,treedef=jax.tree_util.tree_flatten(sys)
paths=jax.tree_util.tree_flatten_with_path(sys)[0]
want=['.link.transform.pos','.link.transform.rot','.link.joint.pos','.dof.motion.ang']
names=[]
shapes={}
for (p,l) in paths:
    k=jax.tree_util.keystr(p)
    if k in want:
        shapes[k]=np.shape(l)
        for idx in np.ndindex(*np.shape(l)): names.append(k.replace('.','_')+''.join('_%d'%i for i in idx))
for i in range(nl): names += ['c%d'%i,'s%d'%i]
Rg,*gens=ring(names,QQ)
G=dict(zip(names,gens))
S={}; args=[]
for (p,l) in paths:
    k=jax.tree_util.keystr(p)
    if k in want:
        a=np.empty(np.shape(l),dtype=object)
        for idx in np.ndindex(*a.shape): a[idx]=G[k.replace('.','_')+''.join('_%d'%i for i in idx)]
        S[k]=a; args.append(a)
    elif k=='.dof.motion.vel': 
        a=np.empty(np.shape(l),dtype=object); a[...]=Rg(0); args.append(a)
    else: args.append(np.asarray(l))
class PCtx(Ctx):
    def trig_pair(self,a):
        # a = 1/2*q_i  -> identify index from poly: we pass q as special markers
        i=self.qmap[a]; return G['c%d'%i],G['s%d'%i]
ctx=PCtx()
# q as distinct ring-like markers: use extra gens? simpler: q_i appear only inside sin/cos(q/2): represent q_i as object marker
class QM:
    def __init__(s,i): s.i=i
    def __truediv__(s,o): return s
    def __rmul__(s,o): return s
    def __mul__(s,o): return s
    def __hash__(s): return hash(('qm',s.i))
    def __eq__(s,o): return isinstance(o,QM) and o.i==s.i
class QMap(dict):
    def __getitem__(s,k): return k.i
ctx.qmap=QMap()
q=np.empty((nl,),dtype=object)
for i in range(nl): q[i]=QM(i)
qd=np.empty((nl,),dtype=object); qd[...]=Rg(0)
def f(*flat):
    s=jax.tree_util.tree_unflatten(treedef,flat[:-2]); x,xd=kinematics.forward(s,flat[-2],flat[-1]); return x.pos,x.rot
cj=jax.make_jaxpr(f)(*leaves,jp.zeros(nl),jp.zeros(nl))
t=time.time()
pos,rot=eval_jaxpr(ctx,cj.jaxpr,cj.consts,*args,q,qd)
print('interp',time.time()-t, 'terms in pos[-1][0]:',len(pos[-1][0]))
# spec
def qmul(u,v): return [u[0]*v[0]-u[1]*v[1]-u[2]*v[2]-u[3]*v[3], u[0]*v[1]+u[1]*v[0]+u[2]*v[3]-u[3]*v[2], u[0]*v[2]-u[1]*v[3]+u[2]*v[0]+u[3]*v[1], u[0]*v[3]+u[1]*v[2]-u[2]*v[1]+u[3]*v[0]]
def cross(a,b): return [a[1]*b[2]-a[2]*b[1], a[2]*b[0]-a[0]*b[2], a[0]*b[1]-a[1]*b[0]]
def rot_v(v,qq):
    s,u=qq[0],qq[1:]; uv=cross(u,v); uuv=cross(u,uv)
    return [v[i]+2*s*uv[i]+2*uuv[i] for i in range(3)]
rels=[]
def unit(v): rels.append(sum(x*x for x in v)-1)
xpos=[[Rg(0)]*3]; xquat=[[Rg(1),Rg(0),Rg(0),Rg(0)]]
par=[int(p)+1 for p in sys.link_parents]
t=time.time()
for i in range(nl):
    bp=list(S['.link.transform.pos'][i]); bq=list(S['.link.transform.rot'][i]); jp_=list(S['.link.joint.pos'][i]); ax=list(S['.dof.motion.ang'][i])
    unit(bq); unit(ax); c,s=G['c%d'%i],G['s%d'%i]; rels.append(c*c+s*s-1)
    P,Q=xpos[par[i]],xquat[par[i]]
    rv=rot_v(bp,Q); p=[P[k]+rv[k] for k in range(3)]; qq=qmul(Q,bq)
    ra=rot_v(jp_,qq); anchor=[p[k]+ra[k] for k in range(3)]
    qq=qmul(qq,[c,ax[0]*s,ax[1]*s,ax[2]*s])
    rb=rot_v(jp_,qq); p=[anchor[k]-rb[k] for k in range(3)]
    xpos.append(p); xquat.append(qq)
print('spec',time.time()-t)
t=time.time()
for i in range(nl):
    for nm,got,exp in (('pos',pos[i],xpos[i+1]),('rot',rot[i],xquat[i+1])):
        for g,e in zip(got,exp):
            d=g-e
            if d!=0:
                r=d.rem(rels)
                print('link',i,nm,'terms',len(d),'-> rem terms',len(r), 'ZERO' if r==0 else 'NONZERO')
            else: print('link',i,nm,'identical')
print('check',time.time()-t)
