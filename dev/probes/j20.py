import jax, jax.numpy as jp, numpy as np, z3, time
jax.config.update('jax_enable_x64', True)
from brax.envs.base import Env, State
from brax.envs.wrappers import training as T
import jx2
from jx2 import *
class Havoc(Env):
    """step outputs are read from a tape carried in pipeline_state: (k, obs[K,B,O], rew[K,B], done[K,B])"""
    def __init__(s,O): s.O=O
    def reset(s,rng):
        raise NotImplementedError
    def step(s,state,action):
        k,tobs,trew,tdone=state.pipeline_state
        return state.replace(pipeline_state=(k+1,tobs,trew,tdone), obs=tobs[:,k[0]], reward=trew[:,k[0]], done=tdone[:,k[0]])
    observation_size=property(lambda s:s.O); action_size=property(lambda s:1); backend=property(lambda s:'havoc')
B,O,AR=2,1,2
env=Havoc(O)
ew_=T.EpisodeWrapper(env, 5, AR); aw=T.AutoResetWrapper(ew_)
def f(L, steps, trunc, done_prev, obs_prev, first_obs, tobs, trew, tdone, action):
    ew_.episode_length=L
    st=State(pipeline_state=(jp.zeros(B,dtype=jp.int32),tobs,trew,tdone), obs=obs_prev, reward=jp.zeros(B), done=done_prev, metrics={}, info={'steps':steps,'truncation':trunc,'first_obs':first_obs,'first_pipeline_state':(jp.zeros(B,dtype=jp.int32),tobs,trew,tdone)})
    ns=aw.step(st,action)
    return ns.obs, ns.reward, ns.done, ns.info['steps'], ns.info['truncation']
z=jp.zeros
cj=jax.make_jaxpr(f)(jp.int32(5), z(B), z(B), z(B), z((B,O)), z((B,O)), z((B,AR,O)), z((B,AR)), z((B,AR)), z((B,1)))
print(len(cj.jaxpr.eqns),'eqns')
def a0(v):
    t=np.empty((),dtype=object); t[()]=v; return t
ctx=Ctx()
L=z3.Int('L'); steps=sym('steps',(B,)); trunc=sym('trunc',(B,)); dp=sym('dprev',(B,)); op_=sym('oprev',(B,O)); fo=sym('first',(B,O)); tobs=sym('tobs',(B,AR,O)); trew=sym('trew',(B,AR)); tdone=sym('tdone',(B,AR)); act=sym('act',(B,1))
t=time.time()
obs,rew,done,steps2,trunc2=eval_jaxpr(ctx,cj.jaxpr,cj.consts,a0(L),steps,trunc,dp,op_,fo,tobs,trew,tdone,act)
print('interp %.2fs'%(time.time()-t))
pre=[L>=1]+[z3.Or(d==0,d==1) for d in list(dp)+list(tdone.reshape(-1))]
goals=[]
for b in range(B):
    s0=z3.If(dp[b]!=0, 0, steps[b]); s1=s0+AR
    d_env=tdone[b,AR-1]
    tl=z3.ToReal(L)
    goals+= [steps2[b]!=s1, rew[b]!=sum(trew[b,k] for k in range(AR)),
             done[b]!=z3.If(s1>=tl,1,d_env), trunc2[b]!=z3.If(s1>=tl,1-d_env,0)]
    dn=z3.If(s1>=tl,1,d_env)
    for o in range(O): goals.append(obs[b,o]!=z3.If(dn!=0, fo[b,o], tobs[b,AR-1,o]))
s=z3.Solver(); s.set('timeout',60000); s.add(*pre); s.add(z3.Or(*goals)); t=time.time(); print('wrap-step transition contract:',s.check(),'%.2fs'%(time.time()-t))
