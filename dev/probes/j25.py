import jax, jax.numpy as jp, time, traceback
from brax import envs
names=['ant','halfcheetah','hopper','humanoid','humanoidstandup','inverted_pendulum','inverted_double_pendulum','pusher','reacher','swimmer','walker2d']
for n in names:
    for b in ['generalized','spring','positional']:
        t=time.time()
        try:
            e=envs.get_environment(n,backend=b)
        except Exception as ex:
            print(n,b,'CTOR',type(ex).__name__,str(ex)[:60]); continue
        try:
            s=jax.eval_shape(e.reset, jax.random.PRNGKey(0))
            s2=jax.eval_shape(e.step, s, jax.ShapeDtypeStruct((e.action_size,),jp.float32))
            ok = s2.obs.shape==s.obs.shape==(e.observation_size,) and jax.tree_util.tree_structure(s)==jax.tree_util.tree_structure(s2)
            same=all(a.shape==b_.shape and a.dtype==b_.dtype for a,b_ in zip(jax.tree_util.tree_leaves(s),jax.tree_util.tree_leaves(s2)))
            print(n,b,'ok' if ok and same else 'MISMATCH', s.obs.shape, e.action_size, '%.1fs'%(time.time()-t))
        except Exception as ex:
            print(n,b,'FAIL',type(ex).__name__,str(ex)[:80], '%.1fs'%(time.time()-t))
