import jax, jax.numpy as jnp
from brax.training.agents.ppo import losses
z=jnp.zeros((3,2))
cj=jax.make_jaxpr(losses.compute_gae)(z,z,z,z,jnp.zeros(2),0.5,0.9)
for e in cj.jaxpr.eqns:
    if e.primitive.name=='scan':
        for k,v in e.params.items(): print(k, type(v), v if k!='jaxpr' else '')
        print([str(v.aval) for v in e.invars],[str(v.aval) for v in e.outvars])
        fi=e.params['ft_in']; print(dir(fi))
        print(type(fi.vals), fi.vals, fi.tree, len(fi), fi.unpack())
        a,b,c=fi.unpack(); print(type(a), len(a.vals) if hasattr(a,'vals') else a)
        fo=e.params['ft_out']; print(fo.unpack(), [type(x) for x in fo.unpack()], fo.vals)
