import time, numpy as np, jax, jax.numpy as jp, sys as _s, z3
import jx2, ringalg
from ringalg import *
from jx2 import eval_jaxpr, Ctx
from opq import opaque
from brax import math, base, kinematics
from brax.io import mjcf
ringalg.install()
kind=_s.argv[1] if len(_s.argv)>1 else 'slide'
anchor='0 0 0' if (len(_s.argv)>2 and _s.argv[2]=='origin') else '0 0.1 0.2'
xml='''<mujoco><worldbody>
<body name="a" pos="0.1 0.2 0.3"><freejoint/><geom size="0.1"/>
 <body name="b" pos="0.3 0 0.1" quat="0.5 -0.5 0.5 0.5"><joint type="%s" axis="0.6 0.8 0" pos="%s"/><geom size="0.1"/></body>
</body></worldbody></mujoco>''' % (kind,anchor)
sys=mjcf.loads(xml)
math.normalize=opaque('math.normalize',math.normalize)
leaves,treedef=jax.tree_util.tree_flatten(sys)
paths=jax.tree_util.tree_flatten_with_path(sys)[0]
want={'.link.transform.pos':None,'.link.transform.rot':None,'.link.joint.pos':None,'.dof.motion.ang':None,'.dof.motion.vel':None}
names=[]
for (p,l) in paths:
    k=jax.tree_util.keystr(p)
    if k in want: want[k]=np.shape(l); names+=names_for(k.replace('.','_'),np.shape(l))
names+=names_for('q',(8,))+names_for('qd',(7,))+['c','s']
W=RingWorld(names)
args=[]; S={}
for (p,l) in paths:
    k=jax.tree_util.keystr(p)
    if k in want: S[k]=W.arr(k.replace('.','_'),want[k]); args.append(S[k])
    else: args.append(np.asarray(l))
Z=W.R(0); O=W.R(1)
# structural facts from load_model: free link transform cleared; free dof motion = eye; child hinge: vel=0 / slide: ang=0
S['.link.transform.pos'][0]=[Z]*3; S['.link.transform.rot'][0]=[O,Z,Z,Z]
S['.link.joint.pos'][0]=[Z]*3
eye=np.eye(6,3,-3); 
for r in range(6):
    for c_ in range(3):
        S['.dof.motion.ang'][r,c_]=W.R(int(np.eye(6,3,-3)[r,c_])); S['.dof.motion.vel'][r,c_]=W.R(int(np.eye(6,3)[r,c_]))
if kind=='hinge': S['.dof.motion.vel'][6]=[Z]*3; ax=list(S['.dof.motion.ang'][6])
else: S['.dof.motion.ang'][6]=[Z]*3; ax=list(S['.dof.motion.vel'][6])
if anchor=='0 0 0': S['.link.joint.pos'][1]=[Z]*3
q=W.arr('q',(8,)); qd=W.arr('qd',(7,))
W.unit(list(q[3:7])); W.unit(list(S['.link.transform.rot'][1])); W.unit(ax); W.rels.append(W.G['c']**2+W.G['s']**2-1)
class C2(Ctx):
    def trig_pair(self,a): return W.G['c'],W.G['s']
ctx=C2()
def h_normalize(ctx,P,ins):
    x=ins[0]; b=tuple(P['batch'])
    xs=x.reshape((-1,x.shape[-1])); out=np.empty(xs.shape,dtype=object); nrm=np.empty((xs.shape[0],),dtype=object)
    for i,row in enumerate(xs):
        n2=W.red(sum(e*e for e in row))
        if n2==1: out[i]=row; nrm[i]=O
        elif all(e==0 for e in row[1:]): out[i]=[O]+[Z]*(len(row)-1); nrm[i]=row[0]   # assumes row[0]>0
        else: raise RuntimeError('normalize contract: cannot decide norm of %s'%(n2,))
    return [out.reshape(x.shape), nrm.reshape(b)]
ctx.cut_handlers={'math.normalize':h_normalize}
def f(*flat):
    s=jax.tree_util.tree_unflatten(treedef,flat[:-2]); x,xd=kinematics.forward(s,flat[-2],flat[-1]); return x.pos,x.rot,xd.ang,xd.vel
cj=jax.make_jaxpr(f)(*leaves,jp.zeros(8),jp.zeros(7))
t=time.time()
pos,rot,ang,vel=eval_jaxpr(ctx,cj.jaxpr,cj.consts,*args,q,qd)
print('interp %.1fs'%(time.time()-t))
# spec
def qmul(u,v): return [u[0]*v[0]-u[1]*v[1]-u[2]*v[2]-u[3]*v[3], u[0]*v[1]+u[1]*v[0]+u[2]*v[3]-u[3]*v[2], u[0]*v[2]-u[1]*v[3]+u[2]*v[0]+u[3]*v[1], u[0]*v[3]+u[1]*v[2]-u[2]*v[1]+u[3]*v[0]]
def cross(a,b): return [a[1]*b[2]-a[2]*b[1], a[2]*b[0]-a[0]*b[2], a[0]*b[1]-a[1]*b[0]]
def rot_v(v,qq):
    s,u=qq[0],qq[1:]; uv=cross(u,v); uuv=cross(u,uv)
    return [v[i]+2*s*uv[i]+2*uuv[i] for i in range(3)]
c,s=W.G['c'],W.G['s']
P0=list(q[0:3]); Q0=list(q[3:7]); v0=list(qd[0:3]); w0=rot_v(list(qd[3:6]),Q0)
bp=list(S['.link.transform.pos'][1]); bq=list(S['.link.transform.rot'][1]); jpos=list(S['.link.joint.pos'][1])
p=[P0[k]+rot_v(bp,Q0)[k] for k in range(3)]; qq=qmul(Q0,bq)
if kind=='hinge':
    anc=[p[k]+rot_v(jpos,qq)[k] for k in range(3)]; qq=qmul(qq,[c,ax[0]*s,ax[1]*s,ax[2]*s]); p=[anc[k]-rot_v(jpos,qq)[k] for k in range(3)]
    axw=rot_v(ax,qq); w1=[w0[k]+axw[k]*qd[6] for k in range(3)]
    # velocity of child origin: v0 + w0 x (p-P0) + (hinge about anchor: w_rel x (p - anc))
    r=[p[k]-P0[k] for k in range(3)]; rel=[p[k]-anc[k] for k in range(3)]
    wr=[axw[k]*qd[6] for k in range(3)]
    v1=[v0[k]+cross(w0,r)[k]+cross(wr,rel)[k] for k in range(3)]
else:
    d=rot_v(ax,qq); p=[p[k]+d[k]*q[7] for k in range(3)]
    w1=w0; r=[p[k]-P0[k] for k in range(3)]
    v1=[v0[k]+cross(w0,r)[k]+d[k]*qd[6] for k in range(3)]
def chk(nm,got,exp):
    res=[]
    for g,e in zip(got,exp):
        d=W.red(g-e); res.append('0' if d==0 else 'NONZERO(%d terms)'%len(d))
    print(nm,res)
chk('root pos',pos[0],P0); chk('root rot',rot[0],Q0); chk('root ang',ang[0],w0); chk('root vel',vel[0],v0)
chk('child pos',pos[1],p); chk('child rot',rot[1],qq); chk('child ang',ang[1],w1); chk('child vel',vel[1],v1)
