import jax, jax.numpy as jp, numpy as np
jax.config.update('jax_enable_x64', True)
from brax.io import mjcf
from brax.positional import pipeline as pp
def mk(limited, collide):
    rng='range="-3 3" limited="true"' if limited else ''
    ct='' if collide else 'contype="0" conaffinity="0"'
    return mjcf.loads(f'''<mujoco><option timestep="0.01"/><worldbody>
    <geom type="plane" size="5 5 0.1" pos="0 0 -5" {ct}/>
    <body name="a" pos="0 0 1" quat="0.5 0.5 0.5 0.5"><joint type="hinge" axis="0 1 0" {rng}/><geom size="0.05 0.3" type="capsule" fromto="0 0 0 0.5 0 0" {ct}/>
      <body name="b" pos="0.5 0 0"><joint type="hinge" axis="0 0.6 0.8" /><geom size="0.05" type="capsule" fromto="0 0 0 0.4 0 0" {ct}/></body>
    </body></worldbody></mujoco>''')
for limited in (False,True):
    for collide in (False,True):
        sys=mk(limited,collide)
        st=jax.jit(pp.init)(sys, sys.init_q+jp.array([0.3,-0.4]), jp.array([2.0,-3.0]))
        step=jax.jit(pp.step)
        for _ in range(20): st=step(sys,st,jp.zeros(sys.act_size()))
        print('limited',limited,'collide',collide,'|rot|-1 =',np.abs(np.linalg.norm(np.asarray(st.x.rot),axis=1)-1).max(), 'q',np.asarray(st.q), 'j.pos max',np.abs(np.asarray(st.j.pos)).max())
