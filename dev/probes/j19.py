"""C13 probe: AST-rewritten _offset/_fuse_bodies on symbolic poses, concrete tree"""
import ast, inspect, numpy as np, z3, types
from xml.etree import ElementTree
import brax.io.mjcf as M
src=inspect.getsource(M._offset)+"\n"+inspect.getsource(M._fuse_bodies)
tree=ast.parse(src)
hits={'fromstring':0,'fmt':0,'fromto_split':0}
class RW(ast.NodeTransformer):
    def visit_Call(self,node):
        self.generic_visit(node)
        # np.fromstring(X, sep=' ') -> __parse(X)
        if isinstance(node.func,ast.Attribute) and node.func.attr=='fromstring':
            hits['fromstring']+=1
            return ast.Call(ast.Name('__parse',ast.Load()),[node.args[0]],[])
        # ' '.join('%f' % i for i in X) -> __fmt(X)
        if isinstance(node.func,ast.Attribute) and node.func.attr=='join' and node.args and isinstance(node.args[0],ast.GeneratorExp):
            g=node.args[0]
            if isinstance(g.elt,ast.BinOp) and isinstance(g.elt.op,ast.Mod):
                hits['fmt']+=1
                return ast.Call(ast.Name('__fmt',ast.Load()),[g.generators[0].iter],[])
        # ' '.join(fromto.split(' ')[a:b]) -> __slice(fromto,a,b)
        if isinstance(node.func,ast.Attribute) and node.func.attr=='join' and node.args and isinstance(node.args[0],ast.Subscript):
            sub=node.args[0]
            if isinstance(sub.value,ast.Call) and isinstance(sub.value.func,ast.Attribute) and sub.value.func.attr=='split':
                hits['fromto_split']+=1
                return ast.Call(ast.Name('__slice',ast.Load()),[sub.value.func.value,sub.slice.lower,sub.slice.upper],[])
        return node
new=ast.fix_missing_locations(RW().visit(tree))
print(hits)
# symbolic "strings": tuples of z3 reals wrapped
class SV(tuple): pass
def parse(x):
    if isinstance(x,SV): return np.array(list(x),dtype=object)
    return np.array([z3.RealVal(t) for t in x.split()],dtype=object)
def fmt(x): return SV(list(x))
def slc(x,a,b): return SV(list(x)[a:b])
ns=dict(vars(M)); ns.update({'__parse':parse,'__fmt':fmt,'__slice':slc})
exec(compile(new,'<rewritten mjcf>','exec'),ns)
fuse=ns['_fuse_bodies']
# path forking for (cpos != 0).any(): proxy bool
decisions=[]; pc=[]
class SB:
    def __init__(s,e): s.e=e
    def __bool__(s):
        d=decisions.pop(0) if decisions else True
        pc.append(s.e if d else z3.Not(s.e)); return d
# z3 exprs compared with != give BoolRef whose __bool__ is structural; wrap: make numpy object array elements a proxy class
class SN:
    def __init__(s,e): s.e=e
    def __ne__(s,o): return SB(s.e!=(o.e if isinstance(o,SN) else o))
    def __eq__(s,o): return SB(s.e==(o.e if isinstance(o,SN) else o))
    def __hash__(s): return hash(s.e)
    def _b(f):
        def g(s,o):
            if isinstance(o,np.ndarray): return NotImplemented
            return SN(f(s.e,o.e if isinstance(o,SN) else (z3.RealVal(str(o)) if not isinstance(o,z3.ExprRef) else o)))
        return g
    __add__=_b(lambda a,b:a+b); __radd__=_b(lambda a,b:b+a); __sub__=_b(lambda a,b:a-b); __rsub__=_b(lambda a,b:b-a); __mul__=_b(lambda a,b:a*b); __rmul__=_b(lambda a,b:b*a)
    def __neg__(s): return SN(-s.e)
def parse(x):
    if isinstance(x,SV): return np.array(list(x),dtype=object)
    return np.array([SN(z3.RealVal(t)) for t in x.split()],dtype=object)
ns['__parse']=parse
def symv(name,n): return SV([SN(z3.Real('%s_%d'%(name,i))) for i in range(n)])
def build():
    w=ElementTree.Element('worldbody')
    b=ElementTree.SubElement(w,'body',{'name':'fix'}); b.attrib['pos']=symv('bp',3); b.attrib['quat']=symv('bq',4)
    g=ElementTree.SubElement(b,'geom',{'name':'g'}); g.attrib['pos']=symv('gp',3); g.attrib['quat']=symv('gq',4)
    return w
import itertools
for dec in ([True],[False]):
    decisions[:]=dec; pc.clear()
    w=build(); fuse(w)
    g=w.find('geom')
    print('decision',dec,'pc',pc,'-> geom attrib keys',sorted(g.attrib), 'pos0=',g.attrib['pos'][0].e if isinstance(g.attrib['pos'],SV) else g.attrib['pos'])
