import time, numpy as np, jax, jax.numpy as jp, sys as _s, z3
import jx2, ringalg
from ringalg import *
from jx2 import eval_jaxpr, Ctx
from opq import opaque
from brax import math, base, kinematics
from brax.io import mjcf
from brax.generalized import dynamics, mass as gmass
from brax.generalized.base import State
from sympy.polys.rings import PolyElement
ringalg.install()
kind=_s.argv[1] if len(_s.argv)>1 else 'slide'
xml='''<mujoco><worldbody>
 <body name="b" pos="0.3 0 0.1" quat="0.5 -0.5 0.5 0.5"><joint type="%s" axis="0.6 0.8 0" pos="0 0.1 0.2" armature="0.1"/><geom size="0.1 0.2" type="capsule" pos="0.1 0.2 0.3" quat="0.5 0.5 0.5 -0.5"/></body>
</worldbody></mujoco>''' % (kind,)
sys=mjcf.loads(xml)
math.normalize=opaque('math.normalize',math.normalize)
leaves,treedef=jax.tree_util.tree_flatten(sys)
paths=jax.tree_util.tree_flatten_with_path(sys)[0]
want={k:None for k in ['.link.transform.pos','.link.transform.rot','.link.joint.pos','.dof.motion.ang','.dof.motion.vel','.link.inertia.transform.pos','.link.inertia.transform.rot','.link.inertia.i','.link.inertia.mass','.dof.armature']}
names=[]
for (p,l) in paths:
    k=jax.tree_util.keystr(p)
    if k in want: want[k]=np.shape(l); names+=names_for(k.replace('.','_'),np.shape(l))
names+=['q_0','qd_0','c','s']
W=RingWorld(names); Z=W.R(0); O=W.R(1)
args=[]; S={}
for (p,l) in paths:
    k=jax.tree_util.keystr(p)
    if k in want: S[k]=W.arr(k.replace('.','_'),want[k]); args.append(S[k])
    else: args.append(np.asarray(l))
if kind=='hinge': S['.dof.motion.vel'][0]=[Z]*3; ax=list(S['.dof.motion.ang'][0])
else: S['.dof.motion.ang'][0]=[Z]*3; ax=list(S['.dof.motion.vel'][0])
I=S['.link.inertia.i']
for a in range(3):
    for b in range(3):
        if a!=b: I[0,a,b]=Z
from sympy import QQ as _QQ
if len(_s.argv)>3 and _s.argv[3]=='concrete':
    S['.link.transform.rot'][0]=[W.R(_QQ(2,7)),W.R(_QQ(3,7)),W.R(_QQ(6,7)),Z]          # 4+9+36=49
    S['.link.inertia.transform.rot'][0]=[W.R(_QQ(1,3)),W.R(_QQ(2,3)),Z,W.R(_QQ(-2,3))]   # 1+4+4=9
q=W.arr('q',(1,)); qd=W.arr('qd',(1,))
if not (len(_s.argv)>3 and _s.argv[3]=='concrete'):
    W.unit(list(S['.link.transform.rot'][0])); W.unit(list(S['.link.inertia.transform.rot'][0]))
W.unit(ax); W.rels.append(W.G['c']**2+W.G['s']**2-1)
class C2(Ctx):
    def trig_pair(self,a): return W.G['c'],W.G['s']
ctx=C2()
def h_normalize(ctx,P,ins):
    x=ins[0]; b=tuple(P['batch'])
    xs=x.reshape((-1,x.shape[-1])); out=np.empty(xs.shape,dtype=object); nrm=np.empty((xs.shape[0],),dtype=object)
    for i,row in enumerate(xs):
        n2=W.red(sum(e*e for e in row))
        if n2==1: out[i]=row; nrm[i]=O
        elif all(e==0 for e in row[1:]): out[i]=[O]+[Z]*(len(row)-1); nrm[i]=row[0]
        else: raise RuntimeError('normalize contract: cannot decide norm')
    return [out.reshape(x.shape), nrm.reshape(b)]
ctx.cut_handlers={'math.normalize':h_normalize}
def rdiv(a,b):
    if isinstance(b,PolyElement):
        b2=W.red(b)
        if b2.is_ground: return a*(1/b2.coeff(1)) if isinstance(a,PolyElement) else W.R(a)*(1/b2.coeff(1))
        # exact division attempt
        if isinstance(a,PolyElement):
            qq,r=divmod(a,b2)
            if r==0: return qq
        raise RuntimeError('ring div: non-constant denominator %s'%str(b2)[:200])
    return a*(1/b) if isinstance(a,PolyElement) else a/b
ctx.div=rdiv
def post_mul(p):
    if isinstance(p,PolyElement) and len(p)>int(_s.argv[2] if len(_s.argv)>2 else 60): return W.red(p)
    return p
ctx.post_mul=post_mul
# exact division in ring
import operator as op
_old_ew=jx2.ew
def f(*flat):
    s=jax.tree_util.tree_unflatten(treedef,flat[:-2]); q_,qd_=flat[-2],flat[-1]
    x,xd=kinematics.forward(s,q_,qd_); st=State.init(q_,qd_,x,xd); st=dynamics.transform_com(s,st)
    return st.cdof.ang, st.cdof.vel, st.root_com
cj=jax.make_jaxpr(f)(*leaves,jp.zeros(1),jp.zeros(1))
print('eqns',len(cj.jaxpr.eqns))
# patch div for ring: exact quotient
src=open('jx2.py').read()
t=time.time()
try:
    from jax._src.interpreters import partial_eval as pe
    j2,used=pe.dce_jaxpr(cj.jaxpr,[True,True,True]); args2=[a for a,u in zip(list(args)+[q,qd],used) if u]
    print('dce',len(j2.eqns))
    cang,cvel,rcom=eval_jaxpr(ctx,j2,cj.consts,*args2)
    bq=list(S['.link.transform.rot'][0])
    def cross(a,b): return [a[1]*b[2]-a[2]*b[1], a[2]*b[0]-a[0]*b[2], a[0]*b[1]-a[1]*b[0]]
    def rot_v(v,qq):
        s_,u=qq[0],qq[1:]; uv=cross(u,v); uuv=cross(u,uv)
        return [v[i]+2*s_*uv[i]+2*uuv[i] for i in range(3)]
    aw=rot_v(ax,bq)
    if kind=='slide':
        print('cdof.vel - R*axis:',[ 'ZERO' if W.red(cvel[0][k]-aw[k])==0 else 'NONZERO' for k in range(3)], ' cdof.ang:',[str(W.red(cang[0][k])) for k in range(3)])
    raise SystemExit
except Exception as e:
    import traceback; traceback.print_exc(); raise SystemExit
print('interp %.1fs'%(time.time()-t))
print('M00 terms',len(M[0,0]))
# spec KE for qd=1: hinge: w = R axis ; v_com = w x (com - anchor); KE2 = m|v|^2 + w^T R_i I R_i^T w + armature ; slide: m*|axis|^2 + armature
def qmul(u,v): return [u[0]*v[0]-u[1]*v[1]-u[2]*v[2]-u[3]*v[3], u[0]*v[1]+u[1]*v[0]+u[2]*v[3]-u[3]*v[2], u[0]*v[2]-u[1]*v[3]+u[2]*v[0]+u[3]*v[1], u[0]*v[3]+u[1]*v[2]-u[2]*v[1]+u[3]*v[0]]
def cross(a,b): return [a[1]*b[2]-a[2]*b[1], a[2]*b[0]-a[0]*b[2], a[0]*b[1]-a[1]*b[0]]
def rot_v(v,qq):
    s,u=qq[0],qq[1:]; uv=cross(u,v); uuv=cross(u,uv)
    return [v[i]+2*s*uv[i]+2*uuv[i] for i in range(3)]
def qinv(q_): return [q_[0],-q_[1],-q_[2],-q_[3]]
m=S['.link.inertia.mass'][0]; arm=S['.dof.armature'][0]
if kind=='slide':
    ke2=m*sum(a*a for a in ax)+arm   # = m + arm modulo unit axis
else:
    # body-frame computation: w_b = axis (unit), com offset from anchor in body frame: ipos - jpos
    ipos=list(S['.link.inertia.transform.pos'][0]); jpos=list(S['.link.joint.pos'][0]); iq=list(S['.link.inertia.transform.rot'][0])
    r=[ipos[k]-jpos[k] for k in range(3)]; v=cross(ax,r)
    wi=rot_v(ax,qinv(iq))   # axis in inertia frame
    ke2=m*sum(x*x for x in v)+sum(I[0,k,k]*wi[k]*wi[k] for k in range(3))+arm
d=W.red(M[0,0]-ke2)
print('M00 - 2KE(qd=1):', 'ZERO' if d==0 else 'NONZERO (%d terms)'%len(d))
