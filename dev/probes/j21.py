import sympy as sp, time
# case split x>=0 / x<0 ; softplus(y)=max(y,0)+log1p(exp(-|y|)) as in the traced logaddexp
for sign in ('nonneg','neg'):
    x=sp.Symbol('x',nonnegative=True) if sign=='nonneg' else -sp.Symbol('xm',positive=True)
    y=-2*x
    softplus=sp.Max(y,0)+sp.log(1+sp.exp(-sp.Abs(y)))
    code=2*(sp.log(2)-x-softplus)
    th=(1-sp.exp(-2*x))/(1+sp.exp(-2*x))
    spec=sp.log(1-th**2)
    t=time.time()
    d=sp.simplify(sp.expand_log(sp.logcombine(code-spec,force=True),force=True))
    d2=sp.simplify(sp.expand_log(sp.simplify(code)-sp.expand_log(sp.log(sp.factor(sp.cancel(sp.together(1-th**2)))),force=True),force=True))
    print(sign,'residue:',d,'|',d2,'%.2fs'%(time.time()-t))
