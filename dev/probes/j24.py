import time, numpy as np, jax, jax.numpy as jp, sys as _s, z3
import jx2, ringalg
from ringalg import *
from jx2 import eval_jaxpr, Ctx, ew, lift, is_sym
from opq import opaque
from brax import math, base, kinematics
from brax.io import mjcf
from sympy.polys.rings import PolyElement
ringalg.install()
kind='hinge'
xml='''<mujoco><worldbody>
 <body name="b" pos="0.3 0 0.1" quat="0.5 -0.5 0.5 0.5"><joint type="hinge" axis="0.6 0.8 0" pos="0 0.1 0.2"/><geom size="0.1"/></body>
</worldbody></mujoco>'''
sys=mjcf.loads(xml)
math.normalize=opaque('math.normalize',math.normalize)
math.orthogonals=opaque('math.orthogonals',math.orthogonals)
math.signed_angle=opaque('math.signed_angle',math.signed_angle)
leaves,treedef=jax.tree_util.tree_flatten(sys)
paths=jax.tree_util.tree_flatten_with_path(sys)[0]
want={k:None for k in ['.link.transform.pos','.link.transform.rot','.link.joint.pos']}
names=[]
for (p,l) in paths:
    k=jax.tree_util.keystr(p)
    if k in want: want[k]=np.shape(l); names+=names_for(k.replace('.','_'),np.shape(l))
names+=['q_0','qd_0','c','s']+['p_%d'%i for i in range(4)]
W=RingWorld(names); Z=W.R(0); O=W.R(1)
args=[]; S={}
# frame parametrisation: axis a = R(p) e_x ; orthogonals cut returns b=R(p) e_y, c=R(p) e_z
pq=[W.G['p_%d'%i] for i in range(4)]
def cross(a,b): return [a[1]*b[2]-a[2]*b[1], a[2]*b[0]-a[0]*b[2], a[0]*b[1]-a[1]*b[0]]
def rot_v(v,qq):
    s_,u=qq[0],qq[1:]; uv=cross(u,v); uuv=cross(u,uv)
    return [v[i]+2*s_*uv[i]+2*uuv[i] for i in range(3)]
A=rot_v([O,Z,Z],pq); Bv=rot_v([Z,O,Z],pq); Cv=rot_v([Z,Z,O],pq)
for (p,l) in paths:
    k=jax.tree_util.keystr(p)
    if k in want: S[k]=W.arr(k.replace('.','_'),want[k]); args.append(S[k])
    elif k=='.dof.motion.ang':
        a=np.empty((1,3),dtype=object); a[0]=A; args.append(a)
    elif k=='.dof.motion.vel':
        a=np.empty((1,3),dtype=object); a[0]=[Z]*3; args.append(a)
    else: args.append(np.asarray(l))
q=W.arr('q',(1,)); qd=W.arr('qd',(1,))
W.unit(pq); W.unit(list(S['.link.transform.rot'][0])); W.rels.append(W.G['c']**2+W.G['s']**2-1)
class C2(Ctx):
    def trig_pair(self,a): return W.G['c'],W.G['s']
ctx=C2()
def rows(x): return x.reshape((-1,x.shape[-1]))
def h_normalize(ctx,P,ins):
    x=ins[0]; b=tuple(P['batch']); xs=rows(x); out=np.empty(xs.shape,dtype=object); nrm=np.empty((xs.shape[0],),dtype=object)
    for i,row in enumerate(xs):
        n2=W.red(sum(e*e for e in row))
        if n2==1: out[i]=row; nrm[i]=O
        else: raise RuntimeError('normalize: norm^2 = %s'%str(n2)[:300])
    return [out.reshape(x.shape), nrm.reshape(b)]
def h_orth(ctx,P,ins):
    a=ins[0]; assert all(W.red(x-y)==0 for x,y in zip(a.reshape(-1),A)),'orthogonals called on unexpected vector'
    b=np.empty((3,),dtype=object); b[:]=Bv; c=np.empty((3,),dtype=object); c[:]=Cv
    return [b.reshape(tuple(P['batch'])+(3,)),c.reshape(tuple(P['batch'])+(3,))]
calls=[]
def h_sa(ctx,P,ins):
    axis,rp,rc=[rows(x)[0] for x in ins]
    num=W.red(sum(x*y for x,y in zip(cross(list(rp),list(rc)),axis))); den=W.red(sum(x*y for x,y in zip(rp,rc)))
    calls.append((num,den))
    o=np.empty(tuple(P['batch']),dtype=object); o[...]=W.G['q_0']  # placeholder result (checked below via axiom)
    return [o]
ctx.cut_handlers={'math.normalize':h_normalize,'math.orthogonals':h_orth,'math.signed_angle':h_sa}
def rdiv(a,b):
    if isinstance(b,PolyElement):
        b2=W.red(b)
        if b2.is_ground: return a*(1/b2.coeff(1))
        raise RuntimeError('ring div nonconst')
    return a*(1/b)
ctx.div=rdiv
# branch hints for comparisons in ring mode
class Cond: 
    def __init__(s,v): s.v=v
import operator as op
def _cmp(k):
    def g(a,b):
        d=a-b if isinstance(a,PolyElement) or isinstance(b,PolyElement) else None
        if d is None: return {'lt':op.lt,'le':op.le,'gt':op.gt,'ge':op.ge,'eq':op.eq,'ne':op.ne}[k](a,b)
        d=W.red(d)
        if d.is_ground:
            v=d.coeff(1) if d!=0 else 0
            return {'lt':v<0,'le':v<=0,'gt':v>0,'ge':v>=0,'eq':v==0,'ne':v!=0}[k]
        if k=='ne': return True      # HINT (probe only): generic component of a unit vector
        if k=='eq': return False
        raise RuntimeError('ring cmp %s on %s'%(k,str(d)[:100]))
    return g
jx2.CMP={k:_cmp(k) for k in ('lt','le','gt','ge','eq','ne')}
def f(*flat):
    s=jax.tree_util.tree_unflatten(treedef,flat[:-2]); q_,qd_=flat[-2],flat[-1]
    x,xd=kinematics.forward(s,q_,qd_); j,jd,_,_=kinematics.world_to_joint(s,x,xd); q2,qd2=kinematics.inverse(s,j,jd)
    return q2,qd2,j.pos,j.rot
cj=jax.make_jaxpr(f)(*leaves,jp.zeros(1),jp.zeros(1))
from jax._src.interpreters import partial_eval as pe
j2,used=pe.dce_jaxpr(cj.jaxpr,[True,False,True,True]); args2=[a for a,u in zip(list(args)+[q,qd],used) if u]
print('eqns',len(cj.jaxpr.eqns),'->',len(j2.eqns))
t=time.time()
try:
    q2,jpos,jrot=eval_jaxpr(ctx,j2,cj.consts,*args2)
    print('interp %.1fs'%(time.time()-t))
    c,s=W.G['c'],W.G['s']
    print('j.pos:',[str(W.red(e)) for e in jpos[0]])
    print('j.rot - (c, a*s):',[str(W.red(e-x)) for e,x in zip(jrot[0],[c,A[0]*s,A[1]*s,A[2]*s])])
    for num,den in calls: print('signed_angle num - 2sc:',W.red(num-2*s*c),' den - (c^2-s^2):',W.red(den-(c*c-s*s)))
except Exception as e:
    import traceback; traceback.print_exc()
