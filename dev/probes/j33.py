"""C06 probe: spring._one_dof limits_inert (relational), axis_angle_ang cut as UF, inf limits"""
import time, z3, numpy as np, jax, jax.numpy as jp
import jx2
from jx2 import *
from opq import opaque
from brax import kinematics, math
from brax.base import Link, Transform, Motion, DoF, Inertia
from brax.spring import joints as sj
from brax.io import mjcf
sys=mjcf.loads('''<mujoco><worldbody><body><joint type="hinge" axis="0 0.6 0.8" range="-1 1" limited="true"/><geom size="0.1"/></body></worldbody></mujoco>''')
kinematics.axis_angle_ang=opaque('kinematics.axis_angle_ang',kinematics.axis_angle_ang)
kinematics.link_to_joint_frame=opaque('kinematics.link_to_joint_frame',kinematics.link_to_joint_frame)
link=jax.tree.map(lambda x:x[0],sys.link); dof=jax.tree.map(lambda x:x[0:1],sys.dof)
j=Transform(pos=jp.zeros(3),rot=jp.array([1.,0,0,0])); jd=Motion(ang=jp.zeros(3),vel=jp.zeros(3)); tau=jp.zeros(1)
def run(limited):
    d=dof if limited else dof.replace(limit=None)
    leaves,treedef=jax.tree_util.tree_flatten((link,j,jd,d,tau))
    f=lambda *fl: (lambda F:(F.ang,F.vel))(sj._one_dof(*jax.tree_util.tree_unflatten(treedef,fl)))
    cj=jax.make_jaxpr(f)(*leaves)
    paths=jax.tree_util.tree_flatten_with_path((link,j,jd,d,tau))[0]
    return cj,[jax.tree_util.keystr(p) for p,_ in paths],[np.asarray(l) for _,l in paths]
class C(Ctx): pass
ctx=C()
# UF-style cut: outputs are functions of the inputs -> same symbols in both runs when inputs equal: key by name+input term ids
memo={}
def h_uf(ctx,P,ins):
    key=(P['name'],tuple(str(z3.simplify(e)) if isinstance(e,z3.ExprRef) else repr(e) for x in ins for e in lift(x).reshape(-1)))
    if key not in memo:
        memo[key]=[sym('%s!o%d'%(P['name'],i),tuple(P['batch'])+tuple(sh)) for i,sh in enumerate(P['out_shapes'])]
    return memo[key]
ctx.cut_handlers={'kinematics.axis_angle_ang':h_uf,'kinematics.link_to_joint_frame':h_uf}
S={}
def args_for(names,vals):
    out=[]
    for n,v in zip(names,vals):
        if n.endswith('motion.vel'): out.append(v)   # hinge: concrete zero prismatic axis
        elif v.dtype.kind=='f' and not n.endswith('limit[0]') and not n.endswith('limit[1]'):
            if n not in S: S[n]=sym(n.replace('.','_').replace('[','_').replace(']','_'),v.shape)
            out.append(S[n])
        elif n.endswith('limit[0]'):
            S['lo']=S.get('lo',sym('lo',v.shape)); out.append(S['lo'])
        elif n.endswith('limit[1]'):
            S['hi']=S.get('hi',sym('hi',v.shape)); out.append(S['hi'])
        else: out.append(v)
    return out
cjL,nL,vL=run(True); cjU,nU,vU=run(False)
print('leaves limited',len(nL),'unlimited',len(nU))
aL,vLo=eval_jaxpr(ctx,cjL.jaxpr,cjL.consts,*args_for(nL,vL))
aU,vUo=eval_jaxpr(ctx,cjU.jaxpr,cjU.consts,*args_for(nU,vU))
# precondition: angle psi (2nd output group of axis_angle_ang, element 0) and slide coordinate inside limits
calls=[k for k in memo if k[0]=='kinematics.axis_angle_ang']
psi=memo[calls[0]][3]   # outputs flattened: axis(3 arrays), angles(3 scalars)...
print('n outs of axis_angle_ang',len(memo[calls[0]]),[o.shape for o in memo[calls[0]]])
lo,hi=S['lo'][0],S['hi'][0]
psi=memo[calls[0]][3].item()
jposn=[n for n in nL if n.endswith('].pos') and '[1]' in n]
# slide coordinate xp = dot(j.pos, joint_frame.vel[0]) -- for a hinge is_translational is False so vel-limit term is masked
pre=[lo<=psi, psi<=hi]
goals=[x!=y for x,y in zip(list(aL)+list(vLo),list(aU)+list(vUo))]
s=z3.Solver(); s.set('timeout',120000); s.add(*pre); s.add(*ctx.assume); s.add(z3.Or(*goals)); t=time.time(); print('limits_inert (hinge, psi inside):',s.check(),'%.2fs'%(time.time()-t))
# canary: without the precondition it must be refutable
s=z3.Solver(); s.set('timeout',120000); s.add(*ctx.assume); s.add(z3.Or(*goals)); t=time.time(); print('canary (no precondition):',s.check(),'%.2fs'%(time.time()-t))
