"""Engine P probe: path-exhaustive execution of real validate_model on proxy values"""
import z3, numpy as np, types, itertools
class Fork(Exception): pass
class PathCtx:
    def __init__(self): self.decisions=[]; self.pos=0; self.pc=[]
CUR=None
def decide(cond):
    global CUR
    c=CUR
    if c.pos<len(c.decisions):
        d=c.decisions[c.pos]
    else:
        # choose True first if feasible
        s=z3.Solver(); s.add(*c.pc); s.add(cond)
        d = s.check()==z3.sat
        c.decisions.append(d)
    c.pos+=1
    c.pc.append(cond if d else z3.Not(cond))
    return d
class SB:
    def __init__(s,e): s.e=e
    def __bool__(s): return decide(s.e)
    def __invert__(s): return SB(z3.Not(s.e))
    def __and__(s,o): return SB(z3.And(s.e,o.e if isinstance(o,SB) else z3.BoolVal(bool(o))))
    def __or__(s,o): return SB(z3.Or(s.e,o.e if isinstance(o,SB) else z3.BoolVal(bool(o))))
def E(o): return o.e if isinstance(o,SN) else (z3.RealVal(str(o)) if not isinstance(o,z3.ExprRef) else o)
class SN:
    def __init__(s,e): s.e=e
    def __eq__(s,o):
        if isinstance(o,np.ndarray): return NotImplemented
        return SB(s.e==E(o))
    def __ne__(s,o):
        if isinstance(o,np.ndarray): return NotImplemented
        return SB(s.e!=E(o))
    def __lt__(s,o):
        if isinstance(o,np.ndarray): return NotImplemented
        return SB(s.e<E(o))
    def __le__(s,o):
        if isinstance(o,np.ndarray): return NotImplemented
        return SB(s.e<=E(o))
    def __gt__(s,o):
        if isinstance(o,np.ndarray): return NotImplemented
        return SB(s.e>E(o))
    def __ge__(s,o):
        if isinstance(o,np.ndarray): return NotImplemented
        return SB(s.e>=E(o))
    def __hash__(s): return hash(s.e)
    def __bool__(s): return decide(s.e!=0)
def symarr(name,shape):
    a=np.empty(shape,dtype=object)
    for idx in np.ndindex(*shape): a[idx]=SN(z3.Real(name+''.join('_%d'%i for i in idx)))
    return a
import brax.io.mjcf as M
def make_mj():
    opt=types.SimpleNamespace(integrator=SN(z3.Real('integrator')),cone=SN(z3.Real('cone')),wind=symarr('wind',(3,)),impratio=SN(z3.Real('impratio')))
    mj=types.SimpleNamespace(opt=opt, geom_fluid=symarr('fluid',(1,2)), actuator_biastype=symarr('biastype',(2,)), actuator_gaintype=symarr('gaintype',(2,)),
        actuator_trntype=symarr('trntype',(2,)), geom_solmix=symarr('solmix',(2,)), geom_priority=symarr('prio',(2,)),
        jnt_type=np.array([3,2]), qpos0=symarr('qpos0',(2,)), jnt_bodyid=np.array([1,1]), jnt_pos=symarr('jpos',(2,3)),
        jnt_range=np.zeros((2,2)), jnt_limited=np.array([0,0]), jnt_stiffness=symarr('stiff',(2,)),
        geom_type=np.array([5,2]), geom_contype=np.array([1,1]), geom_conaffinity=np.array([1,1]), geom_size=symarr('gsize',(2,3)))
    return mj
paths=[]
stack=[[]]
import time; t=time.time()
while stack:
    dec=stack.pop()
    CUR=PathCtx(); CUR.decisions=list(dec)
    try:
        M.validate_model(make_mj()); out='accept'
    except (NotImplementedError,RuntimeError) as ex: out='reject: '+str(ex)[:50]
    paths.append((list(CUR.pc),out))
    if len(paths)%50==0: print(len(paths),len(stack),out,flush=True)
    # schedule siblings: for each decision made beyond the prefix, flip it if feasible
    for i in range(len(dec),len(CUR.decisions)):
        alt=CUR.decisions[:i]+[not CUR.decisions[i]]
        s=z3.Solver(); s.add(*CUR.pc[:i]); cond=CUR.pc[i]; s.add(z3.Not(cond))
        if s.check()==z3.sat: stack.append(alt)
print(len(paths),'paths', '%.1fs'%(time.time()-t))
from collections import Counter
print(Counter(o for _,o in paths))
acc=[pc for pc,o in paths if o=='accept']
print('accept paths',len(acc)); 
# obligation example: impratio != 1 -> never accepted
imp=z3.Real('impratio')
for pc in acc:
    s=z3.Solver(); s.add(*pc); s.add(imp!=1); print('accept & impratio!=1:', s.check())
