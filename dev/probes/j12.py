import time, z3, numpy as np, jax, jax.numpy as jp
import jx2
from jx2 import *
from opq import opaque, opaque_p
from brax import math, base, kinematics
from brax.io import mjcf
from brax.spring import joints as sj, pipeline as sp
# teach interpreter the opaque primitive: fresh symbols
_old=jx2.eval_jaxpr
xml='''<mujoco><worldbody>
<body name="a" pos="0.1 0.2 0.3"><freejoint/><geom size="0.1"/>
 <body name="b" pos="0.3 0 0.1" quat="0.5 -0.5 0.5 0.5"><joint type="hinge" axis="0.6 0.8 0" pos="0 0.1 0.2" range="-1 1"/><geom size="0.1"/>
   <body name="c" pos="0.3 0 0.1"><joint type="slide" axis="0.6 0.8 0" pos="0 0.1 0.2"/><joint type="hinge" axis="0 0 1" pos="0 0.1 0.2"/><geom size="0.1"/></body>
 </body>
 <body name="d" pos="0.3 0 0.1" quat="0.5 -0.5 0.5 0.5"><joint type="hinge" axis="0.6 0.8 0" pos="0 0.1 0.2"/><geom size="0.1"/></body>
</body></worldbody></mujoco>'''
sys=mjcf.loads(xml)
print(sys.link_types, sys.link_parents)
for n in ('_one_dof','_two_dof','_three_dof'):
    setattr(sj,n,opaque('spring.joints.'+n,getattr(sj,n)))
st=jax.jit(sp.init)(sys, sys.init_q, jp.zeros(sys.qd_size()))
def f(st,tau):
    xf=sj.resolve(sys,st,tau); return xf.vel, xf.ang
cj=jax.make_jaxpr(f)(st,jp.zeros(sys.qd_size()))
print(len(cj.jaxpr.eqns),[e.primitive.name+str(e.params['batch']) for e in cj.jaxpr.eqns if e.primitive.name=='opaque'])
leaves,tree=jax.tree_util.tree_flatten((st,jp.zeros(sys.qd_size())))
paths=jax.tree_util.tree_flatten_with_path((st,jp.zeros(sys.qd_size())))[0]
args=[]
for i,((p,l)) in enumerate(paths):
    l=np.asarray(l)
    if l.dtype.kind=='f': args.append(sym('in%d'%i,l.shape))
    else: args.append(l)
ctx=Ctx(); t=time.time()
vel,ang=eval_jaxpr(ctx,cj.jaxpr,cj.consts,*args)
print('interp %.2fs'%(time.time()-t))
tot=[sum(vel[i][k] for i in range(vel.shape[0])) for k in range(3)]
s=z3.Solver(); s.set('timeout',60000); s.add(*ctx.assume); s.add(z3.Or(*[t_!=0 for t_ in tot]))
t=time.time(); print('sum of internal forces == 0:', s.check(), '%.2fs'%(time.time()-t))
