"""prototype: jaxpr interpreter over numpy object arrays of z3 terms"""
import numpy as np, jax, jax.numpy as jp, z3, time, itertools
jax.config.update('jax_enable_x64', True)
from jax.extend import core as jcore

def sym(name, shape):
    a = np.empty(shape, dtype=object)
    for idx in np.ndindex(*shape):
        a[idx] = z3.Real(name + ''.join('_%d'%i for i in idx))
    return a

class Ctx:
    def __init__(self): self.assume=[]; self.oblig=[]; self.n=0
    def fresh(self, p='t'):
        self.n+=1; return z3.Real('%s!%d'%(p,self.n))

def R(x):
    if isinstance(x,(int,float,np.floating,np.integer)):
        from fractions import Fraction
        f=Fraction(float(x)) if not isinstance(x,(int,np.integer)) else Fraction(int(x))
        return z3.RealVal(str(f))
    return x

def lift(v):
    a=np.asarray(v)
    if a.dtype==object: return a
    out=np.empty(a.shape,dtype=object)
    for idx in np.ndindex(*a.shape):
        e=a[idx]
        if a.dtype==bool: out[idx]=z3.BoolVal(bool(e))
        elif np.issubdtype(a.dtype,np.integer): out[idx]=z3.IntVal(int(e))
        else: out[idx]=R(float(e))
    return out

def ew(f,*xs):
    xs=[lift(x) for x in xs]
    xs=np.broadcast_arrays(*xs)
    out=np.empty(xs[0].shape,dtype=object)
    for idx in np.ndindex(*out.shape):
        out[idx]=f(*[x[idx] for x in xs])
    return out

def eval_jaxpr(ctx, jaxpr, consts, *args):
    env={}
    def read(v):
        if isinstance(v, jcore.Literal): return lift(v.val)
        return env[v]
    for v,c in zip(jaxpr.constvars, consts): env[v]=lift(c)
    for v,a in zip(jaxpr.invars,args): env[v]=lift(a)
    for eqn in jaxpr.eqns:
        ins=[read(v) for v in eqn.invars]
        p=eqn.primitive.name; P=eqn.params
        if p in ('jit','pjit','closed_call','core_call'):
            cj=P['jaxpr']; outs=eval_jaxpr(ctx,cj.jaxpr,cj.consts,*ins)
        elif p=='custom_jvp_call':
            cj=P['call_jaxpr']; outs=eval_jaxpr(ctx,cj.jaxpr,cj.consts,*ins)
        elif p=='add': outs=[ew(lambda a,b:a+b,*ins)]
        elif p=='sub': outs=[ew(lambda a,b:a-b,*ins)]
        elif p=='mul': outs=[ew(lambda a,b:a*b,*ins)]
        elif p=='neg': outs=[ew(lambda a:-a,*ins)]
        elif p=='div':
            def dv(a,b):
                ctx.oblig.append(('div-nonzero', b!=0)); return a/b
            outs=[ew(dv,*ins)]
        elif p=='integer_pow':
            y=P['y']; outs=[ew(lambda a: z3.simplify(a**y) if y>=0 else 1/(a**(-y)),*ins)]
        elif p=='sqrt':
            def sq(a):
                s=ctx.fresh('sqrt'); ctx.assume += [s>=0, s*s==a]; ctx.oblig.append(('sqrt-nonneg',a>=0)); return s
            outs=[ew(sq,*ins)]
        elif p=='slice':
            sl=tuple(slice(s,l,st) for s,l,st in zip(P['start_indices'],P['limit_indices'],P['strides'] or [1]*len(P['start_indices'])))
            outs=[ins[0][sl]]
        elif p=='squeeze': outs=[np.squeeze(ins[0],axis=tuple(P['dimensions']))]
        elif p=='broadcast_in_dim':
            shape=P['shape']; bd=P['broadcast_dimensions']; x=ins[0]
            newshape=[1]*len(shape)
            for i,d in enumerate(bd): newshape[d]=x.shape[i]
            outs=[np.broadcast_to(x.reshape(newshape),shape).copy()]
        elif p=='concatenate': outs=[np.concatenate(ins,axis=P['dimension'])]
        elif p=='reshape': outs=[ins[0].reshape(P['new_sizes'])]
        elif p=='transpose': outs=[np.transpose(ins[0],P['permutation'])]
        elif p=='unstack': outs=list(np.moveaxis(ins[0],P['axis'],0))
        elif p=='convert_element_type':
            nd=np.dtype(P['new_dtype'])
            def cv(a):
                if z3.is_bool(a): return z3.If(a,R(1),R(0)) if nd.kind=='f' else z3.If(a,z3.IntVal(1),z3.IntVal(0))
                if z3.is_int(a) and nd.kind=='f': return z3.ToReal(a)
                return a
            outs=[ew(cv,ins[0])]
        elif p=='dot_general':
            (lc,rc),(lb,rb)=P['dimension_numbers']
            assert not lb and not rb
            outs=[np.tensordot(ins[0],ins[1],axes=(list(lc),list(rc)))]
            if outs[0].shape==(): outs=[np.array(outs[0],dtype=object)]
        elif p=='reduce_sum': outs=[np.sum(ins[0],axis=tuple(P['axes']))]
        elif p in ('lt','le','gt','ge','eq','ne'):
            import operator as op
            f={'lt':op.lt,'le':op.le,'gt':op.gt,'ge':op.ge,'eq':op.eq,'ne':op.ne}[p]
            outs=[ew(f,*ins)]
        elif p=='select_n':
            c=ins[0]; cases=ins[1:]
            outs=[ew(lambda c,a,b: z3.If(c,b,a), c, *cases)]
        elif p=='and': outs=[ew(lambda a,b: z3.And(a,b),*ins)]
        elif p=='or': outs=[ew(lambda a,b: z3.Or(a,b),*ins)]
        elif p=='reduce_and':
            outs=[np.array(z3.And(*list(ins[0].reshape(-1))),dtype=object)]
        elif p=='abs': outs=[ew(lambda a: z3.If(a>=0,a,-a),*ins)]
        elif p=='is_finite': outs=[ew(lambda a: z3.BoolVal(True),*ins)]
        else:
            raise NotImplementedError(p+str(P))
        for v,o in zip(eqn.outvars,outs):
            o=np.asarray(o,dtype=object) if not isinstance(o,np.ndarray) else o
            assert tuple(o.shape)==tuple(v.aval.shape),(p,o.shape,v.aval.shape)
            env[v]=o
    return [read(v) for v in jaxpr.outvars]

def trace(f,*shapes):
    args=[jp.zeros(s) for s in shapes]
    cj=jax.make_jaxpr(f)(*args)
    return cj

if __name__=='__main__':
    from brax import math
    ctx=Ctx()
    v=sym('v',(3,)); p=sym('p',(4,)); q=sym('q',(4,))
    lhs=trace(lambda v,p,q: math.rotate(v, math.quat_mul(p,q)), (3,),(4,),(4,))
    rhs=trace(lambda v,p,q: math.rotate(math.rotate(v,q),p), (3,),(4,),(4,))
    t=time.time()
    L=eval_jaxpr(ctx,lhs.jaxpr,lhs.consts,v,p,q)[0]
    Rr=eval_jaxpr(ctx,rhs.jaxpr,rhs.consts,v,p,q)[0]
    print('interp',time.time()-t)
    for i in range(3):
        s=z3.Solver(); s.set('timeout',60000)
        s.add(L[i]!=Rr[i]); t=time.time(); print(i,s.check(),time.time()-t)
