import time, z3, numpy as np, jax, jax.numpy as jp
import importlib, jx2
from jx2 import *
from brax import math
for n in (3,4):
    cj=jax.make_jaxpr(math.normalize)(jp.ones(n))
    ctx=Ctx(); x=sym('x',(n,))
    out,norm=eval_jaxpr(ctx,cj.jaxpr,cj.consts,x)
    xx=sum(e*e for e in x)
    # clause A: unit input -> identity
    s=z3.Solver(); s.set('timeout',60000); s.add(*ctx.assume); s.add(xx==1); s.add(z3.Or(*[o!=e for o,e in zip(out,x)]+[norm.item()!=1]))
    t=time.time(); print(n,'unit->identity',s.check(),'%.2fs'%(time.time()-t))
    # clause B: general: not tiny -> out*norm = x, norm>=0, norm^2=xx ; is_zero(all |x_i|<=1e-8) -> norm=0 and out = x*1e6
    tiny=z3.And(*[z3.And(e<=RV(1e-8),e>=-RV(1e-8)) for e in x])
    s=z3.Solver(); s.set('timeout',60000); s.add(*ctx.assume); s.add(z3.Not(tiny)); s.add(z3.Or(*[o*norm.item()!=e for o,e in zip(out,x)]+[norm.item()<0, norm.item()*norm.item()!=xx]))
    t=time.time(); print(n,'general nonzero',s.check(),'%.2fs'%(time.time()-t))
    s=z3.Solver(); s.set('timeout',60000); s.add(*ctx.assume); s.add(tiny); s.add(z3.Or(*[o*RV(1e-6)!=e for o,e in zip(out,x)]+[norm.item()!=0]))
    t=time.time(); print(n,'tiny',s.check(),'%.2fs'%(time.time()-t))
    # definedness obligations
    for nm,ob in ctx.oblig:
        s=z3.Solver(); s.set('timeout',60000); s.add(*ctx.assume); s.add(z3.Not(ob)); t=time.time(); print('  oblig',nm,s.check(),'%.2fs'%(time.time()-t))
