import time, z3, numpy as np, jax, jax.numpy as jp, itertools
import jx2
from jx2 import *
from brax.io import mjcf
from brax.generalized import mass as gmass, pipeline as gp
from brax.base import Motion, Transform, Inertia
xml='''<mujoco><worldbody><body><joint type="hinge" axis="0 1 0"/><geom size="0.1"/>
 <body pos="0 0 1"><joint type="slide" axis="1 0 0"/><joint type="hinge" axis="0 0 1"/><geom size="0.1"/></body>
 <body pos="0 1 0"><joint type="hinge" axis="1 0 0"/><geom size="0.1"/></body></body></worldbody></mujoco>'''
sys=mjcf.loads(xml); print(sys.link_types, sys.link_parents)
st=jax.jit(gp.init)(sys, sys.init_q, jp.zeros(sys.qd_size()))
nv=sys.qd_size(); nl=sys.num_links()
def f(cinr_i,cinr_pos,cinr_mass,cdof_ang,cdof_vel,arm):
    s=st.replace(cinr=Inertia(transform=Transform(pos=cinr_pos,rot=st.cinr.transform.rot),i=cinr_i,mass=cinr_mass),cdof=Motion(ang=cdof_ang,vel=cdof_vel))
    sy=sys.tree_replace({'dof.armature':arm})
    return gmass.matrix(sy,s)
cj=jax.make_jaxpr(f)(st.cinr.i,st.cinr.transform.pos,st.cinr.mass,st.cdof.ang,st.cdof.vel,sys.dof.armature)
ctx=Ctx()
I=sym('I',(nl,3,3)); H=sym('h',(nl,3)); m=sym('m',(nl,)); A=sym('a',(nv,3)); V=sym('v',(nv,3)); arm=sym('arm',(nv,))
t=time.time()
(M,)=eval_jaxpr(ctx,cj.jaxpr,cj.consts,I,H,m,A,V,arm)
print('interp %.1fs'%(time.time()-t))
# spec: Inertia.mul(crb, motion): ang = i@ang + cross(pos, vel); vel = mass*vel - cross(pos, ang); M[i,j] = cdof_j . f_i for link(j) ancestor-or-self of link(i) with crb of link(i) subtree
def cross(a,b): return [a[1]*b[2]-a[2]*b[1], a[2]*b[0]-a[0]*b[2], a[0]*b[1]-a[1]*b[0]]
par=[int(p) for p in sys.link_parents]
def subtree(l): return [k for k in range(nl) if k==l or (lambda k: any(x==l for x in anc(k)))(k)]
def anc(k):
    out=[]; 
    while par[k]!=-1: k=par[k]; out.append(k)
    return out
dof_link=[int(x) for x in np.asarray(sys.dof_link())]
goals=[]
for i in range(nv):
    li=dof_link[i]; sub=subtree(li)
    Ic=[[sum(I[l,a,b] for l in sub) for b in range(3)] for a in range(3)]; hc=[sum(H[l,a] for l in sub) for a in range(3)]; mc=sum(m[l] for l in sub)
    fang=[sum(Ic[a][b]*A[i,b] for b in range(3))+cross(hc,list(V[i]))[a] for a in range(3)]
    fvel=[mc*V[i,a]-cross(hc,list(A[i]))[a] for a in range(3)]
    for j in range(nv):
        lj=dof_link[j]
        related = (lj==li) or (lj in anc(li)) or (li in anc(lj))
        if lj==li or lj in anc(li):
            val=sum(A[j,a]*fang[a]+V[j,a]*fvel[a] for a in range(3))
            if j>i and lj==li: continue  # same link upper part defined by mirror; check symmetry separately
            exp=val+(arm[i] if i==j else 0)
            goals.append(M[i,j]!=exp); goals.append(M[j,i]!=exp)
        elif not related:
            goals.append(M[i,j]!=0)
s=z3.Solver(); s.set('timeout',120000); s.add(z3.Or(*goals)); t=time.time(); print('crb_form + mask + symmetry on',sys.link_types,':',s.check(),'%.2fs'%(time.time()-t), len(goals),'clauses')
