import jax, jax.numpy as jp
jax.config.update('jax_enable_x64', True)
from brax import math, base
from brax.base import Transform, Motion
v=jp.ones(3); q=jp.ones(4)
print(jax.make_jaxpr(math.rotate)(v,q))
print(jax.make_jaxpr(math.quat_mul)(q,q))
print(jax.make_jaxpr(math.normalize)(v))
t=Transform(pos=v, rot=q)
print(jax.make_jaxpr(lambda a,b: a.do(b))(t,t))
print(jax.make_jaxpr(math.quat_to_3x3)(q))
