import time, z3, numpy as np, jax, jax.numpy as jnp
from jx2 import *
from brax.training.agents.ppo import losses
def check(T,B):
    z=jnp.zeros((T,B))
    cj=jax.make_jaxpr(losses.compute_gae)(z,z,z,z,jnp.zeros(B),0.5,0.9)
    tr,te,r,v=[sym(n,(T,B)) for n in ('tr','te','r','v')]; bv=sym('bv',(B,)); lam=sym('lam',()); g=sym('g',())
    ctx=Ctx(); vs,adv=eval_jaxpr(ctx,cj.jaxpr,cj.consts,tr,te,r,v,bv,lam,g)
    lam=lam.item(); g=g.item()
    goals=[]
    for b in range(B):
        V=[v[t,b] for t in range(T)]+[bv[b]]
        delta=[(r[t,b]+g*(1-te[t,b])*V[t+1]-V[t])*(1-tr[t,b]) for t in range(T)]
        # defining sum: A_t = sum_{k>=t} prod_{j=t}^{k-1} (g*lam*(1-te_j)*(1-tr_j)) * delta_k
        A=[]
        for t in range(T):
            s=0; w=1
            for k in range(t,T):
                s=s+w*delta[k]; w=w*g*lam*(1-te[k,b])*(1-tr[k,b])
            A.append(s)
        VS=[A[t]+V[t] for t in range(T)]+[bv[b]]
        for t in range(T):
            goals.append(vs[t,b]!=VS[t])
            goals.append(adv[t,b]!=(r[t,b]+g*(1-te[t,b])*VS[t+1]-V[t])*(1-tr[t,b]))
    s=z3.Solver(); s.set('timeout',120000); s.add(z3.Or(*goals)); t=time.time(); res=s.check(); print(T,B,res,'%.2fs'%(time.time()-t))
for T,B in [(1,1),(2,1),(3,2),(5,2),(8,1),(12,1)]: check(T,B)
