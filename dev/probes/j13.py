import time, z3, numpy as np, jax, jax.numpy as jnp
import jx2
from jx2 import *
from brax.training import replay_buffers as rb
def a0(v):
    t=np.empty((),dtype=object); t[()]=v; return t
def check_insert(N,k,d=1):
    q=rb.Queue(N, jnp.zeros(d), 1)
    st=q.init(jax.random.PRNGKey(0))
    cj=jax.make_jaxpr(q.insert_internal)(st, jnp.zeros((k,d)))
    ctx=Ctx(); ctx.int_bounds=(0,N+1)
    data=sym('D',(N,d)); ip=z3.Int('ip'); sp=z3.Int('sp'); upd=sym('U',(k,d))
    pre=[0<=sp, sp<=ip, ip<=N]
    key=np.zeros(2,dtype=np.uint32)
    data2,ip2,sp2,_=eval_jaxpr(ctx,cj.jaxpr,cj.consts,data,a0(ip),a0(sp),key,upd)
    ip2=ip2.item(); sp2=sp2.item()
    # abstract view: held = data[0:ip] (insertion order); spec: held' = last N of held++upd ; unsampled' = suffix
    # ip' = min(N, ip+k); for j<ip': held'[j] = (held++upd)[ip+k-ip' + j]
    goals=[ip2!=z3.If(ip+k<=N, ip+k, N)]
    drop=ip+k-ip2   # number evicted from the front
    goals.append(sp2!=z3.If(sp-drop>=0, sp-drop, 0))
    for j in range(N):
        for c in range(d):
            # element j of new view
            src=drop+j   # index into held++upd
            exp=None
            # held++upd element at symbolic index src: ite chain
            cat=[data[i,c] for i in range(N)]
            e=upd[k-1,c]
            for v in range(k-2,-1,-1): e=z3.If(src-ip==v, upd[v,c], e)
            for v in range(N-1,-1,-1): e=z3.If(z3.And(src==v, v<ip), data[v,c], e)
            goals.append(z3.And(j<ip2, data2[j,c]!=e))
    s=z3.Solver(); s.set('timeout',60000); s.add(*pre); s.add(*ctx.assume); s.add(z3.Or(*goals))
    t=time.time(); r=s.check(); print('insert',N,k,r,'%.2fs'%(time.time()-t))
    if r==z3.sat: print(s.model())
for N in range(1,7):
    for k in range(1,N+1): check_insert(N,k)
