import time, z3, numpy as np, jax, jax.numpy as jnp
from jx2 import *
from brax.training.acme import running_statistics as rs
def check(n,weighted,first):
    st0=rs.init_state(jnp.zeros(()))
    def f(count,mean,sv,std,batch,w):
        st=rs.RunningStatisticsState(mean=mean,std=std,count=count,summed_variance=sv)
        o=rs.update(st,batch,weights=w if weighted else None)
        return o.count,o.mean,o.summed_variance,o.std
    cj=jax.make_jaxpr(f)(0.,0.,0.,1.,jnp.zeros(n),jnp.zeros(n))
    ctx=Ctx()
    S0,S1,S2=z3.Reals('S0 S1 S2'); std=sym('std',())
    x=sym('x',(n,)); w=sym('w',(n,))
    pre=[]
    if first: count,mean,sv=RV(0.0),RV(0.0),RV(0.0); s0,s1,s2=RV(0.0),RV(0.0),RV(0.0)
    else:
        pre+= [S0>0]; count=S0; mean=S1/S0; sv=S2-S1*S1/S0; s0,s1,s2=S0,S1,S2
    W=[w[i] if weighted else RV(1.0) for i in range(n)]
    if weighted: pre+=[wi>=0 for wi in W]+[sum(W)+s0>0]
    def a0(v): 
        t=np.empty((),dtype=object); t[()]=v; return t
    c2,m2,sv2,std2=eval_jaxpr(ctx,cj.jaxpr,cj.consts,a0(count),a0(mean),a0(sv),std,x,w)
    n0=s0+sum(W); n1=s1+sum(W[i]*x[i] for i in range(n)); n2=s2+sum(W[i]*x[i]*x[i] for i in range(n))
    goals=[c2.item()!=n0, m2.item()*n0!=n1, sv2.item()*n0!=n2*n0-n1*n1]
    s=z3.Solver(); s.set('timeout',60000); s.add(*pre); s.add(*ctx.assume); s.add(z3.Or(*goals))
    t=time.time(); r=s.check(); print(n,weighted,first,r,'%.2fs'%(time.time()-t), 'obl',len(ctx.oblig))
for n in (1,2,4,6):
    for wt in (False,True):
        for first in (True,False): check(n,wt,first)
