"""prototype v2: mixed concrete/symbolic jaxpr interpreter"""
import numpy as np, jax, jax.numpy as jp, z3, time, operator as op
from fractions import Fraction
jax.config.update('jax_enable_x64', True)
from jax.extend import core as jcore

def sym(name, shape, kind='R'):
    a = np.empty(shape, dtype=object)
    for idx in np.ndindex(*shape):
        n=name + ''.join('_%d'%i for i in idx)
        a[idx] = z3.Real(n) if kind=='R' else z3.Int(n)
    return a
def RV(x):
    if isinstance(x,(bool,np.bool_)): return z3.BoolVal(bool(x))
    if isinstance(x,(int,np.integer)): return z3.IntVal(int(x))
    if isinstance(x,(float,np.floating)):
        if x!=x or x in (float('inf'),float('-inf')): raise ValueError('nonfinite const %r'%x)
        return z3.RealVal(str(Fraction(float(x))))
    return x
def is_sym(a): return isinstance(a,np.ndarray) and a.dtype==object
def lift(a):
    if is_sym(a): return a
    a=np.asarray(a); out=np.empty(a.shape,dtype=object)
    for idx in np.ndindex(*a.shape): out[idx]=RV(a[idx].item())
    return out
def ew(f,*xs):
    xs=np.broadcast_arrays(*[lift(x) for x in xs])
    out=np.empty(xs[0].shape,dtype=object)
    for idx in np.ndindex(*out.shape): out[idx]=f(*[x[idx] for x in xs])
    return out
def toR(a): return z3.ToReal(a) if z3.is_int(a) else a
def arith(f):
    def g(a,b):
        if z3.is_real(a) or z3.is_real(b): a,b=toR(a),toR(b)
        try: return f(a,b)
        except Exception: print('ARITH FAIL',type(a),a,type(b),b); raise
    return g

class Ctx:
    def __init__(self): self.assume=[]; self.oblig=[]; self.n=0; self.trig={}; self.uf={}
    def fresh(self,p): self.n+=1; return z3.Real('%s!%d'%(p,self.n))
    def trig_pair(self,a):
        a=z3.simplify(a); k=a.get_id()
        if k not in self.trig:
            c,s=self.fresh('cos'),self.fresh('sin'); self.assume.append(c*c+s*s==1); self.trig[k]=(a,c,s)
        return self.trig[k][1:]
    def ufun(self,name,*args):
        if name not in self.uf: self.uf[name]=z3.Function(name,*([z3.RealSort()]*(len(args)+1)))
        return self.uf[name](*args)

MOVE={'slice','squeeze','broadcast_in_dim','concatenate','reshape','transpose','gather','rev','expand_dims','pad','copy','copy_p','unstack','split'}
LINEAR={'reduce_sum','cumsum'}
CMP={'lt':op.lt,'le':op.le,'gt':op.gt,'ge':op.ge,'eq':op.eq,'ne':op.ne}

def move(eqn, ins):
    """data movement via real JAX on element ids; symbolic operands only at non-index positions"""
    tables=[]; id_ins=[]; base=1  # id 0 reserved (e.g. pad/fill)
    for x in ins:
        if is_sym(x):
            ids=np.arange(base,base+x.size,dtype=np.int64).reshape(x.shape); base+=x.size
            tables.append(x.reshape(-1)); id_ins.append(ids)
        else:
            id_ins.append(x)
    # concrete data operands mixed with symbolic (e.g. concatenate of const and sym): lift them
    outs=eqn.primitive.bind(*[jp.asarray(i) for i in id_ins], **eqn.params)
    outs=outs if eqn.primitive.multiple_results else [outs]
    flat=np.concatenate([np.array([RV(0.0)],dtype=object)]+tables) if tables else None
    return [flat[np.asarray(o)] for o in outs]

def eval_jaxpr(ctx, jaxpr, consts, *args):
    env={}
    def read(v):
        if isinstance(v, jcore.Literal): return np.asarray(v.val)
        return env[v]
    for v,c in zip(jaxpr.constvars, consts): env[v]=c if is_sym(c) else np.asarray(c)
    for v,a in zip(jaxpr.invars,args): env[v]=a if is_sym(a) else np.asarray(a)
    for eqn in jaxpr.eqns:
        ins=[read(v) for v in eqn.invars]
        p=eqn.primitive.name; P=eqn.params
        anysym=any(is_sym(x) for x in ins)
        if p in ('jit','pjit','closed_call','core_call'):
            cj=P['jaxpr']; outs=eval_jaxpr(ctx,cj.jaxpr,cj.consts,*ins)
        elif p=='custom_jvp_call':
            cj=P['call_jaxpr']; outs=eval_jaxpr(ctx,cj.jaxpr,cj.consts,*ins)
        elif not anysym:
            o=eqn.primitive.bind(*[jp.asarray(x) for x in ins],**P)
            outs=[np.asarray(x) for x in (o if eqn.primitive.multiple_results else [o])]
        elif p=='gather' and is_sym(ins[1]):
            operand=lift(ins[0]); idx=ins[1]
            dn=P['dimension_numbers']; assert tuple(dn.collapsed_slice_dims)==(0,) and tuple(dn.start_index_map)==(0,), dn
            n0=operand.shape[0]
            rows=[]
            for r in range(idx.shape[0]):
                i0=idx[r,0]
                ctx.oblig.append(('gather-in-bounds', z3.And(i0>=0,i0<n0)))
                acc=operand[n0-1]
                for v in range(n0-2,-1,-1):
                    acc=ew(lambda a,b,v=v: z3.If(i0==v,a,b), operand[v], acc)
                rows.append(acc)
            outs=[np.stack(rows)]
        elif p in MOVE:
            # all symbolic/concrete data operands -> lift concrete data operands too when mixed
            if p in ('concatenate','pad'): ins=[lift(x) for x in ins]
            outs=move(eqn,ins)
        elif p=='add': outs=[ew(arith(op.add),*ins)]
        elif p=='sub': outs=[ew(arith(op.sub),*ins)]
        elif p=='mul':
            if hasattr(ctx,'post_mul'): outs=[ew(lambda a,b: ctx.post_mul(arith(op.mul)(a,b)),*ins)]
            else: outs=[ew(arith(op.mul),*ins)]
        elif p=='neg': outs=[ew(op.neg,*ins)]
        elif p=='max': outs=[ew(arith(lambda a,b: ctx.ufun('MAX',a,b) if getattr(ctx,'uf_minmax',False) else z3.If(a>=b,a,b)),*ins)]
        elif p=='min': outs=[ew(arith(lambda a,b: ctx.ufun('MIN',a,b) if getattr(ctx,'uf_minmax',False) else z3.If(a<=b,a,b)),*ins)]
        elif p=='div':
            def dv(a,b):
                a,b=toR(a),toR(b)
                if hasattr(ctx,'div'): return ctx.div(a,b)
                ctx.oblig.append(('div-nonzero',b!=0)); return a/b
            outs=[ew(dv,*ins)]
        elif p=='integer_pow':
            y=P['y']
            def ip(a):
                r=a
                for _ in range(abs(y)-1): r=r*a
                return r if y>0 else 1/r
            outs=[ew(ip,*ins)]
        elif p=='sqrt':
            def sq(a):
                s=ctx.fresh('sqrt'); ctx.assume += [s>=0, s*s==a]; ctx.oblig.append(('sqrt-nonneg',a>=0)); return s
            outs=[ew(sq,*ins)]
        elif p=='cos': outs=[ew(lambda a: ctx.trig_pair(a)[0],*ins)]
        elif p=='sin': outs=[ew(lambda a: ctx.trig_pair(a)[1],*ins)]
        elif p in ('atan2','acos','asin','tanh','log','exp','log1p','logistic','erf_inv'):
            outs=[ew(lambda *a: ctx.ufun(p,*a),*ins)]
        elif p=='convert_element_type':
            nd=np.dtype(P['new_dtype'])
            def cv(a):
                if nd.kind=='b' and not isinstance(a,(bool,np.bool_)) and not (isinstance(a,z3.ExprRef) and z3.is_bool(a)): return CMP['ne'](a,RV(0.0))
                if isinstance(a,(bool,np.bool_)): return RV(1.0 if a else 0.0) if nd.kind=='f' else (1 if a else 0)
                if z3.is_bool(a): return z3.If(a,RV(1.0),RV(0.0)) if nd.kind=='f' else z3.If(a,z3.IntVal(1),z3.IntVal(0))
                if z3.is_int(a) and nd.kind=='f': return z3.ToReal(a)
                return a
            outs=[ew(cv,ins[0])]
        elif p=='dot_general':
            (lc,rc),(lb,rb)=P['dimension_numbers']
            a,b=lift(ins[0]),lift(ins[1])
            if not lb:
                o=np.tensordot(a,b,axes=(list(lc),list(rc)))
                if hasattr(ctx,'post_mul'):
                    o=np.asarray(o,dtype=object) if isinstance(o,np.ndarray) else o
                    if isinstance(o,np.ndarray):
                        for idx in np.ndindex(*o.shape): o[idx]=ctx.post_mul(o[idx])
            else:
                # batch dims: move to front
                o=np.empty(v.aval.shape if False else eqn.outvars[0].aval.shape,dtype=object)
                am=np.moveaxis(a,list(lb),range(len(lb))); bm=np.moveaxis(b,list(rb),range(len(rb)))
                lc2=[c - sum(1 for x in lb if x<c) + len(lb)-len(lb) for c in lc]
                # simple approach: loop over batch index
                bshape=am.shape[:len(lb)]
                def adj(c,bd): return c-sum(1 for x in bd if x<c)
                for bi in np.ndindex(*bshape):
                    r_=np.tensordot(am[bi],bm[bi],axes=([adj(c,lb) for c in lc],[adj(c,rb) for c in rc])); o[bi]=r_.item() if r_.ndim==0 else r_
            outs=[o]
        elif p=='reduce_sum': outs=[np.sum(ins[0],axis=tuple(P['axes']))]
        elif p in CMP: outs=[ew(arith(CMP[p]),*ins)]
        elif p=='select_n':
            c=ins[0]; cases=ins[1:]
            def sel(c,*cs):
                if z3.is_bool(c): return z3.If(c,cs[1],cs[0])
                if isinstance(c,(bool,np.bool_)): return cs[1] if c else cs[0]
                raise NotImplementedError
            if not is_sym(c):
                cs=np.broadcast_arrays(*[lift(x) for x in cases]); ci=np.asarray(c).astype(int)
                o=np.empty(cs[0].shape,dtype=object)
                for idx in np.ndindex(*o.shape): o[idx]=cs[ci[idx]][idx]
                outs=[o]
            else: outs=[ew(arith_sel,c,*cases)]
        elif p=='and': outs=[ew(lambda a,b: (a and b) if isinstance(a,(bool,np.bool_)) and isinstance(b,(bool,np.bool_)) else z3.And(a,b),*ins)]
        elif p=='or': outs=[ew(lambda a,b: (a or b) if isinstance(a,(bool,np.bool_)) and isinstance(b,(bool,np.bool_)) else z3.Or(a,b),*ins)]
        elif p=='not': outs=[ew(lambda a: z3.Not(a),*ins)]
        elif p=='reduce_and': outs=[np.array(z3.And(*list(ins[0].reshape(-1))),dtype=object)] if len(P['axes'])==ins[0].ndim else [np.frompyfunc(lambda *a: z3.And(*a), ins[0].shape[P['axes'][0]],1)(*np.moveaxis(ins[0],P['axes'][0],0))]
        elif p=='reduce_or' and all(isinstance(e,(bool,np.bool_)) or e is True or e is False for e in lift(ins[0]).reshape(-1)):
            outs=[np.asarray(np.any(lift(ins[0]).astype(bool),axis=tuple(P['axes'])))]
        elif p=='reduce_or' and print('REDUCE_OR types',set(type(e) for e in lift(ins[0]).reshape(-1))): pass
        elif p=='reduce_or': outs=[np.array(z3.Or(*list(ins[0].reshape(-1))),dtype=object)] if len(P['axes'])==ins[0].ndim else [np.frompyfunc(lambda *a: z3.Or(*a), ins[0].shape[P['axes'][0]],1)(*np.moveaxis(ins[0],P['axes'][0],0))]
        elif p=='abs': outs=[ew(lambda a: z3.If(a>=0,a,-a),*ins)]
        elif p=='sign': outs=[ew(lambda a: z3.If(a>0,RV(1.0),z3.If(a<0,RV(-1.0),RV(0.0))),*ins)]
        elif p=='is_finite': outs=[ew(lambda a: z3.BoolVal(True),*ins)]
        elif p=='stop_gradient': outs=[ins[0]]
        elif p in ('random_wrap','random_unwrap','random_split','random_bits','random_seed','random_fold_in'):
            # PRNG: outputs are arbitrary (fresh) values; keys are opaque tokens
            ctx.n+=1; k=ctx.n
            outs=[]
            for oi,v in enumerate(eqn.outvars):
                sh=tuple(v.aval.shape)
                if 'key' in str(v.aval.dtype):
                    a=np.empty(sh,dtype=object)
                    for idx in np.ndindex(*sh): a[idx]=z3.Int('key!%d!%d'%(k,oi)+''.join('_%d'%i for i in idx))
                    outs.append(a)
                else:
                    a=sym('rnd!%d!%d'%(k,oi),sh,kind='I')
                    for e in a.reshape(-1): ctx.assume.append(e>=0)
                    outs.append(a)
        elif p=='rem':
            def crem(a,b):
                if z3.is_int_value(b):
                    bv=abs(b.as_long()); m=a % bv
                    return z3.If(z3.And(a<0, m!=0), m-bv, m)
                # symbolic divisor: ite chain over declared bound
                lo,hi=ctx.int_bounds
                acc=None
                for v in range(hi,lo-1,-1):
                    if v==0: continue
                    bv=abs(v); m=a % bv; r=z3.If(z3.And(a<0,m!=0), m-bv, m)
                    acc=r if acc is None else z3.If(b==v, r, acc)
                ctx.oblig.append(('rem-divisor-in-bounds', z3.And(b>=lo,b<=hi,b!=0)))
                return acc
            outs=[ew(crem,*ins)]
        elif p in ('dynamic_slice','dynamic_update_slice'):
            if p=='dynamic_slice':
                operand=lift(ins[0]); idxs=ins[1:]; sizes=P['slice_sizes']
            else:
                operand=lift(ins[0]); upd=lift(ins[1]); idxs=ins[2:]; sizes=upd.shape
            # clamp start indices (XLA semantics), enumerate possible starts per dim as ite
            starts=[]
            for dim,(ix,sz) in enumerate(zip(idxs,sizes)):
                mx=operand.shape[dim]-sz
                if not is_sym(ix): starts.append([(None,int(np.clip(int(ix),0,mx)))])
                else:
                    i0=ix.item(); cl=z3.If(i0<0,0,z3.If(i0>mx,mx,i0))
                    starts.append([(cl==v,v) for v in range(0,mx+1)])
            import itertools
            out=None
            for combo in itertools.product(*starts):
                conds=[c for c,_ in combo if c is not None]; st_=[v for _,v in combo]
                if p=='dynamic_slice':
                    res=operand[tuple(slice(s_,s_+z) for s_,z in zip(st_,sizes))]
                else:
                    res=operand.copy(); res[tuple(slice(s_,s_+z) for s_,z in zip(st_,sizes))]=upd
                if out is None: out=res
                else:
                    cnd=z3.And(*conds) if len(conds)>1 else conds[0]
                    out=ew(lambda a,b: z3.If(cnd,a,b), res, out)
            outs=[out]
        elif p=='opaque':
            ctx.n+=1; k=ctx.n
            h=getattr(ctx,'cut_handlers',{}).get(P['name'])
            if h is not None:
                outs=h(ctx,P,ins)
            else:
              outs=[sym('%s!%d!o%d'%(P['name'],k,i), tuple(P['batch'])+tuple(sh)) for i,sh in enumerate(P['out_shapes'])]
              ctx.calls=getattr(ctx,'calls',[])+[(P['name'],P['batch'],ins,outs)]
        elif p=='scan':
            L=P['length']; rev=P['reverse']; cj=P['jaxpr']
            if 'num_consts' in P: nc,ncar=P['num_consts'],P['num_carry']
            else:
                a_,b_,c_=P['ft_in'].unpack(); nc,ncar=len(a_),len(b_)
            if not hasattr(cj,'consts'):
                class _C: pass
                cc_=_C(); cc_.jaxpr=cj; cc_.consts=[]; cj=cc_
            consts_=ins[:nc]; carry=list(ins[nc:nc+ncar]); xs=ins[nc+ncar:]
            ys=None
            order=range(L-1,-1,-1) if rev else range(L)
            ylist={}
            for i in order:
                xi=[x[i] for x in xs]
                res=eval_jaxpr(ctx,cj.jaxpr,cj.consts,*consts_,*carry,*xi)
                carry=list(res[:ncar]); ylist[i]=res[ncar:]
            nys=len(cj.jaxpr.outvars)-ncar
            ys=[np.stack([lift(ylist[i][k]) for i in range(L)]) if L>0 else None for k in range(nys)]
            outs=carry+ys
        elif p=='cond':
            idx=ins[0]; ops=ins[1:]; brs=P['branches']
            res=[eval_jaxpr(ctx,b.jaxpr,b.consts,*ops) for b in brs]
            if not is_sym(idx): outs=res[int(idx)]
            else:
                i0=idx.item(); outs=[]
                for k in range(len(res[0])):
                    acc=lift(res[-1][k])
                    for bi in range(len(brs)-2,-1,-1):
                        acc=ew(lambda a,b: z3.If(i0==bi, a, b), lift(res[bi][k]), acc)
                    outs.append(acc)
        elif p in ('scatter-add','scatter_add'):
            operand,idx,upd=ins
            assert not is_sym(idx)
            # linear in (operand, upd): get structure by ids: apply to one-hot? use jacobian on small sizes
            f=lambda o,u: eqn.primitive.bind(o,jp.asarray(idx),u,**P)
            J_o,J_u=jax.jacfwd(f,argnums=(0,1))(jp.zeros(operand.shape),jp.zeros(upd.shape))
            J_o=np.asarray(J_o).reshape(int(np.prod(operand.shape)) and (-1,int(np.prod(operand.shape)))); 
            out_shape=eqn.outvars[0].aval.shape
            J_o=np.asarray(J_o).reshape(int(np.prod(out_shape)),-1); J_u=np.asarray(J_u).reshape(int(np.prod(out_shape)),-1)
            of=lift(operand).reshape(-1); uf=lift(upd).reshape(-1)
            res=np.empty(J_o.shape[0],dtype=object)
            for i in range(J_o.shape[0]):
                t=RV(0.0)
                for j in np.nonzero(J_o[i])[0]: t=t+of[j]*RV(float(J_o[i,j])) if J_o[i,j]!=1 else t+of[j]
                for j in np.nonzero(J_u[i])[0]: t=t+uf[j]*RV(float(J_u[i,j])) if J_u[i,j]!=1 else t+uf[j]
                res[i]=t
            outs=[res.reshape(out_shape)]
        else:
            raise NotImplementedError(p+' '+str({k:(v if not hasattr(v,'eqns') else '...') for k,v in P.items()})[:300])
        for v,o in zip(eqn.outvars,outs):
            if not isinstance(o,np.ndarray):
                if isinstance(o,(int,float,bool,np.generic)): o=np.asarray(o)
                else:
                    t=np.empty((),dtype=object); t[()]=o; o=t
            assert tuple(o.shape)==tuple(v.aval.shape),(p,o.shape,v.aval.shape)
            env[v]=o
    return [read(v) for v in jaxpr.outvars]

def arith_sel(c,a,b):
    if isinstance(c,(bool,np.bool_)): return b if c else a
    if z3.is_real(a) or z3.is_real(b): a,b=toR(a),toR(b)
    return z3.If(c,b,a)
