import time, z3, numpy as np, jax, jax.numpy as jp
import jx2
from jx2 import *
from opq import opaque
from brax import math, base, kinematics
from brax.io import mjcf
from brax.spring import joints as sj, pipeline as sp
xml='''<mujoco><option timestep="0.01"/><worldbody>
<body name="a" pos="0.1 0.2 0.3"><freejoint/><geom size="0.1"/>
 <body name="b" pos="0.3 0 0.1" quat="0.5 -0.5 0.5 0.5"><joint type="hinge" axis="0.6 0.8 0" pos="0 0.1 0.2" range="-1 1"/><geom size="0.1" contype="0" conaffinity="0"/>
 </body>
</body></worldbody></mujoco>'''
sys=mjcf.loads(xml)
for n in ('_one_dof','_two_dof','_three_dof'):
    setattr(sj,n,opaque('spring.joints.'+n,getattr(sj,n)))
st=jax.jit(sp.init)(sys, sys.init_q, jp.zeros(sys.qd_size()))
def f(st,act):
    s2=sp.step(sys,st,act); return s2.xd_i.vel, s2.q
t=time.time()
cj=jax.make_jaxpr(f)(st,jp.zeros(sys.act_size()))
print('trace %.1fs'%(time.time()-t), len(cj.jaxpr.eqns))
# dce to only xd_i.vel output
from jax._src.interpreters import partial_eval as pe
j2,used=pe.dce_jaxpr(cj.jaxpr,[True,False])
print('after dce',len(j2.eqns), sum(used),'of',len(used),'inputs used')
leaves=jax.tree_util.tree_leaves((st,jp.zeros(sys.act_size())))
args=[]
for i,(l,u) in enumerate(zip(leaves,used)):
    if not u: continue
    l=np.asarray(l)
    args.append(sym('in%d'%i,l.shape) if l.dtype.kind=='f' else l)
ctx=Ctx(); t=time.time()
(vel,)=eval_jaxpr(ctx,j2,cj.consts,*args)
print('interp %.1fs'%(time.time()-t), 'uf',list(ctx.uf), 'assume',len(ctx.assume))
paths=jax.tree_util.tree_flatten_with_path((st,jp.zeros(sys.act_size())))[0]
names=[jax.tree_util.keystr(p) for (p,l),u in zip(paths,used) if u]
print(names)
A=dict(zip(names,args))
mass=A['[0].mass']; v0=A['[0].xd_i.vel']
g=np.asarray(sys.gravity,dtype=float); dt=float(sys.opt.timestep)
goals=[]
for k in range(3):
    lhs=sum(mass[i]*vel[i][k] for i in range(2)); rhs=sum(mass[i]*v0[i][k] for i in range(2))+sum(mass[i] for i in range(2))*(RV(float(g[k]))*RV(dt))
    goals.append(lhs!=rhs)
s=z3.Solver(); s.set('timeout',60000); s.add(*[m>0 for m in mass]); s.add(*ctx.assume); s.add(z3.Or(*goals))
t=time.time(); print('momentum step theorem:',s.check(),'%.2fs'%(time.time()-t))
