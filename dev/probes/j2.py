import time, z3, numpy as np, jax, jax.numpy as jp
from jx import *
from brax import math, base
from brax.base import Transform, Motion, Force, Inertia

def prove(name, ctx, goals, assumptions=(), timeout=60000):
    s=z3.Solver(); s.set('timeout',timeout)
    for a in list(assumptions)+ctx.assume: s.add(a)
    s.add(z3.Or(*[g if z3.is_bool(g) else g for g in goals]))
    t=time.time(); r=s.check(); print(name, r, '%.3fs'%(time.time()-t))
    return r

def run(f,*syms):
    cj=jax.make_jaxpr(f)(*[jp.zeros(s.shape) for s in syms])
    ctx=Ctx()
    outs=eval_jaxpr(ctx,cj.jaxpr,cj.consts,*syms)
    return ctx,outs

def neq(a,b): return [x!=y for x,y in zip(np.asarray(a).reshape(-1),np.asarray(b).reshape(-1))]
def unit(q): return sum(x*x for x in q)==1

p1=sym('p1',(3,));r1=sym('r1',(4,));p2=sym('p2',(3,));r2=sym('r2',(4,));p3=sym('p3',(3,));r3=sym('r3',(4,))
# associativity of Transform.do
f_l=lambda p1,r1,p2,r2,p3,r3: (lambda t: (t.pos,t.rot))(Transform(p1,r1).do(Transform(p2,r2)).do(Transform(p3,r3)))
f_r=lambda p1,r1,p2,r2,p3,r3: (lambda t: (t.pos,t.rot))(Transform(p1,r1).do(Transform(p2,r2).do(Transform(p3,r3))))
c1,(lp,lr)=run(f_l,p1,r1,p2,r2,p3,r3); c2,(rp,rr)=run(f_r,p1,r1,p2,r2,p3,r3)
prove('assoc',c1,neq(lp,rp)+neq(lr,rr))
# power invariance: (t.do(m)) . f == m . (t.do(f))  for unit quaternion
ma=sym('ma',(3,));mv=sym('mv',(3,));fa=sym('fa',(3,));fv=sym('fv',(3,))
def pw_l(p,r,ma,mv,fa,fv):
    m2=Transform(p,r).do(Motion(ma,mv)); return m2.dot(Force(fa,fv))
def pw_r(p,r,ma,mv,fa,fv):
    f2=Transform(p,r).do(Force(fa,fv)); return Motion(ma,mv).dot(f2)
c1,(l,)=run(pw_l,p1,r1,ma,mv,fa,fv); c2,(r,)=run(pw_r,p1,r1,ma,mv,fa,fv)
prove('power-unit',c1,neq(l,r),[unit(r1)])
nq=sum(x*x for x in r1)
prove('power-general(|q|^4 scaling)',c1,[l.item()!=r.item()])
# inv_do(do(m)) == m for unit quaternion
def rt(p,r,ma,mv):
    m=Transform(p,r).inv_do(Transform(p,r).do(Motion(ma,mv))); return m.ang,m.vel
c,(a,v)=run(rt,p1,r1,ma,mv)
prove('motion do/inv_do roundtrip unit',c,neq(a,ma)+neq(v,mv),[unit(r1)])
# quat_to_3x3 agrees with rotate for unit q, and for any nonzero q up to scaling
def m3(r,v): return math.quat_to_3x3(r)@v
def rv(r,v): return math.rotate(v,r)
c1,(l,)=run(m3,r1,p1); c2,(r,)=run(rv,r1,p1)
print(c1.oblig)
prove('3x3 vs rotate unit',c1,neq(l,r),[unit(r1)])
# inertia: kinetic energy invariance:  m.dot(I.mul(m)) with I moved by transform vs m moved
