"""opaque-call primitive: cuts a callee out of the trace, keeps a named boundary that survives vmap"""
import jax, jax.numpy as jnp, numpy as np
from jax.extend import core as jcore
from jax.interpreters import batching
from jax._src import core as _core
opaque_p=jcore.Primitive('opaque'); opaque_p.multiple_results=True
def _abs(*avals, name, out_shapes, out_dtypes, batch):
    return [_core.ShapedArray(tuple(batch)+tuple(s), d) for s,d in zip(out_shapes,out_dtypes)]
opaque_p.def_abstract_eval(_abs)
def _impl(*args, name, out_shapes, out_dtypes, batch):
    raise RuntimeError('opaque call %s is not executable'%name)
opaque_p.def_impl(_impl)
def _batch(args, dims, *, name, out_shapes, out_dtypes, batch):
    size=next(a.shape[d] for a,d in zip(args,dims) if d is not None)
    new=[]
    for a,d in zip(args,dims):
        if d is None: a=jnp.broadcast_to(a,(size,)+a.shape)
        else: a=jnp.moveaxis(a,d,0)
        new.append(a)
    outs=opaque_p.bind(*new,name=name,out_shapes=out_shapes,out_dtypes=out_dtypes,batch=(size,)+tuple(batch))
    return outs,[0]*len(outs)
batching.primitive_batchers[opaque_p]=_batch
def opaque(name, fn):
    """wrap fn: at trace time computes output structure with eval_shape, emits opaque eqn"""
    def wrapped(*args, **kw):
        flat,tree=jax.tree_util.tree_flatten((args,kw))
        arr_idx=[i for i,x in enumerate(flat) if isinstance(x,(jax.Array,np.ndarray,float,int)) or hasattr(x,'aval')]
        out_struct=jax.eval_shape(lambda *a,**k: fn(*a,**k), *args, **kw)
        oflat,otree=jax.tree_util.tree_flatten(out_struct)
        outs=opaque_p.bind(*[jnp.asarray(flat[i]) for i in arr_idx], name=name,
                           out_shapes=tuple(tuple(o.shape) for o in oflat), out_dtypes=tuple(o.dtype for o in oflat), batch=())
        return jax.tree_util.tree_unflatten(otree,outs)
    return wrapped
