"""regenerates MANIFEST.json from the table below (development helper; the manifest itself is committed)."""
import json, os
BASE = "cd /repo && /venv/bin/python -m pytest -ra -q -p no:cacheprovider --timeout=900 --continue-on-collection-errors"
CHECKS = {}
NA = {}
def chk(pid, category, text, note, technique, ref):
  CHECKS[pid] = dict(property_id=pid, quick_cmd='./vcheck %s --tier quick' % pid, thorough_cmd='./vcheck %s --tier thorough' % pid,
                     evidence_file='evidence/%s.json' % pid, replay_cmd_template='cat {path}', engine='vcheck',
                     level_claimed=dict(category=category, text=text, design_ref=ref), level_note=note, technique=technique)
exec(open(os.path.join(os.path.dirname(__file__), 'manifest_table.py')).read())
allp = ['C%02d' % i for i in range(1, 21)]
man = dict(version=1, setup_cmd='./setup.sh',
           hooks=dict(guard='BRAX_VERIF', enable='no source hooks: contracts are sidecar files under /verif/verif/contracts, callee cuts are monkeypatches inside the checker process (BRAX_VERIF=1 is exported by ./vcheck but no code in /repo reads it)',
                      baseline_off_cmd=BASE, source_commits=[], add_only=True),
           engines=[dict(name='vcheck', path='verif/engine', serves_properties=sorted(CHECKS),
                         kind_free_text='contract-based deductive verification: VCs generated from the jaxpr of the real functions (Engine J), real CPython functions on symbolic proxies (Engine P); back ends z3/cvc5 (SMT), exact polynomial normal form (RING), sympy (SYM); bounded stand-ins are labelled bounded')],
           checks=[CHECKS[p] for p in allp if p in CHECKS],
           notes='see DESIGN.md; exit codes: 0 held, 1 violation, 2 undecided required obligation, 3 engine error',
           not_applicable=[dict(property_id=p, reason=NA.get(p, 'not yet claimed: contracts for this property are not built yet (see DESIGN.md section 7 for the plan)')) for p in allp if p not in CHECKS])
json.dump(man, open(os.path.join(os.path.dirname(__file__), '..', 'MANIFEST.json'), 'w'), indent=1)
print('manifest:', sorted(CHECKS))
