#!/bin/sh
# dev/seed_sweep.sh <stream k> <of n>: run every kept seed (every n-th, offset k) against its property's quick check in a scratch worktree of /repo HEAD; expects exit 1
K=$1; N=$2; B=/tmp/sweep$K; mkdir -p $B
i=0
for D in /verif/seeded/*/; do
  i=$((i+1)); [ $((i % N)) -eq $K ] || continue
  NAME=$(basename $D); ID=$(echo $NAME | cut -c1-3)
  WT=$B/wt; git -C /repo worktree remove --force $WT 2>/dev/null; git -C /repo worktree add -q --detach $WT HEAD
  if ! git -C $WT apply $D/patch.diff 2>/dev/null; then
    if ! git -C $WT apply --3way $D/patch.diff 2>/dev/null; then echo "$NAME: PATCH-DOES-NOT-APPLY"; continue; fi
  fi
  cd /verif && VERIF_REPO=$WT timeout 3000 ./vcheck $ID --tier quick --no-evidence > $B/$NAME.log 2>&1; rc=$?
  echo "$NAME: exit=$rc $(grep -c VIOLATION $B/$NAME.log) violations; $(grep 'tier=' $B/$NAME.log | sed 's/.*required obligations, //' | cut -c1-120)"
done
git -C /repo worktree remove --force $B/wt 2>/dev/null
