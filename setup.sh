#!/bin/sh
# Builds /verif/.venv offline: python 3.12 venv (from /venv's interpreter) + solver wheels from the
# local wheelhouse + a .pth that exposes /venv's site-packages (jax, mujoco, brax editable at /repo).
set -e
cd "$(dirname "$0")"
if [ -x .venv/bin/python ] && .venv/bin/python -c "import z3, sympy, jax, jsonschema" 2>/dev/null; then
  echo "setup: .venv ok"; exit 0
fi
rm -rf .venv
/venv/bin/python -m venv .venv
PIP_NO_INDEX=1 .venv/bin/python -m pip install -q --no-index --find-links /opt/veriftools/wheels \
    z3-solver cvc5 sympy icontract jsonschema
echo "import site; site.addsitedir('/venv/lib/python3.12/site-packages')" \
    > .venv/lib/python3.12/site-packages/_repo_deps.pth
.venv/bin/python -c "import z3, sympy, jax, brax, mujoco, jsonschema; print('setup: built', z3.get_version_string(), jax.__version__)"
